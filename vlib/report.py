"""Aggregation of case results, known-finding classification, evidence and replay files."""
from __future__ import annotations

import collections
import fnmatch
import json
import os

from . import boot

MAX_REPLAYS = 12


def load_known():
    path = os.path.join(boot.HOME, "known_findings.json")
    if not os.path.exists(path) or os.environ.get("VERIF_NO_KNOWN"):  # VERIF_NO_KNOWN=1: diagnosis only (shows witnesses)
        return {"open": [], "fixed": []}
    with open(path) as f:
        return json.load(f)


def match_known(prop, sig, known):
    for ent in known.get("open", []):
        if ent["property"] == prop and fnmatch.fnmatchcase(sig, ent["sig"]):
            return ent
    return None


class Aggregate:
    def __init__(self, prop):
        self.prop = prop
        self.counters = collections.Counter()
        self.classes = collections.Counter()
        self.keys = set()
        self.samples = []
        self.status = collections.Counter()
        self.violations = []  # (desc, violation dict)
        self.inconclusive = []  # reasons
        self.evaluations = 0

    def add(self, desc, res):
        # one descriptor may be a batch of many cases: count the cases it explored (explicit count if the check gives
        # one, else the number of case signatures it returned), never less than one
        nkeys = len(res.get("keys") or ([res["key"]] if res.get("key") else []))
        self.evaluations += max(1, nkeys, int(res.get("evaluations") or 0))
        self.descriptors = getattr(self, "descriptors", 0) + 1
        st = res.get("status", "ok")
        self.status[st] += 1
        for k, v in (res.get("counters") or {}).items():
            self.counters[k] += v
        for c in res.get("classes") or []:
            self.classes[c] += 1
        for c, n in (res.get("class_counts") or {}).items():
            self.classes[c] += n
        for k in res.get("keys") or ([res["key"]] if res.get("key") else []):
            self.keys.add(k)
        if res.get("sample") is not None and len(self.samples) < 6:
            self.samples.append(res["sample"])
        for v in res.get("violations") or []:
            self.violations.append((desc, v))
        if st in ("harness_error", "crash", "inconclusive"):
            self.inconclusive.append({"case": desc, "status": st, "reason": res.get("reason"),
                                      "trace": res.get("trace")})


def finish(prop, level, tier, seed, agg, rule, wall, floors=None, extra=None, assumptions=None,
           exhaustive=False):
    """Classify, print verdict lines, write evidence, return exit code."""
    known = load_known()
    unknown = collections.OrderedDict()
    seen_known = collections.OrderedDict()
    for desc, v in agg.violations:
        ent = match_known(prop, v.get("sig", ""), known)
        if ent is not None:
            k = ent["sig"]
            seen_known.setdefault(k, [ent, 0, v])
            seen_known[k][1] += 1
        else:
            unknown.setdefault(v.get("sig", "?"), []).append((desc, v))
    for k, (ent, n, v) in seen_known.items():
        print(f"KNOWN-FINDING: property={prop} {ent['what']} [sig={ent['sig']}; seen {n}x this run]")
    replay_paths = []
    if unknown:
        rdir = os.path.join(os.environ.get("VERIF_REPLAY_DIR") or os.path.join(boot.HOME, "replays"), prop)
        os.makedirs(rdir, exist_ok=True)
        n = 0
        for sig, items in unknown.items():
            for desc, v in items[:2]:
                if n >= MAX_REPLAYS:
                    break
                n += 1
                path = os.path.join(rdir, f"{tier}-seed{seed}-{n}.json")
                with open(path, "w") as f:
                    json.dump({"property": prop, "sig": sig, "case": desc, "violation": v}, f, indent=1, default=repr)
                replay_paths.append(path)
                print(f"VIOLATION property={prop} replay={path}")
                print(f"  sig={sig} ({len(items)} case(s)): {str(v.get('msg'))[:600]}")
    reasons = []
    if agg.inconclusive:
        by = collections.Counter(f"{i['status']}: {str(i['reason'])[:160]}" for i in agg.inconclusive)
        for r, n in by.most_common(5):
            reasons.append(f"{n} case(s) {r}")
    for r in floors or []:
        reasons.append(r)
    cov = {
        "evaluations": agg.evaluations,
        "distinct_nontrivial": len(agg.keys),
        "rule": rule,
        "samples": agg.samples or [],
        "exhaustive": bool(exhaustive),
        "counters": dict(sorted(agg.counters.items())),
        "classes": dict(sorted(agg.classes.items())),
        "descriptors_run": getattr(agg, "descriptors", agg.evaluations),
        "case_status": dict(agg.status),
        "known_findings_seen": {k: n for k, (e, n, v) in seen_known.items()},
        "unknown_violation_sigs": {k: len(v) for k, v in unknown.items()},
        "inconclusive_reasons": reasons,
    }
    if extra:
        cov.update(extra)
    verdict = "violated" if unknown else ("inconclusive" if reasons else "held_on_observed")
    cov["verdict"] = verdict
    ev = {
        "property_id": prop,
        "tier": tier,
        "seed": seed,
        "level": level,
        "coverage": cov,
        "assumptions": assumptions or [],
        "wall_s": round(wall, 2),
        "violations": sum(len(v) for v in unknown.values()),
    }
    edir = os.environ.get("VERIF_EVIDENCE_DIR") or os.path.join(boot.HOME, "evidence")
    os.makedirs(edir, exist_ok=True)
    tmp = os.path.join(edir, f".{prop}.json.tmp")
    with open(tmp, "w") as f:
        json.dump(ev, f, indent=1, default=repr)
    os.replace(tmp, os.path.join(edir, f"{prop}.json"))
    if unknown:
        return 1
    if reasons:
        for r in reasons:
            print(f"INCONCLUSIVE property={prop} reason={r}")
        for i in agg.inconclusive[:12]:
            print(f"  inconclusive case: {json.dumps(i.get('case'), default=repr)[:300]}")
        for i in agg.inconclusive[:2]:
            if i.get("trace"):
                print(i["trace"])
        return 2
    print(f"HELD property={prop} tier={tier} seed={seed} evaluations={agg.evaluations} "
          f"distinct_nontrivial={len(agg.keys)} wall={wall:.1f}s")
    return 0
