"""Process bootstrap: paths, seeds, tiers, scratch directories."""
from __future__ import annotations

import atexit
import os
import shutil
import sys
import tempfile

HOME = os.environ.get("VERIF_HOME") or os.path.dirname(os.path.dirname(os.path.abspath(__file__)))
REPO = os.environ.get("VERIF_REPO", "/repo")
SEED = int(os.environ.get("VERIF_SEED", "0") or 0)
NPROC = int(os.environ.get("VERIF_NPROC", "0") or 0) or min(16, os.cpu_count() or 4)

_deps = os.path.join(HOME, ".deps")
if _deps not in sys.path:
    sys.path.append(_deps)  # last: never shadow the repository interpreter's own packages

_SCRATCH = None
_OWNER = None


def scratch() -> str:
    """Per-run scratch directory (removed at exit of the process that created it)."""
    global _SCRATCH, _OWNER
    if _SCRATCH is None:
        base = os.environ.get("VERIF_SCRATCH_BASE") or tempfile.gettempdir()
        _SCRATCH = tempfile.mkdtemp(prefix="verif-", dir=base)
        _OWNER = os.getpid()
        atexit.register(_cleanup)
    return _SCRATCH


def _cleanup() -> None:
    if _SCRATCH and os.getpid() == _OWNER:
        shutil.rmtree(_SCRATCH, ignore_errors=True)


def repo_is_importable() -> str:
    import pipefunc

    path = os.path.dirname(os.path.abspath(pipefunc.__file__))
    want = os.path.join(os.path.realpath(REPO), "pipefunc")
    if os.path.realpath(path) != want:
        raise RuntimeError(f"pipefunc imported from {path}, expected {want}")
    return path
