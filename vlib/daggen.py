"""Call-DAG case generator and reference evaluator (DESIGN 3.4).

A case is a JSON-able description; `build` creates real PipeFuncs around probes; `ref_eval`
evaluates the description directly (resolution order bound > supplied keyword > upstream
output > default) without touching pipefunc.
"""
from __future__ import annotations

import random

from . import probes


def gen_case(rng, max_funcs=6, p_bound=0.15, p_default=0.3, p_rename=0.3, p_nullary=0.12, p_tuple=0.25, p_decl=0.75, p_ign=0.08, p_falsy=0.0, p_picker=0.0):
    roots = [f"r{i}" for i in range(rng.randint(1, 3))]
    names = list(roots)
    defaults = {r: f"D{r}" for r in roots if rng.random() < p_default}
    funcs = []
    for i in range(rng.randint(1, max_funcs)):
        if rng.random() < p_nullary:
            nparams = 0
        else:
            nparams = rng.choice([1, 1, 2, 2, 3])
        params = rng.sample(names, min(nparams, len(names)))
        nout = 2 if rng.random() < p_tuple else 1
        outs = [f"o{i}"] if nout == 1 else [f"o{i}a", f"o{i}b"]
        bound = {p: f"B{i}{p}" for p in params if rng.random() < p_bound}
        fdef = {}
        for p in params:
            if p in defaults and rng.random() < p_decl:
                fdef[p] = defaults[p]
            elif p not in roots and rng.random() < p_ign:
                fdef[p] = f"IGN{p}"  # default on a parameter that is an upstream output: never used
        use_rename = rng.random() < p_rename
        iparams = [f"a{k}" for k in range(len(params))] if use_rename else list(params)
        fd = {"name": f"f{i}", "params": params, "iparams": iparams, "outs": outs, "defaults": fdef, "bound": bound}
        if p_falsy and rng.random() < p_falsy:
            fd["ret"] = rng.choice(sorted(probes.FALSY))
        if p_picker and nout > 1 and rng.random() < p_picker:
            fd["picker"] = True  # returns {output name: value}, PipeFunc(output_picker=probes.pick_member)
        funcs.append(fd)
        names.extend(outs)
    # a pipeline-level default exists only if some function actually declares it
    declared = {p for f in funcs for p in f["defaults"] if p in roots and p not in f["bound"]}
    defaults = {r: v for r, v in defaults.items() if r in declared}
    used = {p for f in funcs for p in f["params"]}
    roots = [r for r in roots if r in used]
    return {"roots": roots, "defaults": defaults, "funcs": funcs}


def case_from_seed(seed, index, **kw):
    return gen_case(random.Random(f"daggen:{seed}:{index}"), **kw)


# ------------------------------------------------------------------ building
def build_funcs(case, log=None, fault=None, tag=None, cache=None, prefix="", extra=None, explicit_defaults=False, value_wrap=None):
    """explicit_defaults: declare the defaults through PipeFunc(defaults=...) (stored on the PipeFunc) instead of
    through the function signature."""
    from pipefunc import PipeFunc

    out = []
    for f in case["funcs"]:
        idef = {ip: f["defaults"][p] for p, ip in zip(f["params"], f["iparams"]) if p in f["defaults"]}
        xdef = {}
        if explicit_defaults:
            xdef, idef = {p: f["defaults"][p] for p in f["params"] if p in f["defaults"] and p not in f["bound"]}, {}
        fn = probes.make_probe(prefix + f["name"], f["iparams"], len(f["outs"]), log=log, defaults=idef, tag=tag,
                               fault=(fault or {}).get(f["name"]) if fault else None, ret=f.get("ret"),
                               as_dict=(f["outs"] if f.get("picker") else None))
        renames = {ip: p for p, ip in zip(f["params"], f["iparams"]) if ip != p}
        kw = {}
        if renames:
            kw["renames"] = renames
        if f["bound"]:
            kw["bound"] = dict(f["bound"])
        if xdef:
            kw["defaults"] = xdef
        if value_wrap is not None:
            # explicit default / bound values as OBJECTS (of a class that prints like the plain string): the very objects the
            # user handed over are what the functions must receive
            for key in ("bound", "defaults"):
                if key in kw:
                    kw[key] = {k: value_wrap(x) for k, x in kw[key].items()}
        if cache and f["name"] in cache:
            kw["cache"] = True
        if f.get("picker"):
            kw["output_picker"] = probes.pick_member
        if extra and f["name"] in extra:
            kw.update(extra[f["name"]])
        outn = tuple(f["outs"]) if len(f["outs"]) > 1 else f["outs"][0]
        out.append(PipeFunc(fn, outn, **kw))
    return out


def build_pipeline(case, log=None, order=None, **kw):
    from pipefunc import Pipeline

    pkw = kw.pop("pipeline_kwargs", {})
    fs = build_funcs(case, log=log, **kw)
    if order is not None:
        fs = [fs[i] for i in order]
    return Pipeline(fs, **pkw)


# ------------------------------------------------------------------ reference semantics
def producer(case, name):
    for f in case["funcs"]:
        if name in f["outs"]:
            return f
    return None


class Missing(Exception):
    pass


def call_term(f, args, prefix=""):
    """Term the probe of f returns for pipeline-level argument dict `args`.
    `prefix` may be a dict function name -> prefix (a replaced function has another probe name)."""
    if isinstance(prefix, dict):
        prefix = prefix.get(f["name"], "")
    return prefix + f["name"] + "(" + ";".join(f"{ip}={args[p]}" for p, ip in zip(f["params"], f["iparams"])) + ")"


def ref_eval(case, out, K, prefix="", defaults=None, bound=None):
    """Evaluate output `out` (str or tuple of sibling names) under keyword set K.
    Returns dict(value, calls=[function names in execution order], used=set of K keys used,
    memo={name: value} of computed outputs).  Raises Missing(name)."""
    defaults = case["defaults"] if defaults is None else defaults
    memo, calls, used, computed = dict(K), [], set(), {}

    def value(name):
        if name in memo:
            if name in K:
                used.add(name)
            return memo[name]
        f = producer(case, name)
        if f is None:
            if name in defaults:
                return defaults[name]
            raise Missing(name)
        run(f)
        return memo[name]

    def run(f):
        args = {}
        fb = f["bound"] if bound is None else bound.get(f["name"], {})
        for p in f["params"]:
            if p in fb:
                args[p] = fb[p]
            elif p in K:
                args[p] = K[p]
                used.add(p)
            elif producer(case, p) is not None:
                args[p] = value(p)
            elif p in defaults:
                args[p] = defaults[p]
            else:
                raise Missing(p)
        calls.append(f["name"])
        t = call_term(f, args, prefix)
        fv = probes.FALSY[f["ret"]] if f.get("ret") else None
        if len(f["outs"]) == 1:
            memo[f["outs"][0]] = computed[f["outs"][0]] = (fv if f.get("ret") else t)
        else:
            for k, o in enumerate(f["outs"]):
                memo[o] = computed[o] = (fv if (f.get("ret") and k == 0) else f"{t}#{k}")
        return t

    if isinstance(out, (tuple, list)):
        f = producer(case, out[0])
        if not all(o in K for o in out):
            if any(o in memo for o in out):
                pass
            run(f)
        v = tuple(memo[o] for o in out)
    else:
        v = value(out)
    return {"value": v, "calls": calls, "used": used, "memo": computed}


def needed_roots(case, out, cut=()):
    """Root names needed to evaluate `out` when the names in `cut` are supplied."""
    need, seen = set(), set()

    def walk(name):
        if name in cut:
            return
        f = producer(case, name)
        if f is None:
            need.add(name)
            return
        if f["name"] in seen:
            return
        seen.add(f["name"])
        for p in f["params"]:
            if p not in f["bound"]:
                walk(p)

    for o in (out if isinstance(out, (tuple, list)) else [out]):
        walk(o)
    return need


def needed_funcs(case, outs, cut=()):
    seen = []

    def walk(name):
        if name in cut:
            return
        f = producer(case, name)
        if f is None or f["name"] in seen:
            return
        seen.append(f["name"])
        for p in f["params"]:
            if p not in f["bound"]:
                walk(p)

    for o in outs:
        walk(o)
    return seen


def interior_names(case, out):
    """Output names (other than `out`) on which `out` depends."""
    res, seen = [], set()

    def walk(name, top):
        f = producer(case, name)
        if f is None:
            return
        if not top and name not in res:
            res.append(name)
        if f["name"] in seen:
            return
        seen.add(f["name"])
        for p in f["params"]:
            if p not in f["bound"]:
                walk(p, False)

    walk(out, True)
    return res


def all_outputs(case):
    return [o for f in case["funcs"] for o in f["outs"]]


def signature(case):
    return repr([(f["params"], f["outs"], sorted(f["bound"]), sorted(f["defaults"]), f["iparams"] != f["params"], f.get("ret"))
                 for f in case["funcs"]])


def classes(case):
    cl = set()
    outs = set(all_outputs(case))
    consumers = {}
    for f in case["funcs"]:
        if not f["params"]:
            cl.add("nullary")
        if len(f["outs"]) > 1:
            cl.add("tuple_out")
            if any(o in g["params"] for g in case["funcs"] for o in f["outs"]):
                cl.add("tuple_interior")
            else:
                cl.add("tuple_leaf")
        if f["bound"]:
            cl.add("bound")
            if any(p in outs for p in f["bound"]):
                cl.add("bound_over_output")
        if f["defaults"]:
            cl.add("defaults")
        if f["iparams"] != f["params"]:
            cl.add("renames")
        if f.get("ret"):
            cl.add("falsy_result")
            if sum(1 for g in case["funcs"] if any(o in g["params"] and o not in g["bound"] for o in f["outs"])) >= 2:
                cl.add("falsy_result_shared")
        if f["params"] and all(p in f["bound"] or p in case["defaults"] for p in f["params"]):
            cl.add("default_only_func")
        for p in set(f["params"]):
            if p in outs and p not in f["bound"]:
                consumers.setdefault(producer(case, p)["name"], set()).add(f["name"])
    if any(len(v) >= 2 for v in consumers.values()):
        cl.add("shared_node_fanout>=2")
    rc = {}
    for f in case["funcs"]:
        for p in f["params"]:
            if p in case["roots"]:
                rc[p] = rc.get(p, 0) + 1
    if any(v >= 2 for v in rc.values()):
        cl.add("shared_root")
    return sorted(cl)


def describe(case):
    return {"defaults": case["defaults"],
            "funcs": [f"{f['name']}({', '.join(f['params'])}) -> {', '.join(f['outs'])}"
                      + (f" bound={f['bound']}" if f["bound"] else "")
                      + (f" defaults={f['defaults']}" if f["defaults"] else "")
                      + (" renamed" if f["iparams"] != f["params"] else "")
                      + (f" returns-{f['ret']}" if f.get("ret") else "") for f in case["funcs"]]}
