"""Symbolic probes and the append-only call log (DESIGN 3.2).

A probe is the user function of every generated pipeline.  Called with keyword arguments it
appends records to a call log file opened O_APPEND (one os.write per record, atomic across
threads and processes) and returns a *term string* spelling out which function got which
(sliced) arguments.  Nothing here imports pipefunc.
"""
from __future__ import annotations

import dataclasses
import hashlib
import inspect
import json
import os
import threading
import time

import numpy as np

_FDS: dict = {}


def _fd(path):
    key = (os.getpid(), path)
    fd = _FDS.get(key)
    if fd is None:
        fd = os.open(path, os.O_WRONLY | os.O_APPEND | os.O_CREAT, 0o644)
        _FDS[key] = fd
    return fd


def log_write(path, rec):
    os.write(_fd(path), (json.dumps(rec) + "\n").encode())


def log_read(path):
    """Return list of call dicts {f,k,pid,tid,t0,t1,out} merged from S/E records, in start order."""
    calls = {}
    order = []
    if not os.path.exists(path):
        return []
    with open(path, "rb") as f:
        for line in f:
            try:
                r = json.loads(line)
            except ValueError:
                continue
            cid = r["c"]
            if r["e"] == "S":
                calls[cid] = {"f": r["f"], "k": r["k"], "pid": r["pid"], "tid": r["tid"], "t0": r["t"],
                              "t1": None, "out": None, "tag": r.get("tag")}
                order.append(cid)
            elif cid in calls:
                calls[cid]["t1"] = r["t"]
                calls[cid]["out"] = r["o"]
    return [calls[c] for c in order]


def log_clear(path):
    with open(path, "wb"):
        pass


def new_log(dirpath, name="calls"):
    p = os.path.join(dirpath, f"{name}-{os.getpid()}-{time.monotonic_ns()}.log")
    log_clear(p)
    return p


# ---------------------------------------------------------------- rendering
@dataclasses.dataclass(frozen=True)
class Tag:
    """An argument value that is an instance of a user dataclass (prints like the plain string it wraps)."""

    name: str

    def __str__(self):
        return self.name

    __repr__ = __str__


class PointNT(__import__("collections").namedtuple("PointNT", "a b")):
    """A namedtuple argument value (a tuple subclass whose constructor does not take one iterable); prints like probes.render
    prints any tuple."""

    __slots__ = ()

    def __str__(self):
        return "[" + ",".join(map(str, self)) + "]"

    __repr__ = __str__


class Ident:
    """A value with an identity: prints like the plain string it wraps; a copy.copy / copy.deepcopy of it is a DIFFERENT value
    (a sentinel compared with `is`, a deliberately shared registry); pickling keeps the name (another process cannot share
    the object anyway)."""

    def __init__(self, name):
        self.name = name

    def __str__(self):
        return self.name

    __repr__ = __str__

    def __eq__(self, other):
        return isinstance(other, Ident) and other.name == self.name

    def __hash__(self):
        return hash(("Ident", self.name))

    def __copy__(self):
        return Ident(self.name + "~copied")

    def __deepcopy__(self, memo):
        return Ident(self.name + "~deepcopied")

    def __reduce__(self):
        return (Ident, (self.name,))


def render(v):
    """Canonical rendering of a value: nested brackets for arrays / sequences, '<MASKED>' for
    masked elements, str() for leaves."""
    if isinstance(v, np.ma.MaskedArray):
        m = np.ma.getmaskarray(v)
        d = np.asarray(v.data, dtype=object) if v.dtype != object else v.data
        if d.ndim == 0:
            return "<MASKED>" if bool(m) else render(d.item())
        return "[" + ",".join(render(np.ma.MaskedArray(d[i], mask=m[i])) for i in range(d.shape[0])) + "]"
    if isinstance(v, np.ndarray):
        if v.ndim == 0:
            return render(v.item())
        return "[" + ",".join(render(v[i]) for i in range(v.shape[0])) + "]"
    if isinstance(v, (list, tuple)):
        return "[" + ",".join(render(x) for x in v) + "]"
    if v is np.ma.masked:
        return "<MASKED>"
    if isinstance(v, range):
        return render(list(v))
    return str(v)


def term(name, params, kw):
    return name + "(" + ";".join(f"{p}={render(kw[p])}" for p in params) + ")"


def short(s, n=16):
    return hashlib.sha1(s.encode()).hexdigest()[:n]


# ---------------------------------------------------------------- exceptions used by fault plans
class ProbeError(Exception):
    """Importable custom exception with two arguments."""

    def __init__(self, a, b):
        super().__init__(a, b)
        self.a, self.b = a, b

    def __reduce__(self):
        return (ProbeError, (self.a, self.b), dict(self.__dict__))


class BareError(Exception):
    pass


class CtorError(Exception):
    """A constructor signature that differs from `args` (cannot be rebuilt from args: no copy.copy, no plain pickling)."""

    def __init__(self, field, problem):
        super().__init__(f"{field}: {problem}")
        self.field, self.problem = field, problem


_SAME_INSTANCES = {}


def make_exc(spec):
    kind = spec[0]
    if kind == "Same":  # one exception INSTANCE per process and message, raised again and again (a stored / re-raised error)
        return _SAME_INSTANCES.setdefault(spec[1], RuntimeError(spec[1]))
    if kind == "ValueError":
        return ValueError(spec[1])
    if kind == "KeyError":
        return KeyError(spec[1])
    if kind == "Bare":
        return BareError()
    if kind == "ProbeError":
        return ProbeError(spec[1], spec[2])
    if kind == "RuntimeError":
        return RuntimeError(spec[1])
    if kind == "StopIteration":
        return StopIteration(spec[1])
    if kind == "Ctor":
        return CtorError(spec[1], spec[2])
    raise AssertionError(spec)


class Unpicklable(str):
    """A string value that cannot be pickled (stands for 'disk full' / unpicklable result while an element is stored)."""

    def __reduce_ex__(self, protocol):
        raise RuntimeError("injected: value cannot be pickled")


_COUNTER = [0]
_CLOCK = threading.Lock()


def _call_id():
    with _CLOCK:
        _COUNTER[0] += 1
        return f"{os.getpid()}.{_COUNTER[0]}"


def _delay(seed, t):
    h = int(hashlib.sha1(f"{seed}|{t}".encode()).hexdigest()[:8], 16)
    return (h % 1000) / 1000.0


FALSY = {"none": None, "zero": 0, "false": False, "emptystr": "", "emptylist": []}


def pick_member(out, name):
    """A custom output_picker: the function returns a dict keyed by its output names."""
    return out[name]


def make_probe(name, params, nout=1, log=None, internal_shape=None, ret_list=False, fault=None,
               defaults=None, tag=None, hook=None, ret=None, as_dict=None):
    """Build a probe.  fault = {"raise": {term: exc_spec}, "raise_nth": [n, exc_spec],
    "delay": [seed, max_ms], "kill": {term: exitcode}}.  The function accepts keyword (and
    positional) arguments named `params`; `defaults` become signature defaults."""
    internal_shape = tuple(internal_shape) if internal_shape else None
    defaults = dict(defaults or {})
    state = {"n": 0}
    sig_order = _order(params, defaults)

    def fn(*args, **kw):
        for p, a in zip(sig_order, args):
            kw[p] = a
        for p in params:
            if p not in kw and p in defaults:
                kw[p] = defaults[p]
        t = term(name, params, kw)
        cid = _call_id() if log else None
        if log:
            log_write(log, {"e": "S", "c": cid, "f": name, "k": t, "pid": os.getpid(),
                            "tid": threading.get_ident(), "t": time.monotonic_ns(), "tag": tag})
        try:
            state["n"] += 1
            if hook is not None:
                hook(name, t, kw)
            if fault:
                d = fault.get("delay")
                if d:
                    time.sleep(_delay(d[0], t) * d[1] / 1000.0)
                k = fault.get("kill")
                if k and t in k:
                    os._exit(k[t])
                r = fault.get("raise")
                if r and t in r:
                    raise make_exc(r[t])
                rn = fault.get("raise_nth")
                if rn and state["n"] == rn[0]:
                    raise make_exc(rn[1])
                ra = fault.get("raise_always")
                if ra:
                    raise make_exc(ra)

            def one(o):
                base = t if nout == 1 else f"{t}#{o}"
                if internal_shape:
                    arr = np.empty(internal_shape, dtype=object)
                    for idx in np.ndindex(*internal_shape):
                        arr[idx] = base + "@" + ",".join(map(str, idx))
                    return arr.tolist() if ret_list else arr
                return base

            out = one(0) if nout == 1 else tuple(one(o) for o in range(nout))
            if fault and fault.get("unpicklable") and t in fault["unpicklable"] and nout > 1 and not internal_shape:
                # the LAST output of this invocation cannot be stored: earlier outputs of the element get written, this one not
                out = (*out[:-1], Unpicklable(out[-1]))
            if fault and fault.get("none") and (fault["none"] == "*" or t in fault["none"]) and nout == 1 and not internal_shape:
                out = None  # this invocation legitimately returns None
            if ret is not None:  # a falsy / None-valued result (first output only for tuple outputs)
                fv = FALSY[ret]
                fv = list(fv) if isinstance(fv, list) else fv
                out = fv if nout == 1 else (fv, *out[1:])
            if as_dict and nout > 1:  # returned as {output name: value}; needs PipeFunc(output_picker=pick_member)
                out = dict(zip(as_dict, out))
        except BaseException:
            if log:
                log_write(log, {"e": "E", "c": cid, "t": time.monotonic_ns(), "o": "raise"})
            raise
        if log:
            log_write(log, {"e": "E", "c": cid, "t": time.monotonic_ns(), "o": "ok"})
        return out

    fn.__name__ = name
    fn.__qualname__ = name
    fn.__signature__ = inspect.Signature([
        inspect.Parameter(p, inspect.Parameter.POSITIONAL_OR_KEYWORD,
                          default=defaults.get(p, inspect.Parameter.empty)) for p in sig_order
    ])
    return fn


def _order(params, defaults):
    # parameters without default must precede those with default in a Signature
    return [p for p in params if p not in defaults] + [p for p in params if p in defaults]
