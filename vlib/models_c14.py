"""Naive executable models of the documented cache replacement policies (C14).

Never imports pipefunc.  Every model answers, for the harness:

  trigger(k)            predicate of a put: resident|fresh x full|notfull (used in signatures)
  expect_in(k)          True / False / None (None = either answer is legitimate, see DiskModel)
  needs_obs(k, dur)     True when the model cannot commit a put without seeing which keys survived
  check_put(k, v, dur, obs, info)  -> None | (symptom, message); commits the put into the model
  get(k)                -> ("val", v) | ("none",) | ("maybe", v);  refreshes recency / counts
  clear(), size(), state()

Where the documented policy leaves a choice the model accepts every choice and then adopts the one
the implementation was observed to take (ties of the hybrid score, ties of file ctimes).
"""
from __future__ import annotations

import itertools


def _classify(victims, outcomes, k, ghost, present_k):
    """Symptom class of an observed victim set that is not among the allowed outcomes."""
    if ghost:
        return "ghost-present"
    if not present_k:
        return "put-key-absent"
    need = min(len(o) for o in outcomes)
    most = max(len(o) for o in outcomes)
    if len(victims) < need:
        return "no-eviction"
    if len(victims) > most:
        return "extra-evicted"
    return "wrong-victim"


class _Base:
    max_size = None

    def trigger(self, k):
        res = "resident" if k in self.val else "fresh"
        full = "full" if (self.max_size is not None and len(self.val) >= self.max_size) else "notfull"
        return f"{res}-{full}"

    def expect_in(self, k):
        return k in self.val

    def size(self):
        return len(self.val)

    def needs_obs(self, k, dur=None):
        return len(self.put_outcomes(k, dur)) > 1

    def check_put(self, k, v, dur, obs, info=None):
        outcomes = self.put_outcomes(k, dur)
        if obs is None:
            victims = outcomes[0]
        else:
            before = set(self.val) | {k}
            present = {x for x, p in obs.items() if p}
            victims = frozenset(before - present)
            ghost = present - before
            if ghost or k not in present or victims not in outcomes:
                sym = _classify(victims, outcomes, k, ghost, k in present)
                return sym, (f"after put({k!r}) [{self.trigger(k)}] present={sorted(map(repr, present))}; model held "
                             f"{self.describe()} and allows victim sets {[sorted(map(repr, o)) for o in outcomes]}")
        self.commit_put(k, v, dur, victims)
        return None


class LRUModel(_Base):
    """Least recently used; get and put (also of a resident key) make the key most recent."""

    def __init__(self, max_size):
        self.max_size = max_size
        self.order = []  # least recent first
        self.val = {}

    def put_outcomes(self, k, dur=None):
        if k in self.val or len(self.val) < self.max_size:
            return [frozenset()]
        return [frozenset([self.order[0]])]

    def commit_put(self, k, v, dur, victims):
        for x in victims:
            self.order.remove(x)
            del self.val[x]
        if k in self.val:
            self.order.remove(k)
        self.order.append(k)
        self.val[k] = v

    def get(self, k):
        if k not in self.val:
            return ("none",)
        self.order.remove(k)
        self.order.append(k)
        return ("val", self.val[k])

    def clear(self):
        self.order = []
        self.val = {}

    def state(self):
        return "|".join(map(repr, self.order))

    def describe(self):
        return f"LRU order (oldest first) {self.order!r}"


class SimpleModel(_Base):
    """No eviction, no bound."""

    def __init__(self, max_size=None):
        self.val = {}

    def put_outcomes(self, k, dur=None):
        return [frozenset()]

    def commit_put(self, k, v, dur, victims):
        self.val[k] = v

    def get(self, k):
        return ("val", self.val[k]) if k in self.val else ("none",)

    def clear(self):
        self.val = {}

    def state(self):
        return "|".join(sorted(map(repr, self.val)))

    def describe(self):
        return f"keys {sorted(map(repr, self.val))}"


class HybridModel(_Base):
    """score(k) = access_weight * count(k)/sum(counts) + duration_weight * duration(k)/sum(durations);
    a put of a non-resident key into a full cache evicts one entry of minimal score (any on ties).

    Under-specified points are kept open: whether a fresh entry starts with count 0 or 1, whether
    a re-put resets / keeps / increments the count (set of candidate counts per key), and whether a
    re-put of a resident key into a full cache evicts (docstring read literally) or not."""

    TOL = 1e-9

    def __init__(self, max_size, aw, dw):
        self.max_size = max_size
        self.aw, self.dw = aw, dw
        self.val = {}
        self.counts = {}  # k -> frozenset of candidate access counts (first put counted as 1)
        self.dur = {}

    def _argmins(self):
        keys = list(self.val)
        out = set()
        tot_d = sum(self.dur[k] for k in keys)
        for base in (1, 0):
            for combo in itertools.product(*[sorted(self.counts[k]) for k in keys]):
                acc = [c - (1 - base) for c in combo]
                tot_a = sum(acc)
                scores = []
                for k, a in zip(keys, acc):
                    s = (self.aw * a / tot_a if tot_a else 0.0) + (self.dw * self.dur[k] / tot_d if tot_d else 0.0)
                    scores.append(s)
                lo = min(scores)
                out.update(k for k, s in zip(keys, scores) if s <= lo + self.TOL)
        return out

    def put_outcomes(self, k, dur=None):
        if len(self.val) < self.max_size:
            return [frozenset()]
        mins = self._argmins()
        if k in self.val:
            return [frozenset()] + [frozenset([x]) for x in sorted(mins, key=repr) if x != k]
        return [frozenset([x]) for x in sorted(mins, key=repr)]

    def commit_put(self, k, v, dur, victims):
        for x in victims:
            del self.val[x], self.counts[x], self.dur[x]
        if k in self.val:
            old = self.counts[k]
            self.counts[k] = frozenset({1} | set(old) | {c + 1 for c in old})
        else:
            self.counts[k] = frozenset({1})
        self.val[k] = v
        self.dur[k] = dur

    def get(self, k):
        if k not in self.val:
            return ("none",)
        self.counts[k] = frozenset(c + 1 for c in self.counts[k])
        return ("val", self.val[k])

    def clear(self):
        self.val, self.counts, self.dur = {}, {}, {}

    def state(self):
        return "|".join(f"{k!r}:{min(self.counts[k])}-{max(self.counts[k])}:{self.dur[k]}"
                        for k in sorted(self.val, key=repr))

    def describe(self):
        return ("{" + ", ".join(f"{k!r}: counts {sorted(self.counts[k])} duration {self.dur[k]}" for k in self.val)
                + f"}} weights ({self.aw}, {self.dw})")


class DiskModel(_Base):
    """Directory of files; a put writes the key's file and then evicts oldest files (by the
    ctime the harness observed with os.stat) until at most max_size remain; len counts files.

    With the in-memory layer enabled a key whose *file* was evicted may legitimately still be
    served from memory: such keys are `maybe` (present or absent, but `in` and `get` must agree
    and a hit must be the latest value) until they are observed absent or the cache is reopened."""

    def __init__(self, max_size, mem_layer):
        self.max_size = max_size
        self.mem_layer = mem_layer
        self.val = {}     # keys that own a file
        self.order = []   # file age order, oldest first (model view; the verdict uses observed ctimes)
        self.maybe = {}   # file evicted, value possibly still in the memory layer
        self.fname = {}   # key -> file name, learned by observation

    def expect_in(self, k):
        if k in self.val:
            return True
        return None if k in self.maybe else False

    def needs_obs(self, k, dur=None):
        return False

    def note_absent(self, k):
        self.maybe.pop(k, None)

    def reopen(self, max_size):
        self.max_size = max_size
        self.maybe = {}

    def check_put(self, k, v, dur, obs, info=None):
        before, after = info["before"], info["after"]
        trig = self.trigger(k)
        known = set(self.fname.values())
        stray = set(before) - known
        if stray:
            return "stray-file", f"files {sorted(stray)} in the directory belong to no key the model knows"
        new = set(after) - set(before)
        kf = self.fname.get(k)
        if kf is None and len(new) == 1:
            kf = self.fname[k] = next(iter(new))
            new = set()
        if new - {kf}:
            return "unexpected-new-file", f"put({k!r}) created {sorted(new)}"
        cand = set(before) | ({kf} if kf else {"<new file never seen>"})
        gone = cand - set(after)
        need = 0 if self.max_size is None else max(0, len(cand) - self.max_size)
        by_name = {f: x for x, f in self.fname.items()}
        desc = (f"put({k!r}) [{trig}] max_size={self.max_size}: files before={_fmt(before, by_name)} "
                f"after={_fmt(after, by_name)}")
        if len(gone) < need:
            return "no-eviction", f"{len(after)} files remain (> max_size); {desc}"
        if len(gone) > need:
            return "extra-evicted", f"{len(gone)} files removed, {need} needed; {desc}"
        if gone:
            floor = max(before.values()) if before else 0

            def vict_ctime(f):  # lower bound of the ctime the file had when it was evicted
                return floor if (f == kf or f not in before) else before[f]

            worst = max(vict_ctime(f) for f in gone)
            surv = [after[f] for f in after]
            if surv and worst > min(surv):
                return "wrong-victim", f"an evicted file was newer than a surviving one; {desc}"
        # commit
        victims = {by_name.get(f, k) for f in gone}
        if k in self.val:
            self.order.remove(k)
        self.val[k] = v
        self.order.append(k)
        self.maybe.pop(k, None)
        for x in victims:
            val = self.val.pop(x)
            self.order.remove(x)
            if self.mem_layer:
                self.maybe[x] = val
        if obs is not None:
            for x, p in obs.items():
                e = self.expect_in(x)
                if e is None:
                    if not p:
                        self.note_absent(x)
                elif e != p:
                    sym = "put-key-absent" if x == k else ("ghost-present" if p else "file-owner-absent")
                    return sym, f"{x!r} in cache == {p} but model expects {e}; {desc}"
        return None

    def get(self, k):
        if k in self.val:
            return ("val", self.val[k])
        if k in self.maybe:
            return ("maybe", self.maybe[k])
        return ("none",)

    def clear(self):
        self.val, self.order, self.maybe = {}, [], {}

    def state(self):
        return "|".join(map(repr, self.order)) + "~" + "|".join(sorted(map(repr, self.maybe)))

    def describe(self):
        return f"files (oldest first) {self.order!r} maybe-in-memory {sorted(map(repr, self.maybe))}"


def _fmt(files, by_name):
    lo = min(files.values()) if files else 0
    return {repr(by_name.get(f, f[:6])): c - lo for f, c in sorted(files.items(), key=lambda t: t[1])}


# ---------------------------------------------------------------- canonical op enumeration

def ops_at(cls, used, nkeys, durs=(None,), reopen=()):
    """Operations explored at a node where `used` key indices occurred so far.  Keys are
    interchangeable up to renaming, so a not-yet-used key is always the next index (the actual
    key objects behind the indices are permuted per descriptor)."""
    avail = range(min(used + 1, nkeys))
    ops = []
    for i in avail:
        for d in durs:
            ops.append(("put", i, d))
    for i in avail:
        ops.append(("get", i))
    ops.append(("clear",))
    for r in reopen:
        ops.append(("reopen", r))
    return ops


def used_after(used, op):
    if op[0] in ("put", "get"):
        return max(used, op[1] + 1)
    return used


def prefixes(cls, nkeys, durs, reopen, plen):
    out = []

    def rec(path, used):
        if len(path) == plen:
            out.append(list(path))
            return
        for op in ops_at(cls, used, nkeys, durs, reopen):
            path.append(op)
            rec(path, used_after(used, op))
            path.pop()

    rec([], 0)
    return out
