"""Value model for C15 (cache keys identify argument values).

Everything here is independent of pipefunc: a spec generator (recursive, depth <= 3) over the supported
types, a builder (spec -> value, in several *representation* modes that must not change the value), spec-level
look-alike mutations, the structural-equality oracle ``veq`` (three-valued: EQ / NE / FREE), an independently
written canonical form ``canon`` (FREE-insensitive; used by the memoize probe and as a cross-check of veq),
and ``pyrepr`` (copy-pastable rendering of a value for witnesses).

Decisions taken from the property statement ("equal values OF THE SAME TYPE give equal keys; values that differ
in container type, structure, significant order or content give unequal keys"):
  * numbers that compare equal but have different scalar types (1 / True / 1.0 / (1+0j)) : FREE (no demand);
    the same holds for pandas dtypes and for a defaultdict's default_factory (not content).
  * dict / OrderedDict / defaultdict / Counter, set / frozenset, list / tuple / deque, bytes / bytearray are
    different container types (NE) although Python's == may call them equal.
  * ndarray dtype and shape, array.array typecode, deque maxlen are part of the value (NE when they differ).
  * row order and index labels of a Series / DataFrame, column order of a DataFrame are significant (what
    ``.equals`` says).
"""
from __future__ import annotations

import dataclasses
import array
import collections
import copy
import random

import numpy as np
import pandas as pd

EQ, NE, FREE = "EQ", "NE", "FREE"


class SpecInvalid(Exception):
    """The spec does not denote a value (duplicate keys after a mutation, unhashable set element...)."""


class HarnessBug(Exception):
    pass


class Obj:
    """Picklable harness class without __hash__ (goes through the pickle fallback)."""

    __hash__ = None  # type: ignore[assignment]

    def __init__(self, payload):
        self.payload = payload

    def __eq__(self, other):
        return type(other) is Obj and veq(self.payload, other.payload) == EQ

    def __repr__(self):
        return f"Obj({pyrepr(self.payload)})"


@dataclasses.dataclass
class DCa:
    """Two ordinary (non-frozen, hence unhashable) dataclasses with the SAME field names ..."""

    value: object


@dataclasses.dataclass
class DCb:
    value: object


@dataclasses.dataclass
class DOuter:
    """... and one that holds instances of them (directly or inside containers)."""

    name: str
    inner: object


# ----------------------------------------------------------------------------------------------- pools
POOL = {
    # incl. neighbours that coincide after float(): an order key computed through float() cannot tell them apart
    "int": [0, 1, 2, 3, -1, 5, 7, 255, 256, 2 ** 40, 2 ** 70, 2 ** 53, 2 ** 53 + 1, 2 ** 63 - 1, 2 ** 63, 2 ** 53, 2 ** 53 + 1],
    "bool": [True, False],
    "float": [0.0, 1.0, 2.0, 0.5, -1.5, 3.25, 1e10, -0.0],
    "complex": [1j, 1 + 2j, complex(1, 0), -1 + 0.5j, 2j],
    "str": ["", "a", "b", "ab", "ba", "x y", "é", "1", "None", "k1", "k2", "k3"],
    "bytes": [b"", b"a", b"b", b"ab", b"\x00\xff", b"1"],
    "none": [None],
}
LEAF_FAMS = [("int", 30), ("bool", 8), ("float", 14), ("complex", 6), ("str", 24), ("bytes", 10), ("none", 8)]
KINDS = [("tuple", 10), ("list", 12), ("set", 8), ("frozenset", 6), ("dict", 12), ("odict", 6), ("ddict", 6),
         ("counter", 6), ("deque", 6), ("bytearray", 4), ("array", 5), ("nd", 10), ("series", 6), ("frame", 6),
         ("obj", 6), ("objarr", 2)]
KEYFAMS = [("int", 22), ("str", 22), ("num", 8), ("float", 5), ("bytes", 6), ("tupint", 8), ("mixed", 12),
           ("frozenset", 9), ("complex", 3), ("tupmixed", 5)]
SIZES = [0, 1, 2, 2, 3, 3, 4]
LEAF_TYPES = (int, bool, float, complex, str, bytes, type(None))
NUM = (int, bool, float, complex)
MAPPING_KINDS = ("dict", "odict", "ddict", "counter")
FACTORIES = {"int": int, "list": list, "none": None}


def wchoice(rng, table):
    tot = sum(w for _, w in table)
    x = rng.random() * tot
    for k, w in table:
        x -= w
        if x < 0:
            return k
    return table[-1][0]


# ----------------------------------------------------------------------------------------------- generator
def gen_leaf(rng, fam=None):
    fam = fam or wchoice(rng, LEAF_FAMS)
    return ["leaf", rng.choice(POOL[fam])]


def gen_key(rng, fam, depth):
    """A hashable spec of the given key family (depth = nesting budget for the key itself)."""
    if depth <= 0 and fam in ("tupint", "frozenset", "tupmixed"):
        fam = "int" if fam == "tupint" else "mixed"
    if fam in ("int", "str", "float", "bytes", "complex"):
        return gen_leaf(rng, fam)
    if fam == "num":
        return gen_leaf(rng, rng.choice(["int", "float", "bool", "int"]))
    if fam == "tupint":
        return ["tuple", [gen_leaf(rng, "int") for _ in range(rng.choice([1, 2, 2, 3]))]]
    if fam == "frozenset":
        sub = rng.choice(["int", "int", "str"])
        return ["frozenset", distinct_keys(rng, sub, rng.choice([0, 1, 1, 2, 2, 3]), 0)]
    if fam == "tupmixed":
        return ["tuple", [gen_leaf(rng) for _ in range(rng.choice([1, 2]))]]
    # mixed
    if depth >= 1 and rng.random() < 0.3:
        return gen_key(rng, rng.choice(["tupint", "frozenset", "tupmixed"]), depth)
    return gen_leaf(rng)


def distinct_keys(rng, fam, n, depth):
    out, seen = [], []
    for _ in range(n * 4):
        if len(out) >= n:
            break
        k = gen_key(rng, fam, depth)
        val = build(k)
        if any(val == s for s in seen):
            continue
        seen.append(val)
        out.append(k)
    return out


ND_DTYPES = ["bool", "int32", "int64", "float64", "str"]
ND_POOL = {"bool": [True, False], "int32": [0, 1, 2, 3, -1, 7, 100], "int64": [0, 1, 2, 3, -1, 7, 2 ** 40],
           "float64": [0.0, 1.0, 2.0, 0.5, -1.5, 1e10], "str": ["a", "b", "ab", "xyz", ""]}
ARR_CODES = ["b", "i", "l", "q", "d", "f"]


def _nd_dtype_str(dt, flat):
    if dt == "str":
        return "<U%d" % max([1] + [len(s) for s in flat])
    return np.dtype(dt).str


def gen_nd(rng):
    dt = rng.choice(ND_DTYPES)
    rank = rng.choice([0, 1, 1, 2, 2])
    shape = [rng.choice([0, 1, 2, 2, 3, 3]) for _ in range(rank)]
    n = 1
    for s in shape:
        n *= s
    flat = [rng.choice(ND_POOL[dt]) for _ in range(n)]
    return ["nd", _nd_dtype_str(dt, flat), shape, flat]


PD_VALS = {"int64": [0, 1, 2, 3, -1, 7], "float64": [0.0, 1.0, 0.5, -1.5, 2.0], "bool": [True, False],
           "strs": ["a", "b", "ab", ""]}
PD_LABELS = {"int": [0, 1, 2, 3, 5, 10], "str": ["r0", "r1", "r2", "a", "b"]}
PD_NAMES = [None, "s", "a", 0]
PD_COLS = ["a", "b", "c", "x"]


def gen_index(rng, n):
    r = rng.random()
    if r < 0.45:
        return None
    fam = rng.choice(["int", "str"])
    if r < 0.85 and n <= len(PD_LABELS[fam]):
        return rng.sample(PD_LABELS[fam], n)
    return [rng.choice(PD_LABELS[fam][:3]) for _ in range(n)]  # duplicates likely


def gen_series(rng):
    dt = rng.choice(list(PD_VALS))
    n = rng.choice([0, 1, 2, 2, 3, 3, 4])
    index = gen_index(rng, n)
    if n and rng.random() < 0.1:  # RangeIndex forms other than the default one
        index = rng.choice([["range", n - 1, -1, -1], ["range", 0, 2 * n, 2], ["range", 5, 5 + n, 1]])
    return ["series", rng.choice(PD_NAMES), index, [rng.choice(PD_VALS[dt]) for _ in range(n)], dt]


def gen_frame(rng):
    ncol = rng.choice([1, 2, 2, 3])
    cols = rng.sample(PD_COLS, ncol)
    n = rng.choice([0, 1, 2, 2, 3])
    dts = [rng.choice(list(PD_VALS)) for _ in cols]
    data = [[rng.choice(PD_VALS[dt]) for _ in range(n)] for dt in dts]
    return ["frame", cols, gen_index(rng, n), data, dts]


def gen(rng, depth, top=False):
    if depth <= 0 or (not top and rng.random() < 0.3):
        return gen_leaf(rng)
    kind = wchoice(rng, KINDS)
    n = rng.choice(SIZES)
    d = depth - 1
    if kind in ("tuple", "list"):
        return [kind, [gen(rng, d) for _ in range(n)]]
    if kind in ("set", "frozenset"):
        return [kind, distinct_keys(rng, wchoice(rng, KEYFAMS), n, min(d, 1))]
    if kind in ("dict", "odict", "ddict"):
        keys = distinct_keys(rng, wchoice(rng, KEYFAMS), n, min(d, 1))
        if rng.random() < 0.35:
            vals = [gen_leaf(rng, "int") for _ in keys]
        else:
            vals = [gen(rng, d) for _ in keys]
        pairs = [[k, x] for k, x in zip(keys, vals)]
        if kind == "ddict":
            return ["ddict", rng.choice(list(FACTORIES)), pairs]
        return [kind, pairs]
    if kind == "counter":
        keys = distinct_keys(rng, wchoice(rng, KEYFAMS), n, min(d, 1))
        return ["counter", [[k, ["leaf", rng.choice([1, 2, 3, 5, -1])]] for k in keys]]
    if kind == "deque":
        ml = rng.choice([None, None, n, n + 2])
        return ["deque", ml, [gen(rng, d) for _ in range(n)]]
    if kind == "bytearray":
        return ["bytearray", bytes(rng.choice([0, 1, 97, 98, 255]) for _ in range(n))]
    if kind == "array":
        tc = rng.choice(ARR_CODES)
        pool = [0.0, 0.5, 1.0, -1.5, 2.0] if tc in "df" else [0, 1, 2, 3, -1, 100]
        return ["array", tc, [rng.choice(pool) for _ in range(n)]]
    if kind == "nd":
        return gen_nd(rng)
    if kind == "series":
        return gen_series(rng)
    if kind == "frame":
        return gen_frame(rng)
    if kind == "obj":
        return ["obj", gen(rng, d)]
    if kind == "objarr":
        ch = []
        for _ in range(max(1, n)):
            c = gen(rng, d)
            if c[0] not in ("leaf", "list", "tuple", "dict"):
                c = gen_leaf(rng)
            ch.append(c)
        shape = [len(ch)] if len(ch) % 2 or rng.random() < 0.5 else [2, len(ch) // 2]
        return ["objarr", shape, ch]
    raise HarnessBug(kind)


def gen_top(rng):
    return gen(rng, rng.choice([1, 2, 2, 2, 3, 3, 3]), top=True)


# ----------------------------------------------------------------------------------------------- builder
def _fresh(x):
    if type(x) is str and len(x) > 1:
        return "".join(list(x))
    if type(x) is int and (x > 256 or x < -5):
        return int(str(x))
    if type(x) is bytes and len(x) > 1:
        return bytes(bytearray(x))
    if type(x) is float:
        return float(repr(x))
    if type(x) is complex:
        return complex(x.real, x.imag)
    return x


def _ordered(items, mode):
    return list(reversed(items)) if mode == "perm" else list(items)


def _mk_set(children, mode, frozen):
    vals = [build(c, mode) for c in _ordered(children, mode)]
    try:
        s = set()
        for x in vals:
            s.add(x)
    except TypeError as e:
        raise SpecInvalid(str(e)) from None
    if len(s) != len(vals):
        raise SpecInvalid("duplicate set elements")
    return frozenset(s) if frozen else s


def _fill_mapping(m, pairs, mode, ordered=False):
    items = pairs if ordered else _ordered(pairs, mode)
    try:
        for k, x in items:
            kk = build(k, mode)
            if kk in m:
                raise SpecInvalid("duplicate mapping keys")
            m[kk] = build(x, mode)
    except TypeError as e:
        raise SpecInvalid(str(e)) from None
    return m


def build(spec, mode="plain"):
    """spec -> value.  mode 'plain': spec order, pooled constants; 'fresh': spec order, every str/int/bytes
    leaf a new object (no identity sharing); 'perm': unordered containers filled in reverse order, arrays in
    Fortran layout / strided views.  All modes denote the same value."""
    k = spec[0]
    if k == "leaf":
        return _fresh(spec[1]) if mode == "fresh" else spec[1]
    if k == "tuple":
        return tuple(build(c, mode) for c in spec[1])
    if k == "list":
        return [build(c, mode) for c in spec[1]]
    if k == "set":
        return _mk_set(spec[1], mode, False)
    if k == "frozenset":
        return _mk_set(spec[1], mode, True)
    if k == "dict":
        return _fill_mapping({}, spec[1], mode)
    if k == "odict":
        return _fill_mapping(collections.OrderedDict(), spec[1], mode, ordered=True)
    if k == "ddict":
        return _fill_mapping(collections.defaultdict(FACTORIES[spec[1]]), spec[2], mode)
    if k == "counter":
        return _fill_mapping(collections.Counter(), spec[1], mode)
    if k == "deque":
        return collections.deque([build(c, mode) for c in spec[2]], maxlen=spec[1])
    if k == "bytearray":
        return bytearray(spec[1])
    if k == "array":
        return array.array(spec[1], spec[2])
    if k == "nd":
        a = np.array(spec[3], dtype=np.dtype(spec[1])).reshape(tuple(spec[2]))
        if mode == "perm":
            if a.ndim == 2:
                a = np.asfortranarray(a)
            elif a.ndim == 1 and a.size:
                big = np.zeros(a.size * 2, dtype=a.dtype)
                big[::2] = a
                a = big[::2]
        return a
    if k == "series":
        _, name, index, vals, dt = spec
        if index is not None and len(index) == 4 and index[0] == "range":
            ix = pd.RangeIndex(index[1], index[2], index[3])   # e.g. what s[::-1] of a default-indexed Series carries
        else:
            ix = None if index is None else list(index)
        return pd.Series(list(vals), index=ix, name=name, dtype=None if dt == "strs" else dt)
    if k == "frame":
        _, cols, index, data, dts = spec
        order = _ordered(list(range(len(cols))), mode)
        d = {cols[i]: pd.Series(list(data[i]), dtype=None if dts[i] == "strs" else dts[i]) for i in order}
        df = pd.DataFrame(d, columns=list(cols))
        if index is not None:
            df.index = list(index)
        return df
    if k == "obj":
        return Obj(build(spec[1], mode))
    if k == "objarr":
        a = np.empty(len(spec[2]), dtype=object)
        for i, c in enumerate(spec[2]):
            a[i] = build(c, mode)
        return a.reshape(tuple(spec[1]))
    raise HarnessBug(f"unknown spec kind {k}")


# ----------------------------------------------------------------------------------------------- oracle
def _comb(vs):
    r = EQ
    for x in vs:
        if x == NE:
            return NE
        if x == FREE:
            r = FREE
    return r


def _seq(a, b):
    if len(a) != len(b):
        return NE
    return _comb(veq(x, y) for x, y in zip(a, b))


def _match_unordered(a_items, b_items, pair=False):
    """a_items / b_items: lists of elements (pair=False) or of (key, value) (pair=True)."""
    if len(a_items) != len(b_items):
        return NE
    rest = list(b_items)
    out = []
    for x in a_items:
        hit = None
        for j, y in enumerate(rest):
            r = veq(x[0], y[0]) if pair else veq(x, y)
            if r != NE:
                hit = (j, r)
                break
        if hit is None:
            return NE
        j, r = hit
        y = rest.pop(j)
        out.append(r)
        if pair:
            out.append(veq(x[1], y[1]))
    return _comb(out)


def _pylist(x):
    return x.tolist()


def veq(a, b):
    ta, tb = type(a), type(b)
    if ta in NUM and tb in NUM:
        if a == b:
            return EQ if ta is tb else FREE
        return NE
    if ta is not tb:
        return NE
    if ta in (str, bytes, bytearray):
        return EQ if a == b else NE
    if a is None:
        return EQ
    if ta in (tuple, list):
        return _seq(a, b)
    if ta is collections.deque:
        if a.maxlen != b.maxlen:
            return NE
        return _seq(list(a), list(b))
    if ta in (set, frozenset):
        return _match_unordered(list(a), list(b))
    if ta is collections.OrderedDict:
        return _seq([x for kv in a.items() for x in kv], [x for kv in b.items() for x in kv]) \
            if len(a) == len(b) else NE
    if ta in (dict, collections.Counter):
        return _match_unordered(list(a.items()), list(b.items()), pair=True)
    if ta is collections.defaultdict:
        r = _match_unordered(list(a.items()), list(b.items()), pair=True)
        if r == EQ and a.default_factory is not b.default_factory:
            return FREE
        return r
    if ta is array.array:
        if a.typecode != b.typecode:
            return NE
        return _seq(list(a), list(b))
    if ta is np.ndarray:
        if a.dtype != b.dtype or a.shape != b.shape:
            return NE
        if a.dtype == object:
            return _seq(list(a.ravel()), list(b.ravel()))
        return _seq(a.ravel().tolist(), b.ravel().tolist())
    if ta is pd.Series:
        r = _comb([veq(a.name, b.name), _seq(_pylist(a.index), _pylist(b.index)), _seq(_pylist(a), _pylist(b))])
        if r == EQ and a.dtype != b.dtype:
            return FREE
        return r
    if ta is pd.DataFrame:
        if a.shape != b.shape:
            return NE
        rs = [_seq(_pylist(a.columns), _pylist(b.columns)), _seq(_pylist(a.index), _pylist(b.index))]
        for i in range(a.shape[1]):
            rs.append(_seq(_pylist(a.iloc[:, i]), _pylist(b.iloc[:, i])))
        r = _comb(rs)
        if r == EQ and list(a.dtypes) != list(b.dtypes):
            return FREE
        return r
    if ta is Obj:
        return veq(a.payload, b.payload)
    raise HarnessBug(f"veq: unsupported type {ta}")



# ----------------------------------------------------------------------------------------------- canon
def _cnum(x):
    if isinstance(x, complex):
        if x.imag == 0:
            return _cnum(x.real)
        return f"c({_cnum(x.real)},{_cnum(x.imag)})"
    if isinstance(x, bool):
        return str(int(x))
    if isinstance(x, float):
        return str(int(x)) if x.is_integer() else repr(x)
    return str(int(x))


def canon(v):
    """Canonical string: canon(a) == canon(b)  <=>  veq(a, b) != NE  (written independently of veq)."""
    t = type(v)
    if t in NUM:
        return "n" + _cnum(v)
    if t is str:
        return "s" + repr(v)
    if t is bytes:
        return "b" + v.hex()
    if v is None:
        return "None"
    if t is tuple:
        return "T(" + ",".join(canon(x) for x in v) + ")"
    if t is list:
        return "L(" + ",".join(canon(x) for x in v) + ")"
    if t is set:
        return "S{" + ",".join(sorted(canon(x) for x in v)) + "}"
    if t is frozenset:
        return "F{" + ",".join(sorted(canon(x) for x in v)) + "}"
    if t is collections.OrderedDict:
        return "OD(" + ",".join(canon(k) + ":" + canon(x) for k, x in v.items()) + ")"
    if t is collections.defaultdict:
        return "DD{" + ",".join(sorted(canon(k) + ":" + canon(x) for k, x in v.items())) + "}"
    if t is collections.Counter:
        return "C{" + ",".join(sorted(canon(k) + ":" + canon(x) for k, x in v.items())) + "}"
    if t is dict:
        return "D{" + ",".join(sorted(canon(k) + ":" + canon(x) for k, x in v.items())) + "}"
    if t is collections.deque:
        return f"Q<{v.maxlen}>(" + ",".join(canon(x) for x in v) + ")"
    if t is bytearray:
        return "BA" + bytes(v).hex()
    if t is array.array:
        return f"A<{v.typecode}>(" + ",".join(canon(x) for x in v) + ")"
    if t is np.ndarray:
        els = list(v.ravel()) if v.dtype == object else v.ravel().tolist()
        return f"N<{v.dtype.str}{list(v.shape)}>(" + ",".join(canon(x) for x in els) + ")"
    if t is pd.Series:
        return ("PS<" + canon(v.name) + ">[" + ",".join(canon(x) for x in v.index.tolist()) + "]("
                + ",".join(canon(x) for x in v.tolist()) + ")")
    if t is pd.DataFrame:
        cols = ["(" + ",".join(canon(x) for x in v.iloc[:, i].tolist()) + ")" for i in range(v.shape[1])]
        return ("PF[" + ",".join(canon(x) for x in v.columns.tolist()) + "][" +
                ",".join(canon(x) for x in v.index.tolist()) + "]" + "".join(cols))
    if t is Obj:
        return "O(" + canon(v.payload) + ")"
    raise HarnessBug(f"canon: unsupported type {t}")


# ----------------------------------------------------------------------------------------------- rendering
def pyrepr(v):
    t = type(v)
    if t in LEAF_TYPES:
        return repr(v)
    if t is tuple:
        return "(" + ", ".join(pyrepr(x) for x in v) + ("," if len(v) == 1 else "") + ")"
    if t is list:
        return "[" + ", ".join(pyrepr(x) for x in v) + "]"
    if t is set:
        return "{" + ", ".join(pyrepr(x) for x in v) + "}" if v else "set()"
    if t is frozenset:
        return "frozenset([" + ", ".join(pyrepr(x) for x in v) + "])"
    if t is dict:
        return "{" + ", ".join(pyrepr(k) + ": " + pyrepr(x) for k, x in v.items()) + "}"
    if t is collections.OrderedDict:
        return "OrderedDict([" + ", ".join(f"({pyrepr(k)}, {pyrepr(x)})" for k, x in v.items()) + "])"
    if t is collections.defaultdict:
        f = v.default_factory
        return f"defaultdict({f.__name__ if f else None}, {pyrepr(dict(v))})"
    if t is collections.Counter:
        return f"Counter({pyrepr(dict(v))})"
    if t is collections.deque:
        return f"deque({pyrepr(list(v))}, maxlen={v.maxlen})"
    if t is bytearray:
        return f"bytearray({bytes(v)!r})"
    if t is array.array:
        return f"array({v.typecode!r}, {list(v)!r})"
    if t is np.ndarray:
        if v.dtype == object:
            return (f"objarr([{', '.join(pyrepr(x) for x in v.ravel())}], shape={v.shape})"
                    "  # a=np.empty(n,dtype=object); a[i]=...; a.reshape(shape)")
        return f"np.array({v.ravel().tolist()!r}, dtype={v.dtype.str!r}).reshape({v.shape})"
    if t is pd.Series:
        return (f"pd.Series({v.tolist()!r}, index={v.index.tolist()!r}, name={v.name!r}, "
                f"dtype={str(v.dtype)!r})")
    if t is pd.DataFrame:
        return (f"pd.DataFrame({ {c: v.iloc[:, i].tolist() for i, c in enumerate(v.columns)}!r}, "
                f"index={v.index.tolist()!r})")
    if t is Obj:
        return f"Obj({pyrepr(v.payload)})"
    return repr(v)


# ----------------------------------------------------------------------------------------------- structure helpers
def children(spec):
    """[(path, child_spec, hashable_required, role)] of the direct children of a spec node."""
    k = spec[0]
    out = []
    if k in ("tuple", "list"):
        out = [((1, i), c, False, "elem") for i, c in enumerate(spec[1])]
    elif k in ("set", "frozenset"):
        out = [((1, i), c, True, "elem") for i, c in enumerate(spec[1])]
    elif k == "deque":
        out = [((2, i), c, False, "elem") for i, c in enumerate(spec[2])]
    elif k in ("dict", "odict", "counter", "ddict"):
        base = 2 if k == "ddict" else 1
        for i, (kk, vv) in enumerate(spec[base]):
            out.append(((base, i, 0), kk, True, "key"))
            out.append(((base, i, 1), vv, False, "count" if k == "counter" else "value"))
    elif k == "obj":
        out = [((1,), spec[1], False, "payload")]
    elif k == "objarr":
        out = [((2, i), c, False, "elem") for i, c in enumerate(spec[2])]
    return out


def nodes(spec, path=(), parent=None, hreq=False, role="root"):
    yield path, spec, parent, hreq, role
    for p, c, h, r in children(spec):
        yield from nodes(c, path + p, spec[0], hreq or h, r)


def get_at(spec, path):
    for p in path:
        spec = spec[p]
    return spec


def set_at(spec, path, new):
    if not path:
        return new
    cur = spec
    for p in path[:-1]:
        cur = cur[p]
    cur[path[-1]] = new
    return spec


def contains_kind(spec, kinds):
    return any(n[1][0] in kinds for n in nodes(spec))


def order_class(keys):
    """How a collection of hashable keys can be ordered with '<': total / partial-order / unorderable."""
    def has_fs(x):
        return isinstance(x, frozenset) or (isinstance(x, tuple) and any(has_fs(y) for y in x))
    keys = list(keys)
    try:
        sorted(keys)
        for x in keys:
            for y in keys:
                x < y  # noqa: B015
    except TypeError:
        return "unorderable"
    if any(has_fs(x) for x in keys) and len(keys) > 1:
        return "partial-order"
    return "total"


def node_tag(spec, value=None):
    """Mechanism tag of a node: type + (for sets/mappings/pandas) the order class of its keys."""
    k = spec[0]
    try:
        val = build(spec) if value is None else value
    except Exception:  # noqa: BLE001
        return k
    if k == "leaf":
        return type(spec[1]).__name__
    if k in ("set", "frozenset"):
        return f"{k}[elems:{order_class(val)}]"
    if k in MAPPING_KINDS:
        return f"{type(val).__name__}[keys:{order_class(val.keys())}]"
    if k == "series":
        idx = val.index.tolist()
        return f"Series[index:{order_class(idx)}{',dup' if len(set(map(repr, idx))) < len(idx) else ''}]"
    if k == "frame":
        return f"DataFrame[columns:{order_class(val.columns.tolist())}]"
    if k == "nd":
        return f"ndarray[{np.dtype(spec[1]).kind}]"
    if k == "objarr":
        return "ndarray[object]"
    if k == "obj":
        return "Obj"
    return k


def worst_order_class(spec):
    rank = {"total": 0, "partial-order": 1, "unorderable": 2}
    worst = "total"
    for _, n, _, _, _ in nodes(spec):
        t = node_tag(n)
        for c in rank:
            if f":{c}" in t and rank[c] > rank[worst]:
                worst = c
    return worst


def py_to_spec(x):
    if isinstance(x, list):
        return ["list", [py_to_spec(y) for y in x]]
    if isinstance(x, tuple):
        return ["tuple", [py_to_spec(y) for y in x]]
    return ["leaf", x]


# ----------------------------------------------------------------------------------------------- mutations
def _other(rng, pool, cur):
    c = [x for x in pool if not (x == cur and type(x) is type(cur))]
    return rng.choice(c) if c else None


def _mut_leaf(rng, node, hreq, role):
    x = node[1]
    t = type(x)
    opts = []
    if role == "count":
        return [("leaf:count", ["leaf", _other(rng, [1, 2, 3, 5, -1, 4], x)])]
    fam = {int: "int", bool: "bool", float: "float", complex: "complex", str: "str", bytes: "bytes"}.get(t)
    if fam:
        opts.append((f"leaf:{fam}", ["leaf", _other(rng, POOL[fam], x)]))
    if t in (int, bool, float) and role != "count":
        alts = [c(x) for c in (int, bool, float) if c is not t and c(x) == x]
        if alts:
            opts.append(("numtype", ["leaf", rng.choice(alts)]))  # FREE pair: equal number, other scalar type
    if t is str and x.isascii():
        opts.append(("str->bytes", ["leaf", x.encode()]))
    if t is bytes:
        try:
            opts.append(("bytes->str", ["leaf", x.decode("ascii")]))
        except UnicodeDecodeError:
            pass
        if not hreq:
            opts.append(("bytes->bytearray", ["bytearray", x]))
    if x is None:
        opts.append(("none->str", ["leaf", "None"]))
    if not hreq:
        opts.append(("wrap:list", ["list", [node]]))
    opts.append(("wrap:tuple", ["tuple", [node]]))
    return opts


def _reordered(rng, items):
    if len(items) < 2:
        return None
    items = list(items)
    if rng.random() < 0.5:
        return items[1:] + items[:1]
    i, j = rng.sample(range(len(items)), 2)
    items[i], items[j] = items[j], items[i]
    return items


def _drop(rng, items):
    if not items:
        return None
    i = rng.randrange(len(items))
    return items[:i] + items[i + 1:]


def _pairs_of(node):
    return node[2] if node[0] == "ddict" else node[1]


def _mapping(kind, pairs, rng):
    if kind == "ddict":
        return ["ddict", rng.choice(list(FACTORIES)), pairs]
    return [kind, pairs]


def _mut_container(rng, node, hreq):  # noqa: C901, PLR0912
    k = node[0]
    opts = []
    if k in ("tuple", "list"):
        ch = node[1]
        other = "list" if k == "tuple" else "tuple"
        if not (hreq and other == "list"):
            opts.append((f"{k}->{other}", [other, ch]))
        if k == "list" or not hreq:
            opts.append((f"{k}->frozenset", ["frozenset", ch]))
            if not hreq:
                opts.append((f"{k}->set", ["set", ch]))
                opts.append((f"{k}->deque", ["deque", None, ch]))
        r = _reordered(rng, ch)
        if r:
            opts.append((f"reorder:{k}", [k, r]))
        d = _drop(rng, ch)
        if d is not None:
            opts.append((f"drop:{k}", [k, d]))
    elif k in ("set", "frozenset"):
        ch = node[1]
        other = "set" if k == "frozenset" else "frozenset"
        if not (hreq and other == "set"):
            opts.append((f"{k}->{other}", [other, ch]))
        if not hreq:
            opts.append((f"{k}->list", ["list", ch]))
        opts.append((f"{k}->tuple", ["tuple", ch]))
        d = _drop(rng, ch)
        if d is not None:
            opts.append((f"drop:{k}", [k, d]))
    elif k in MAPPING_KINDS:
        pairs = _pairs_of(node)
        int_valued = all(p[1][0] == "leaf" and type(p[1][1]) is int and p[1][1] != 0 for p in pairs)
        for other in MAPPING_KINDS:
            if other == k or (other == "counter" and not int_valued):
                continue
            opts.append((f"{k}->{other}", _mapping(other, pairs, rng)))
        if k == "odict":
            r = _reordered(rng, pairs)
            if r:
                opts.append(("reorder:odict", ["odict", r]))
        d = _drop(rng, pairs)
        if d is not None:
            opts.append((f"drop:{k}", _mapping(k, d, rng) if k != "ddict" else ["ddict", node[1], d]))
        opts.append((f"{k}->pairs", ["list", [["tuple", [p[0], p[1]]] for p in pairs]]))
    elif k == "deque":
        ml, ch = node[1], node[2]
        opts.append(("deque-maxlen", ["deque", (len(ch) + 1) if ml is None else (None if rng.random() < 0.5 else ml + 1), ch]))
        opts.append(("deque->list", ["list", ch]))
        r = _reordered(rng, ch)
        if r:
            opts.append(("reorder:deque", ["deque", ml, r]))
    elif k == "bytearray":
        opts.append(("bytearray->bytes", ["leaf", bytes(node[1])]))
        opts.append(("bytearray->list", py_to_spec(list(node[1]))))
        if node[1]:
            b = bytearray(node[1])
            i = rng.randrange(len(b))
            b[i] = (b[i] + 1) % 256
            opts.append(("bytearray-byte", ["bytearray", bytes(b)]))
    elif k == "array":
        tc, vals = node[1], node[2]
        group = "df" if tc in "df" else "bilq"
        opts.append(("array-typecode", ["array", rng.choice([c for c in group if c != tc]), vals]))
        opts.append(("array->list", py_to_spec(list(vals))))
        if vals:
            i = rng.randrange(len(vals))
            nv = list(vals)
            nv[i] = vals[i] + 1
            opts.append(("array-elem", ["array", tc, nv]))
    elif k == "nd":
        opts += _mut_nd(rng, node)
    elif k == "series":
        opts += _mut_series(rng, node)
    elif k == "frame":
        opts += _mut_frame(rng, node)
    elif k == "obj":
        opts.append(("obj->payload", node[1]))
        opts.append(("obj-wrap", ["obj", ["obj", node[1]]]))
    elif k == "objarr":
        opts.append(("objarr->list", ["list", node[2]]))
        if len(node[2]) >= 2 and len(node[1]) == 1:
            opts.append(("objarr-reshape", ["objarr", [1, len(node[2])], node[2]]))
    return opts


def _mut_nd(rng, node):
    _, dts, shape, flat = node
    dt = np.dtype(dts)
    opts = []
    n = len(flat)
    # dtype with the same data
    if dt.kind == "b":
        nd_ = rng.choice(["int32", "int64"])
        opts.append(("nd-dtype", ["nd", np.dtype(nd_).str, shape, [int(x) for x in flat]]))
    elif dt.kind == "i":
        cands = ["float64"] + (["int64"] if dt.itemsize == 4 else [])
        if dt.itemsize == 8 and all(abs(x) < 2 ** 31 for x in flat):
            cands.append("int32")
        nd_ = rng.choice(cands)
        opts.append(("nd-dtype", ["nd", np.dtype(nd_).str, shape, [float(x) if nd_ == "float64" else x for x in flat]]))
    elif dt.kind == "f":
        if all(float(x).is_integer() and abs(x) < 2 ** 31 for x in flat):
            opts.append(("nd-dtype", ["nd", np.dtype("int64").str, shape, [int(x) for x in flat]]))
    elif dt.kind == "U":
        opts.append(("nd-dtype", ["nd", "<U%d" % (dt.itemsize // 4 + 1), shape, flat]))
    # reshape
    cands = []
    if len(shape) == 0:
        cands = [[1], [1, 1]]
    elif len(shape) == 1:
        cands = [[1, n], [n, 1]] + ([[]] if n == 1 else [])
    else:
        a, b = shape
        cands = [[a * b]] + ([[b, a]] if a != b else []) + ([[1, a * b]] if a != 1 else [])
    opts.append(("nd-reshape", ["nd", dts, rng.choice(cands), flat]))
    if n:
        i = rng.randrange(n)
        nf = list(flat)
        pool = ND_POOL[{"b": "bool", "f": "float64", "U": "str"}.get(dt.kind, "int32")]
        nf[i] = _other(rng, pool, flat[i])
        opts.append(("nd-elem", ["nd", dts if dt.kind != "U" else _nd_dtype_str("str", nf), shape, nf]))
    val = np.array(flat, dtype=dt).reshape(tuple(shape)).tolist()
    opts.append(("nd->list", py_to_spec(val)))
    return opts


def _explicit_index(index, n):
    if index is not None and len(index) == 4 and index[0] == "range":
        return list(range(index[1], index[2], index[3]))
    return list(range(n)) if index is None else list(index)


def _mut_series(rng, node):
    _, name, index, vals, dt = node
    n = len(vals)
    opts = [("series-name", ["series", _other(rng, PD_NAMES, name), index, vals, dt])]
    if n:
        idx = _explicit_index(index, n)
        i = rng.randrange(n)
        fam = "str" if isinstance(idx[0], str) else "int"
        ni = list(idx)
        ni[i] = rng.choice([x for x in PD_LABELS[fam] + ([77] if fam == "int" else ["zz"]) if x != idx[i]])
        opts.append(("series-relabel", ["series", name, ni, vals, dt]))
        nv = list(vals)
        nv[i] = _other(rng, PD_VALS[dt], vals[i])
        opts.append(("series-value", ["series", name, index, nv, dt]))
        opts.append(("series->dict", ["dict", _dedupe_pairs([[["leaf", a], ["leaf", b]] for a, b in zip(idx, vals)])]))
    if n >= 2:
        idx = _explicit_index(index, n)
        opts.append(("series-row-reorder", ["series", name, idx[1:] + idx[:1], vals[1:] + vals[:1], dt]))
        if index is None:
            # the rows of a default-indexed Series reversed with their labels (s[::-1]): still a RangeIndex, same label -> value
            opts.append(("series-row-reorder", ["series", name, ["range", n - 1, -1, -1], list(reversed(vals)), dt]))
            opts.append(("series-row-reorder", ["series", name, ["range", n - 1, -1, -1], list(reversed(vals)), dt]))
    return opts


def _dedupe_pairs(pairs):
    out = []
    for k, x in pairs:
        out = [p for p in out if not p[0][1] == k[1]] + [[k, x]]
    return out


def _mut_frame(rng, node):
    _, cols, index, data, dts = node
    n = len(data[0])
    opts = []
    c = rng.randrange(len(cols))
    nc = list(cols)
    nc[c] = rng.choice([x for x in PD_COLS + ["y"] if x not in cols])
    opts.append(("frame-col-rename", ["frame", nc, index, data, dts]))
    if len(cols) >= 2:
        opts.append(("frame-col-reorder", ["frame", cols[1:] + cols[:1], index, data[1:] + data[:1], dts[1:] + dts[:1]]))
    if n:
        idx = _explicit_index(index, n)
        i = rng.randrange(n)
        fam = "str" if isinstance(idx[0], str) else "int"
        ni = list(idx)
        ni[i] = rng.choice([x for x in PD_LABELS[fam] + ([77] if fam == "int" else ["zz"]) if x != idx[i]])
        opts.append(("frame-relabel", ["frame", cols, ni, data, dts]))
        nd_ = [list(col) for col in data]
        nd_[c][i] = _other(rng, PD_VALS[dts[c]], data[c][i])
        opts.append(("frame-value", ["frame", cols, index, nd_, dts]))
    if n >= 2:
        idx = _explicit_index(index, n)
        opts.append(("frame-row-reorder", ["frame", cols, idx[1:] + idx[:1], [col[1:] + col[:1] for col in data], dts]))
    opts.append(("frame->dict", ["dict", [[["leaf", cn], py_to_spec(list(col))] for cn, col in zip(cols, data)]]))
    return opts


KIND_WEIGHT = {"wrap:tuple": 0.15, "wrap:list": 0.3, "bytes->bytearray": 4.0, "reorder:odict": 3.0,
               "odict->counter": 2.0, "ddict->counter": 2.0, "leaf:bool": 2.0, "leaf:complex": 2.0, "leaf:bytes": 1.5,
               "none->str": 0.5, "numtype": 0.5}


def mutate(rng, spec, prefer=None):
    """One look-alike mutant: (kind, parent_kind, new_spec, path of the mutated node) or None; it builds."""
    ns = list(nodes(spec))
    weights = [(4 if type(n[1][1]) is bytes else 2 if type(n[1][1]) in (bool, complex) else 1)
               if n[1][0] == "leaf" else (7 if n[1][0] in ("odict", "ddict") else 4) for n in ns]
    for _ in range(12):
        path, node, parent, hreq, role = rng.choices(ns, weights)[0]
        opts = _mut_leaf(rng, node, hreq, role) if node[0] == "leaf" else _mut_container(rng, node, hreq)
        opts = [o for o in opts if o[1] is not None]
        if prefer:
            pref = [o for o in opts if o[0] in prefer]
            opts = pref or opts
        if not opts:
            continue
        kind, new = rng.choices(opts, [KIND_WEIGHT.get(o[0], 1.0) for o in opts])[0]
        if new[0] == "leaf" and len(new) == 2 and new[1] is None and kind.startswith("leaf:"):
            continue
        cand = set_at(copy.deepcopy(spec), path, copy.deepcopy(new))
        try:
            build(cand)
        except SpecInvalid:
            continue
        return kind, (parent or "root"), cand, path
    return None
