"""Controlled executor (DESIGN 3.6): a concurrent.futures.Executor passed through the public
`executor=` argument.  submit() only records the task; the batch is released on the first
observation of any of its futures (result() / add_done_callback()).  Tasks then run in a chosen
permutation `pi` and their futures complete in a chosen permutation `sigma`.  No sleeps, fully
deterministic and replayable."""
from __future__ import annotations

import threading
from concurrent.futures import Executor, Future


class _CFuture(Future):
    def __init__(self, ex):
        super().__init__()
        self._ex = ex

    def result(self, timeout=None):
        self._ex._observe(inline=True)
        return super().result(timeout)

    def exception(self, timeout=None):
        self._ex._observe(inline=True)
        return super().exception(timeout)

    def add_done_callback(self, fn):
        super().add_done_callback(fn)
        self._ex._observe(inline=False)


class ControlledExecutor(Executor):
    """pick(n, batch_no) -> (pi, sigma): run order and completion order (permutations of range(n))."""

    def __init__(self, pick, stop_on_exception=False):
        self.pending = []
        self.pick = pick
        self.batches = []  # (n, pi, sigma)
        self._lock = threading.Lock()
        self._releasing = False
        self.threads = []
        self.stop_on_exception = stop_on_exception

    def submit(self, fn, /, *a, **k):
        f = _CFuture(self)
        with self._lock:
            self.pending.append((f, fn, a, k))
        return f

    def _observe(self, inline):
        with self._lock:
            if self._releasing or not self.pending:
                return
            self._releasing = True
            batch, self.pending = self.pending, []
        if inline:
            self._run(batch)
        else:
            t = threading.Thread(target=self._run, args=(batch,), daemon=True)
            self.threads.append(t)
            t.start()

    def _run(self, batch):
        n = len(batch)
        pi, sigma = self.pick(n, len(self.batches))
        self.batches.append((n, tuple(pi), tuple(sigma)))
        outs = {}
        live = {i for i in range(n) if batch[i][0].set_running_or_notify_cancel()}  # cancelled before release: skipped
        for i in pi:
            if i not in live:
                continue
            f, fn, a, k = batch[i]
            try:
                outs[i] = (True, fn(*a, **k))
            except BaseException as e:  # noqa: BLE001
                outs[i] = (False, e)
        with self._lock:
            self._releasing = False
        for i in sigma:
            if i not in live:
                continue
            f = batch[i][0]
            ok, val = outs[i]
            if ok:
                Future.set_result(f, val)
            else:
                Future.set_exception(f, val)
        # tasks submitted while this batch ran (none in pipefunc's generation model) are released
        # on their next observation

    def shutdown(self, wait=True, *, cancel_futures=False):
        for t in self.threads:
            t.join(30)
