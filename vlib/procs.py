"""Reaping of leftover processes of a check run.

Checks fork shard workers, which fork further children in process groups of their own (crash-injected maps, pools,
manager servers).  If a shard worker is killed by its watchdog, such a grandchild can outlive it - and, holding the
inherited stdout, keep whoever captures the check's output waiting for ever.  Every process of a run inherits the
environment variable VERIF_RUN_ID (set by ./check before exec); the reaper finds them through /proc/<pid>/environ."""
from __future__ import annotations

import os
import signal


def _run_id() -> bytes | None:
    rid = os.environ.get("VERIF_RUN_ID")
    return f"VERIF_RUN_ID={rid}".encode() if rid else None


def leftovers(only_orphans: bool = False) -> list[int]:
    tag = _run_id()
    if tag is None:
        return []
    me, out = os.getpid(), []
    for name in os.listdir("/proc"):
        if not name.isdigit() or int(name) == me:
            continue
        try:
            with open(f"/proc/{name}/environ", "rb") as f:
                env = f.read()
            if tag not in env.split(b"\0"):
                continue
            if only_orphans:
                with open(f"/proc/{name}/stat") as f:
                    ppid = int(f.read().rsplit(")", 1)[1].split()[1])
                if ppid != 1:
                    continue
            out.append(int(name))
        except (OSError, ValueError, IndexError):
            continue
    return out


def kill_leftovers(only_orphans: bool = False) -> int:
    n = 0
    for _ in range(3):  # a killed parent can orphan further children: repeat
        pids = leftovers(only_orphans)
        if not pids:
            break
        for pid in pids:
            try:
                os.kill(pid, signal.SIGKILL)
                n += 1
            except (ProcessLookupError, PermissionError):
                pass
    return n
