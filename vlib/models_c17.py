"""Reference list-semantics model of pipefunc.sweep for check C17 (never imports pipefunc).

A sweep *spec* is a JSON-able dict

    {"items": [[key, [v, ...]], ...],          # ordered like the items dict
     "dims":  None | [key | [key, ...], ...],  # inner lists stand for tuples
     "const": {key: value} | None,
     "deriv": [[out_key, [read_key, ...]], ...] | None,
     "excl":  [{"keys": [k, ...], "bad": [[v, ...], ...]}, ...] | None}

Derivers are symbolic: the deriver for ``out`` returns ("D", out, v1, v2, ...), the values of the
keys it reads.  The generators keep derivers order-independent (no deriver reads a key that *another*
deriver writes) and let exclude predicates read only item keys no deriver overwrites, so the model
needs no assumption about the order in which pipefunc applies derivers / exclude.
"""
from __future__ import annotations

import itertools

# item order is deliberately not alphabetical; one alphabet per operand position
ALPHABETS = [["b", "a", "d", "c"], ["f", "e", "h", "g"], ["j", "i", "l", "k"]]
_ALL = [k for al in ALPHABETS for k in al]


# --------------------------------------------------------------------------- reference semantics
def groups_of(spec):
    keys = [k for k, _ in spec["items"]]
    if spec["dims"] is None:
        return [(k,) for k in keys]
    return [tuple(g) if isinstance(g, (list, tuple)) else (g,) for g in spec["dims"]]


def derive_value(out, reads, env):
    return ("D", out) + tuple(env[r] for r in reads)


def ref_list(spec):
    """All combinations, row-major over the groups in dims order (item order without dims)."""
    items = {k: list(v) for k, v in spec["items"]}
    parts = []
    for g in groups_of(spec):
        n = len(items[g[0]])
        for k in g:
            if len(items[k]) != n:
                raise AssertionError("generator produced a zipped group of unequal lengths")
        parts.append([{k: items[k][i] for k in g} for i in range(n)])
    combos = [{}]
    for part in parts:  # first group varies slowest
        combos = [dict(list(c.items()) + list(p.items())) for c in combos for p in part]
    out = []
    for base in combos:
        skip = False
        for ex in spec.get("excl") or []:
            if [base[k] for k in ex["keys"]] in [list(b) for b in ex["bad"]]:
                skip = True
        if skip:
            continue
        env = dict(base)
        for k, val in (spec.get("const") or {}).items():
            if k not in env:
                env[k] = val
        full = dict(env)
        for o, reads in spec.get("deriv") or []:
            full[o] = derive_value(o, reads, env)  # simultaneous: reads the underived values
        out.append(full)
    return out


def order_required(spec):
    """Row-major order is demanded when dims is omitted or lists its groups in item order."""
    if spec["dims"] is None:
        return True
    pos = {k: i for i, (k, _) in enumerate(spec["items"])}
    firsts = [min(pos[k] for k in g) for g in groups_of(spec)]
    return firsts == sorted(firsts)


def cartesian(lists):
    """Cartesian product of several combination lists (dicts merged)."""
    out = [{}]
    for lst in lists:
        out = [dict(list(c.items()) + list(d.items())) for c in out for d in lst]
    return out


def unzipped_full_product(specs):
    """The list a product would give if *all* zipping were forgotten but every operand's
    constants / derivers / excludes were kept (used only to NAME the mechanism of DESIGN 5 row 26,
    never as an expectation)."""
    merged = {"items": [kv for s in specs for kv in s["items"]], "dims": None,
              "const": {k: v for s in specs for k, v in (s.get("const") or {}).items()} or None,
              "deriv": [d for s in specs for d in (s.get("deriv") or [])] or None,
              "excl": [e for s in specs for e in (s.get("excl") or [])] or None}
    return ref_list(merged)


def distinct_projections(combos, keys):
    seen, out = set(), []
    for c in combos:
        p = tuple((k, c[k]) for k in keys)
        if p not in seen:
            seen.add(p)
            out.append({k: c[k] for k in keys})
    return out


def freeze(d):
    return tuple(sorted(d.items(), key=lambda kv: kv[0]))


# --------------------------------------------------------------------------- count_sweep model
def pipeline_for(root_keys, variant):
    """A tiny pipeline description [[out, [params]], ...] + target over 1..3 root keys."""
    r = list(root_keys)
    if len(r) == 1:
        funcs = [["x1", [r[0]]], ["x2", ["x1"]]] if variant % 2 == 0 else \
                [["x1", [r[0]]], ["x2", ["x1", r[0]]], ["x3", ["x2", "x1"]]]
    elif len(r) == 2:
        funcs = [["x1", [r[0]]], ["x2", ["x1", r[1]]], ["x3", ["x2"]]] if variant % 2 == 0 else \
                [["x1", [r[0]]], ["x2", [r[1]]], ["x3", ["x1", "x2"]]]
    else:
        funcs = [["x1", [r[0]]], ["x2", ["x1", r[1]]], ["x3", ["x2", r[2]]]] if variant % 2 == 0 else \
                [["x1", [r[0], r[1]]], ["x2", [r[1], r[2]]], ["x3", ["x1", "x2"]]]
    return {"funcs": funcs, "target": funcs[-1][0]}


def strict_dependencies(pl, target):
    prod = {o: ps for o, ps in pl["funcs"]}
    seen, todo = [], [p for p in prod[target] if p in prod]
    while todo:
        o = todo.pop()
        if o not in seen:
            seen.append(o)
            todo.extend(p for p in prod[o] if p in prod)
    return seen


def root_args_of(pl, out):
    prod = {o: ps for o, ps in pl["funcs"]}
    roots, todo = [], list(prod[out])
    while todo:
        p = todo.pop()
        if p in prod:
            todo.extend(prod[p])
        elif p not in roots:
            roots.append(p)
    return sorted(roots)


def count_model(combos, roots_in_order):
    cnt = {}
    for c in combos:
        key = tuple(c[r] for r in roots_in_order)
        cnt[key] = cnt.get(key, 0) + 1
    return cnt


# --------------------------------------------------------------------------- structures
def set_partitions(seq):
    seq = list(seq)
    if not seq:
        yield []
        return
    first, rest = seq[0], seq[1:]
    for p in set_partitions(rest):
        yield [[first]] + p
        for i in range(len(p)):
            yield p[:i] + [[first] + p[i]] + p[i + 1:]


def dims_variants(lens, max_perms=None, mixed=True):
    """All dims shapes for `len(lens)` keys (as key *indices*): None, and for every set partition
    into equal-length blocks every order of the blocks, in several spellings (str vs 1-tuple for a
    single key; key order inside a zipped tuple).  Elements: int (spelled as str) or tuple of ints."""
    n = len(lens)
    out = [None]
    if n == 0:
        return [None, []]
    for part in set_partitions(range(n)):
        part = [sorted(b) for b in part]
        if any(len({lens[i] for i in b}) != 1 for b in part):
            continue
        part.sort(key=lambda b: b[0])
        perms = list(itertools.permutations(part))
        if max_perms:
            perms = perms[:1] + perms[1:][-(max_perms - 1):] if max_perms > 1 else perms[:1]
        for perm in perms:
            if all(len(b) == 1 for b in perm):
                out.append([b[0] for b in perm])                    # all strings
                out.append([(b[0],) for b in perm])                 # all 1-tuples
                if n >= 2 and mixed:
                    out.append([b[0] if j % 2 else (b[0],) for j, b in enumerate(perm)])
            else:
                out.append([b[0] if len(b) == 1 else tuple(b) for b in perm])
                out.append([(b[0],) if len(b) == 1 else tuple(reversed(b)) for b in perm])
    return out


def values_for(key, n, seed):
    j = _ALL.index(key)
    if (j + seed) % 2 == 0:
        return [100 * (j + 1) + 7 * i + seed % 5 for i in range(n)]
    return [f"{key}{i}{'xyz'[seed % 3]}" for i in range(n)]


def instantiate(lens, dims_idx, opts, alphabet, rng, seed):
    """Spec for a structure (lens, dims over key indices) with the option bits
    opts = (constants, derivers, exclude)."""
    keys = [alphabet[i] for i in range(len(lens))]
    items = [[k, values_for(k, n, seed)] for k, n in zip(keys, lens)]
    if dims_idx is None:
        dims = None
    else:
        dims = [keys[g] if isinstance(g, int) else [keys[i] for i in g] for g in dims_idx]
    tag = alphabet[0]
    spec = {"items": items, "dims": dims, "const": None, "deriv": None, "excl": None}
    if opts[0]:
        spec["const"] = {f"k{tag}": 5 + seed % 3}
        if rng.random() < 0.5:
            spec["const"][f"kk{tag}"] = f"c{tag}"
        if keys and rng.random() < 0.3:
            # a constant named like a swept key: the swept value wins (with and without dims alike)
            spec["const"][keys[-1]] = f"const-shadowed-by-{keys[-1]}"
    overwritten = None
    if opts[1]:
        reads = [keys[0]] if keys else []
        if len(keys) >= 2 and rng.random() < 0.6:
            reads.append(keys[-1])
        if spec["const"] and rng.random() < 0.5:
            reads.append(f"k{tag}")
        deriv = [[f"d{tag}", reads]]
        free = [k for k in keys if k not in reads]
        r = rng.random()
        if free and r < 0.5:
            overwritten = free[rng.randrange(len(free))]
            deriv.append([overwritten, [overwritten]])
        elif keys and r < 0.7:
            deriv.append([f"dd{tag}", [keys[rng.randrange(len(keys))]]])
        if rng.random() < 0.5:
            deriv.reverse()
        spec["deriv"] = deriv
    if opts[2]:
        cand = [k for k in keys if k != overwritten]
        if not cand:
            spec["excl"] = [{"keys": [], "bad": []}]
        else:
            ek = [cand[rng.randrange(len(cand))]]
            if len(cand) >= 2 and rng.random() < 0.5:
                other = [k for k in cand if k != ek[0]]
                ek.append(other[rng.randrange(len(other))])
            vals = dict((k, v) for k, v in items)
            tuples = [list(t) for t in itertools.product(*[vals[k] for k in ek])]
            bad = [t for t in tuples if rng.random() < 0.4]
            if tuples and not bad:
                bad = [tuples[rng.randrange(len(tuples))]]
            spec["excl"] = [{"keys": ek, "bad": bad}]
    return spec


def operand_pool(tier):
    """Structures (lens, dims_idx) used as operands of product / + ."""
    pool = []
    max_len2 = 2 if tier == "quick" else 3
    for n in (1, 2):
        top = 3 if n == 1 else max_len2
        for lens in itertools.product(range(top + 1), repeat=n):
            for d in dims_variants(lens, mixed=tier != "quick"):
                pool.append((list(lens), d))
    if tier != "quick":
        for lens in itertools.product(range(3), repeat=3):
            for d in dims_variants(lens, max_perms=1, mixed=False):
                pool.append((list(lens), d))
    return pool


# --------------------------------------------------------------------------- features / shrinking
def features(spec):
    f = []
    keys = [k for k, _ in spec["items"]]
    if not keys:
        f.append("items=0")
    gs = groups_of(spec)
    if spec["dims"] is None:
        f.append("dims=none")
    elif any(len(g) > 1 for g in gs):
        f.append("dims=zipped")
    elif all(isinstance(g, str) for g in spec["dims"]):
        f.append("dims=strs")
    else:
        f.append("dims=tuples")
    if spec["dims"] is not None and not order_required(spec):
        f.append("perm")
    if any(len(v) == 0 for _, v in spec["items"]):
        f.append("emptydim")
    if spec.get("const"):
        f.append("+const")
    if spec.get("deriv"):
        f.append("+deriv-overwrite" if any(o in keys for o, _ in spec["deriv"]) else "+deriv")
    if spec.get("excl"):
        f.append("+excl")
    return ",".join(f)


def dims_class(spec):
    """'items=0' | 'none' | 'strs' | 'tuples' | 'zipped' (+ '-perm' when not in item order)."""
    if not spec["items"]:
        return "items=0"
    f = features(spec).split(",")
    return f[0][5:] + ("-perm" if "perm" in f else "")


def _copy(spec):
    return {"items": [[k, list(v)] for k, v in spec["items"]],
            "dims": None if spec["dims"] is None else [list(g) if isinstance(g, (list, tuple)) else g for g in spec["dims"]],
            "const": dict(spec["const"]) if spec.get("const") else None,
            "deriv": [[o, list(r)] for o, r in spec["deriv"]] if spec.get("deriv") else None,
            "excl": [{"keys": list(e["keys"]), "bad": [list(b) for b in e["bad"]]} for e in spec["excl"]] if spec.get("excl") else None}


def simplify_spec(spec, keep=()):
    """Candidate simplifications of a spec (each still inside the generator's domain)."""
    if spec.get("const"):
        s = _copy(spec)
        ck = set(s["const"])
        s["const"] = None
        if s["deriv"]:
            s["deriv"] = [[o, [r for r in rd if r not in ck]] for o, rd in s["deriv"]]
        if not any(k in ck for k in keep):
            yield s
    if spec.get("deriv"):
        for i in range(len(spec["deriv"])):
            if spec["deriv"][i][0] in keep:
                continue
            s = _copy(spec)
            del s["deriv"][i]
            s["deriv"] = s["deriv"] or None
            yield s
    if spec.get("excl"):
        s = _copy(spec)
        s["excl"] = None
        yield s
    if spec.get("deriv"):
        for i, (o, rd) in enumerate(spec["deriv"]):
            for r in rd:
                if o != r:  # a deriver that reads one key less
                    s = _copy(spec)
                    s["deriv"][i][1] = [x for x in rd if x != r]
                    yield s
        ikeys = [k for k, _ in spec["items"]]
        for i, (o, rd) in enumerate(spec["deriv"]):
            if o in ikeys and o not in keep:  # an overwriting deriver becomes one that adds a new key
                s = _copy(spec)
                s["deriv"][i][0] = f"n{o}"
                yield s
    if spec["dims"] is not None:
        s = _copy(spec)
        s["dims"] = None
        yield s
    has_empty = any(len(v) == 0 for _, v in spec["items"])
    for g in groups_of(spec):  # shorten a group (down to an empty list only if the sweep already has one)
        n = len(dict(spec["items"])[g[0]])
        if n >= 2 or (n == 1 and has_empty):
            s = _copy(spec)
            for kv in s["items"]:
                if kv[0] in g:
                    kv[1] = kv[1][:-1]
            yield s
    keys = [k for k, _ in spec["items"]]
    if len(keys) >= 2:
        for k in keys:  # drop a key together with everything that mentions it
            if k in keep:
                continue
            if any(k in rd and o in keep for o, rd in spec.get("deriv") or []):
                continue
            s = _copy(spec)
            s["items"] = [kv for kv in s["items"] if kv[0] != k]
            if s["dims"] is not None:
                nd = []
                for g in s["dims"]:
                    if isinstance(g, list):
                        g2 = [x for x in g if x != k]
                        if g2:
                            nd.append(g2)
                    elif g != k:
                        nd.append(g)
                s["dims"] = nd
            if s["deriv"]:
                s["deriv"] = [[o, rd] for o, rd in s["deriv"] if o != k and k not in rd] or None
            if s["excl"]:
                s["excl"] = [e for e in s["excl"] if k not in e["keys"]] or None
            yield s


def shrink(case, still_fails, simplify, budget=400):
    """Greedy delta-debugging: keep applying the first simplification that still fails."""
    cur, progress = case, True
    while progress and budget > 0:
        progress = False
        for cand in simplify(cur):
            budget -= 1
            if still_fails(cand):
                cur, progress = cand, True
                break
            if budget <= 0:
                break
    return cur


def to_python(spec, name="s"):
    """Copy-pastable constructor text of a spec (for witnesses)."""
    items = "{" + ", ".join(f"{k!r}: {v!r}" for k, v in spec["items"]) + "}"
    args = [items]
    if spec["dims"] is not None:
        args.append("dims=[" + ", ".join(repr(tuple(g)) if isinstance(g, list) else repr(g) for g in spec["dims"]) + "]")
    if spec.get("excl"):
        conds = " or ".join(f"[c[k] for k in {e['keys']!r}] in {e['bad']!r}" for e in spec["excl"])
        args.append(f"exclude=lambda c: {conds}")
    if spec.get("const"):
        args.append(f"constants={spec['const']!r}")
    if spec.get("deriv"):
        ds = ", ".join(f"{o!r}: (lambda c: ('D', {o!r}) + tuple(c[r] for r in {rd!r}))" for o, rd in spec["deriv"])
        args.append("derivers={" + ds + "}")
    return f"Sweep({', '.join(args)})"
