"""C16 reference model (DESIGN 4/C16).  Nothing here imports pipefunc.

Annotations are *terms* (nested tuples) so that the oracle never looks at an object pipefunc built:

    ("any",) ("noann",) ("cls", C) ("tv", name) ("ellipsis",)
    ("gen", origin_class, (arg, ...))            list[int], tuple[int, ...], dict[str, int], Sequence[int]
    ("union", (member, ...), style)              style "U" = typing.Union[...], "|" = PEP 604 (irrelevant to meaning)
    ("annot", inner, (meta, ...))                meta = ("m", <non-string object>) | ("aet", element term)

`Array[T]` is ("annot", ARRAY_PRIMARY, (("aet", T),)): an object ndarray annotated with its element type.
`norm` mirrors what the typing module does on construction (union flattening / de-duplication /
singleton collapse, flattening of nested Annotated); the check cross-validates `norm` against the
objects Python really builds (`from_py(build(t))`), so a mistake here is a harness error, not a verdict.
"""
from __future__ import annotations

import types
import typing
from typing import Any

import numpy as np

NoneType = type(None)
ANY = ("any",)
NOANN = ("noann",)
ELL = ("ellipsis",)


def cls(c):
    return ("cls", c)


INT, BOOL, FLOAT, STR, BYTES, NONE = (cls(c) for c in (int, bool, float, str, bytes, NoneType))


def gen(origin, *args):
    return ("gen", origin, tuple(args))


def union(*members, style="U"):
    return ("union", tuple(members), style)


def optional(x, style="U"):
    return ("union", (x, NONE), style)


def annot(x, *metas):
    return ("annot", x, tuple(("m", k) for k in metas))


ARRAY_PRIMARY = gen(np.ndarray, ANY, gen(np.dtype, cls(np.object_)))


def array(x):
    return ("annot", ARRAY_PRIMARY, (("aet", x),))


def tv(name):
    return ("tv", name)


# TypeVar pool: name -> (constraints, bound)
TVSPEC: dict = {
    "T": ((), None),
    "S": ((STR, INT), None),
    "N": ((), INT),
    "L": ((), gen(list, INT)),
}
METAS = (7, 11, 13)  # non-string Annotated metadata (a string would be evaluated as a forward reference)


# ------------------------------------------------------------------ structure helpers
def canon(t):
    """Hashable key such that canon(a) == canon(b) iff Python's `==` holds for the built objects."""
    k = t[0]
    if k == "gen":
        return ("gen", t[1], tuple(canon(a) for a in t[2]))
    if k == "union":
        return ("union", frozenset(canon(m) for m in t[1]))
    if k == "annot":
        return ("annot", canon(t[1]), tuple(("aet", canon(m[1])) if m[0] == "aet" else m for m in t[2]))
    return t


def norm(t):
    k = t[0]
    if k == "gen":
        return ("gen", t[1], tuple(norm(a) for a in t[2]))
    if k == "union":
        out, seen = [], set()
        for m in t[1]:
            m = norm(m)
            for x in (m[1] if m[0] == "union" else (m,)):
                c = canon(x)
                if c not in seen:
                    seen.add(c)
                    out.append(x)
        return out[0] if len(out) == 1 else ("union", tuple(out), t[2])
    if k == "annot":
        inner = norm(t[1])
        metas = tuple(("aet", norm(m[1])) if m[0] == "aet" else m for m in t[2])
        if inner[0] == "annot":
            return ("annot", inner[1], inner[2] + metas)
        return ("annot", inner, metas)
    return t


def elem(t):
    """Array element type carried by an Annotated term (first ArrayElementType metadata), else None."""
    if t[0] != "annot":
        return None
    return next((m[1] for m in t[2] if m[0] == "aet"), None)


def is_array(t):
    return t[0] == "annot" and t[1] == ARRAY_PRIMARY and elem(t) is not None


def children(t):
    k = t[0]
    if k == "gen":
        return [a for a in t[2] if a != ELL]
    if k == "union":
        return list(t[1])
    if k == "annot":
        if is_array(t):
            return [m[1] for m in t[2] if m[0] == "aet"]
        return [t[1]] + [m[1] for m in t[2] if m[0] == "aet"]
    return []


def depth(t):
    ch = children(t)
    return 0 if not ch else 1 + max(depth(c) for c in ch)


def has_tv(t):
    return t[0] == "tv" or any(has_tv(c) for c in children(t))


def kind(t):
    k = t[0]
    if k == "cls":
        return "class"
    if k == "tv":
        return "typevar"
    if k == "gen":
        name = getattr(t[1], "__name__", str(t[1]))
        return "tuplevar" if t[2][-1:] == (ELL,) else name
    if k == "union":
        return "optional" if NONE in t[1] else "union"
    if k == "annot":
        return "array" if is_array(t) else "annotated"
    return k


def show(t):
    """Copy-pastable Python expression (names: Any, Union, Annotated, Array, NoAnnotation, NoneType, T/S/N/L)."""
    k = t[0]
    if k == "any":
        return "Any"
    if k == "noann":
        return "NoAnnotation"
    if k == "cls":
        return "NoneType" if t[1] is NoneType else getattr(t[1], "__name__", repr(t[1]))
    if k == "tv":
        return t[1]
    if k == "ellipsis":
        return "..."
    if k == "gen":
        return f"{getattr(t[1], '__name__', t[1])}[{', '.join(show(a) for a in t[2])}]"
    if k == "union":
        if t[2] == "|":
            return "(" + " | ".join(show(m) for m in t[1]) + ")"
        return f"Union[{', '.join(show(m) for m in t[1])}]"
    if k == "annot":
        metas = list(t[2])
        if is_array(t) and metas[0][0] == "aet":
            base, rest = f"Array[{show(metas[0][1])}]", metas[1:]
        else:
            base, rest = show(t[1]), metas
        if not rest:
            return base
        return f"Annotated[{base}, {', '.join('ArrayElementType[' + show(m[1]) + ']' if m[0] == 'aet' else repr(m[1]) for m in rest)}]"
    return repr(t)


# ------------------------------------------------------------------ the reference relation
def _origin_args(t):
    return (t[1], None) if t[0] == "cls" else (t[1], t[2]) if t[0] == "gen" else (None, None)


def ref(a, b, rec=None):
    """Every value of annotation `a` is acceptable where `b` is required (covariant generics).
    `rec` (optional) replaces the recursive call - used to list the sub-pairs a verdict rests on."""
    r = rec or ref
    if b == ANY or a == NOANN or b == NOANN or canon(a) == canon(b):
        return True
    if a[0] == "union":                                   # union source: all members
        return all(r(m, b) for m in a[1])
    if a[0] == "annot" and elem(a) is None:               # Annotated is transparent
        return r(a[1], b)
    if a[0] == "tv":                                      # source TypeVar: values of its bound/constraints
        cons, bound = TVSPEC[a[1]]                        # (only ever used one-sidedly, see the check)
        return all(r(c, b) for c in cons) if cons else r(ANY if bound is None else bound, b)
    if b[0] == "tv":
        cons, bound = TVSPEC[b[1]]
        if cons:
            return any(r(a, c) for c in cons)
        return True if bound is None else r(a, bound)
    if b[0] == "union":                                   # union target: some member
        return any(r(a, m) for m in b[1])
    if b[0] == "annot" and elem(b) is None:
        return r(a, b[1])
    if a[0] == "annot" or b[0] == "annot":                # Array[S] vs Array[T] compares S with T
        pa, pb = (a[1] if a[0] == "annot" else a), (b[1] if b[0] == "annot" else b)
        ea, eb = elem(a), elem(b)
        return r(pa, pb) and (ea is None or eb is None or r(ea, eb))
    if a == ANY:
        return False
    (oa, aa), (ob, ab) = _origin_args(a), _origin_args(b)
    if not (isinstance(oa, type) and isinstance(ob, type) and issubclass(oa, ob)):
        return False
    if aa is None or ab is None:                          # bare generic on either side
        return True
    va, vb = aa[-1:] == (ELL,), ab[-1:] == (ELL,)
    if vb:                                                # tuple[T, ...] target
        return all(r(x, ab[0]) for x in (aa[:1] if va else aa))
    return not va and len(aa) == len(ab) and all(r(x, y) for x, y in zip(aa, ab))


def subpairs(a, b):
    """The direct sub-pairs the reference consults for (a, b)."""
    out = []

    def rec(x, y):
        out.append((x, y))
        return ref(x, y)

    ref(a, b, rec)
    return out


# ------------------------------------------------------------------ Python object -> term (calibration, self-check)
_TV_BY_ID: dict = {}


def register_typevar(obj, name):
    _TV_BY_ID[id(obj)] = (name, obj)


def from_py(o):
    if o is Any:
        return ANY
    if o is None:
        return NONE
    if o is Ellipsis:
        return ELL
    if isinstance(o, typing.TypeVar):
        if id(o) in _TV_BY_ID:
            return ("tv", _TV_BY_ID[id(o)][0])
        cons = tuple(from_py(c) for c in o.__constraints__)
        bound = None if o.__bound__ is None else from_py(o.__bound__)
        name = f"{o.__name__}~{len(_TV_BY_ID)}"
        TVSPEC[name] = (cons, bound)
        register_typevar(o, name)
        return ("tv", name)
    org = typing.get_origin(o)
    if org is None:
        if isinstance(o, type):
            return NOANN if o.__name__ == "NoAnnotation" else ("cls", o)
        raise ValueError(f"not an annotation of the grammar: {o!r}")
    args = typing.get_args(o)
    if org is typing.Union or org is types.UnionType:
        return norm(("union", tuple(from_py(x) for x in args), "U"))
    if org is typing.Annotated:
        metas = tuple(
            ("aet", from_py(typing.get_args(m)[0]))
            if getattr(typing.get_origin(m), "__name__", "") == "ArrayElementType" else ("m", m)
            for m in args[1:])
        return norm(("annot", from_py(args[0]), metas))
    return ("gen", org, tuple(from_py(x) for x in args))


# ------------------------------------------------------------------ generators
_ATOMS = [(INT, 5), (BOOL, 5), (FLOAT, 2), (STR, 3), (BYTES, 1), (NONE, 2), (ANY, 2),
          (tv("T"), 1), (tv("S"), 1), (tv("N"), 1), (tv("L"), 0.5)]
_CONS = [("list", 4), ("set", 2), ("tuple1", 2), ("tuple2", 3), ("tuple3", 1), ("tuplevar", 2), ("dict", 3),
         ("union", 4), ("optional", 3), ("annotated", 4), ("array", 3)]


def _pick(rng, table):
    return rng.choices([x for x, _ in table], weights=[w for _, w in table])[0]


def rand_atom(rng):
    return _pick(rng, _ATOMS)


def rand_term(rng, d):
    """Random term of depth <= d (not yet normalised)."""
    if d <= 0 or rng.random() < 0.22:
        return rand_atom(rng)
    c = _pick(rng, _CONS)
    sub = lambda: rand_term(rng, d - 1)  # noqa: E731
    style = "|" if rng.random() < 0.4 else "U"
    if c == "list":
        return gen(list, sub())
    if c == "set":
        return gen(set, sub())
    if c == "tuple1":
        return gen(tuple, sub())
    if c == "tuple2":
        return gen(tuple, sub(), sub())
    if c == "tuple3":
        return gen(tuple, sub(), sub(), sub())
    if c == "tuplevar":
        return gen(tuple, sub(), ELL)
    if c == "dict":
        return gen(dict, sub(), sub())
    if c == "union":
        return union(*[sub() for _ in range(rng.choice([2, 2, 3]))], style=style)
    if c == "optional":
        return optional(sub(), style=style)
    if c == "annotated":
        return annot(sub(), *rng.sample(METAS, rng.choice([1, 1, 2])))
    return array(sub())


def _paths(t, here=()):
    out = [here]
    k = t[0]
    if k == "gen":
        for i, a in enumerate(t[2]):
            if a != ELL:
                out += _paths(a, here + (i,))
    elif k == "union":
        for i, m in enumerate(t[1]):
            out += _paths(m, here + (i,))
    elif k == "annot":
        if not is_array(t):
            out += _paths(t[1], here + ("inner",))
        for i, m in enumerate(t[2]):
            if m[0] == "aet":
                out += _paths(m[1], here + (("meta", i),))
    return out


def _get(t, path):
    for p in path:
        if t[0] == "gen":
            t = t[2][p]
        elif t[0] == "union":
            t = t[1][p]
        elif p == "inner":
            t = t[1]
        else:
            t = t[2][p[1]][1]
    return t


def _set(t, path, new):
    if not path:
        return new
    p, rest = path[0], path[1:]
    if t[0] == "gen":
        return ("gen", t[1], t[2][:p] + (_set(t[2][p], rest, new),) + t[2][p + 1:])
    if t[0] == "union":
        return ("union", t[1][:p] + (_set(t[1][p], rest, new),) + t[1][p + 1:], t[2])
    if p == "inner":
        return ("annot", _set(t[1], rest, new), t[2])
    i = p[1]
    return ("annot", t[1], t[2][:i] + (("aet", _set(t[2][i][1], rest, new)),) + t[2][i + 1:])


def _alter(rng, x):
    """One local edit of a node: widen, narrow, wrap, unwrap, change arity, change constructor, replace."""
    opts = ["any", "union", "optional", "annotate", "typevar", "atom", "wrap"]
    if x == BOOL:
        opts += ["to_int"] * 8
    if x == INT:
        opts += ["to_bool"] * 8
    if x[0] == "gen" and x[1] is tuple:
        opts += ["tuple_add", "tuple_drop", "tuple_var"] * 2
    if x[0] == "gen" and x[1] in (list, set):
        opts += ["swap_ls", "to_array"]
    if x[0] == "union":
        opts += ["drop_member"] * 3
    if x[0] == "annot":
        opts += ["unwrap"] * 3
    o = rng.choice(opts)
    if o == "to_int":
        return INT
    if o == "to_bool":
        return BOOL
    if o == "any":
        return ANY
    if o == "union":
        return union(x, rand_atom(rng), style=rng.choice("U|")) if rng.random() < 0.5 else union(rand_atom(rng), x)
    if o == "optional":
        return optional(x)
    if o == "annotate":
        return annot(x, rng.choice(METAS))
    if o == "typevar":
        return tv(rng.choice("TSNL"))
    if o == "atom":
        return rand_atom(rng)
    if o == "wrap":
        return rng.choice([gen(list, x), gen(tuple, x), gen(tuple, x, ELL), array(x), gen(set, x)])
    if o == "tuple_add":
        return x if x[2][-1:] == (ELL,) else ("gen", tuple, x[2] + (rand_atom(rng),))
    if o == "tuple_drop":
        return x if x[2][-1:] == (ELL,) or len(x[2]) < 2 else ("gen", tuple, x[2][:-1])
    if o == "tuple_var":
        return ("gen", tuple, x[2][:1]) if x[2][-1:] == (ELL,) else ("gen", tuple, (x[2][0], ELL))
    if o == "swap_ls":
        return ("gen", set if x[1] is list else list, x[2])
    if o == "to_array":
        return array(x[2][0])
    if o == "drop_member":
        ms = list(x[1])
        ms.pop(rng.randrange(len(ms)))
        return ms[0] if len(ms) == 1 else ("union", tuple(ms), x[2])
    if o == "unwrap":
        return elem(x) if is_array(x) else x[1]
    return x


def mutate(rng, t, maxdepth=3):
    for _ in range(6):
        path = rng.choice(_paths(t))
        new = norm(_set(t, path, _alter(rng, _get(t, path))))
        if depth(new) <= maxdepth and canon(new) != canon(t):
            return new
    return t


def _flip_leaf(rng, t):
    """Flip one int<->bool leaf (None if the term has none)."""
    leaves = [p for p in _paths(t) if _get(t, p) in (INT, BOOL)]
    if not leaves:
        return None
    p = rng.choice(leaves)
    return norm(_set(t, p, BOOL if _get(t, p) == INT else INT))


def rand_bounded(rng, maxdepth):
    t = norm(rand_term(rng, maxdepth))
    while depth(t) > maxdepth:
        t = norm(rand_term(rng, maxdepth))
    return t


def related(rng, a, maxdepth=3):
    """A term related to `a`: itself, a bool/int flip, 1-3 local edits, or (rarely) an unrelated one."""
    u = rng.random()
    if u < 0.06:
        return a
    if u < 0.2:
        return rand_bounded(rng, maxdepth)
    if u < 0.45:
        b = _flip_leaf(rng, a)
        if b is not None:
            return b
    b = a
    for _ in range(rng.choice([1, 1, 1, 2, 2, 3])):
        b = mutate(rng, b, maxdepth)
    return b


def _asym_pair(rng, maxdepth):
    """F[..x..] vs F[..x'..] where x' flips one int/bool leaf of x, F drawn uniformly from the constructors."""
    for _ in range(20):
        x = rand_bounded(rng, maxdepth - 1)
        y = _flip_leaf(rng, x)
        if y is not None and canon(x) != canon(y):
            break
    else:
        x, y = INT, BOOL
    other = rng.choice([STR, FLOAT, BYTES, gen(list, STR)])
    f = rng.choice(ASYM_CONSTRUCTORS)
    wrap = {
        "list": lambda t: gen(list, t), "set": lambda t: gen(set, t),
        "tuple": lambda t: rng_tuple(t), "dict": lambda t: rng_dict(t),
        "union": lambda t: union(t, other), "optional": lambda t: optional(t),
        "annotated": lambda t: annot(t, 7), "array": lambda t: array(t),
    }
    tup = rng.choice(["1", "2a", "2b", "var"])
    dk = rng.random() < 0.3
    rng_tuple = lambda t: {"1": gen(tuple, t), "2a": gen(tuple, t, other), "2b": gen(tuple, other, t),  # noqa: E731
                           "var": gen(tuple, t, ELL)}[tup]
    rng_dict = lambda t: gen(dict, t, other) if dk else gen(dict, other, t)  # noqa: E731
    if f in ("union", "optional") and (x[0] == "union" or y[0] == "union"):
        f = "list"
    return norm(wrap[f](x)), norm(wrap[f](y))


def rand_pair(rng, maxdepth=3):
    """Ordered pair of normalised terms, usually related by a few local edits (so that both verdicts are common)."""
    if rng.random() < 0.4:
        a, b = _asym_pair(rng, maxdepth)
    else:
        a = rand_bounded(rng, min(maxdepth, rng.choice([1, 2, 2, 3, 3])))
        b = related(rng, a, maxdepth)
    return (a, b) if rng.random() < 0.5 else (b, a)


def asym_tags(a, b, path=frozenset(), out=None):
    """Constructors under which the pair has a bool/int subclass asymmetry at corresponding positions."""
    out = set() if out is None else out
    if {a, b} == {INT, BOOL}:
        out.update(path or {"top"})
    elif a[0] == "gen" and b[0] == "gen" and a[1] is b[1] and len(a[2]) == len(b[2]):
        for x, y in zip(a[2], b[2]):
            asym_tags(x, y, path | {a[1].__name__}, out)
    elif a[0] == "union" and b[0] == "union" and len(a[1]) == len(b[1]):
        for x, y in zip(a[1], b[1]):
            asym_tags(x, y, path | {kind(a)}, out)
    elif a[0] == "annot" and b[0] == "annot":
        if elem(a) is not None and elem(b) is not None:
            asym_tags(elem(a), elem(b), path | {"array"}, out)
        else:
            asym_tags(a[1], b[1], path | {"annotated"}, out)
    elif a[0] == "annot" and elem(a) is None:
        asym_tags(a[1], b, path | {"annotated"}, out)
    elif b[0] == "annot" and elem(b) is None:
        asym_tags(a, b[1], path | {"annotated"}, out)
    return out


ASYM_CONSTRUCTORS = ["list", "set", "tuple", "dict", "union", "optional", "annotated", "array"]


# ------------------------------------------------------------------ enumerated universes (all ordered pairs)
def pick_small():
    return [gen(list, INT), gen(list, BOOL), array(INT), array(BOOL), optional(INT), optional(BOOL),
            annot(BOOL, 7), gen(tuple, INT, ELL)]


def universe(level):
    """Deterministic list of distinct normalised terms: level 1 = depth <= 1 (114), level 2 = depth <= 2 (~450)."""
    atoms = [INT, BOOL, FLOAT, STR, BYTES, NONE, ANY]
    tvs = [tv(n) for n in "TSNL"]
    small = [INT, BOOL, STR, ANY]
    tiny = [INT, BOOL, ANY]
    unary = [lambda x: gen(list, x), lambda x: gen(set, x), lambda x: gen(tuple, x), lambda x: gen(tuple, x, ELL),
             lambda x: optional(x), lambda x: annot(x, 7), lambda x: array(x)]
    out = list(atoms) + tvs
    d1u = [f(x) for f in unary for x in atoms + [tv("N"), tv("T")]]
    out += d1u
    out += [gen(tuple, x, y) for x in small for y in small]
    out += [gen(dict, x, y) for x in small for y in small]
    u5 = [INT, BOOL, STR, NONE, ANY]
    out += [union(u5[i], u5[j]) for i in range(5) for j in range(i + 1, 5)]
    out += [annot(INT, 11), annot(BOOL, 7, 11), gen(tuple, INT, BOOL, STR)]
    if level >= 2:
        d1t = [f(x) for f in unary for x in tiny + [STR]]
        out += [f(x) for f in unary for x in d1t]
        out += [gen(dict, x, y) for x in [gen(tuple, INT), gen(tuple, BOOL), annot(INT, 7)] for y in pick_small()]
        out += [gen(tuple, x, y) for x in pick_small() for y in pick_small()]
        out += [union(x, y) for x in pick_small()[:4] for y in pick_small()[4:]]
        pick = [gen(list, INT), gen(list, BOOL), annot(BOOL, 7), annot(INT, 7), array(INT), array(BOOL),
                optional(BOOL), gen(tuple, INT, ELL), gen(tuple, BOOL)]
        out += [gen(tuple, x, y) for x in pick[:6] for y in [INT, BOOL]]
        out += [gen(tuple, y, x) for x in pick[:4] for y in [INT, BOOL]]
        out += [gen(dict, STR, x) for x in pick] + [gen(dict, x, INT) for x in pick[2:6]]
        out += [union(x, y) for x in pick for y in [STR, NONE]]
        out += [union(x, tv("N")) for x in pick[:4]] + [gen(list, tv("S")), gen(dict, tv("T"), tv("N")),
                                                         array(tv("N")), annot(tv("S"), 7), optional(tv("N"))]
        out += [gen(tuple, x, INT, z) for x in [INT, BOOL] for z in [BOOL, STR]]
    res, seen = [], set()
    for t in out:
        t = norm(t)
        c = canon(t)
        if c not in seen:
            seen.add(c)
            res.append(t)
    return res


# ------------------------------------------------------------------ literal triples of /repo/tests/test_typing.py
def test_triples(Array, ArrayElementType, NoAnnotation):  # noqa: N803
    """(incoming, required, expected) transcribed from tests/test_typing.py (is_type_compatible asserts that do not
    need a forward-reference memo, an Unresolvable or a dtype *instance* as a generic argument)."""
    from collections.abc import Mapping, Sequence
    from numbers import Number
    from typing import Annotated, TypeVar, Union

    class _NDArray:
        # npt.NDArray[X] as the tests' numpy spelt it: ndarray[Any, dtype[X]] (in numpy >= 2.3 npt.NDArray is a PEP 695
        # TypeAliasType, which get_origin does not unfold - outside the grammar; the two bare-`NDArray` triples are skipped)
        def __getitem__(self, x):
            return np.ndarray[Any, np.dtype[x]]

    class npt:  # noqa: N801
        NDArray = _NDArray()

    ObjArray = np.ndarray[Any, np.dtype[np.object_]]  # noqa: N806
    T = TypeVar("T")
    S = TypeVar("S", str, int)
    N = TypeVar("N", bound=Number)  # noqa: N806
    R = TypeVar("R", bound=Sequence[T])
    Q = TypeVar("Q", bound=Sequence[S])
    A = TypeVar("A", bound=Any)
    M = TypeVar("M")
    K = TypeVar("K")
    y, n = True, False
    return [
        (list[int], list[int], y), (list[int], list[float], n), (int | str, Union[str, float], n),
        (int | str, str | float, n), (int, float, n), (Any, int, n), (int, Any, y),
        (dict[int, dict[str, str]], dict[int, dict[str, Any]], y), (dict[int, str], dict, y),
        (dict, dict[int, str], y), (dict[int, str], Annotated[dict[int, str], float], y),
        # union
        (int | str, str, n), (int | str, int, n), (int, int | str, y), (str, int | str, y), (int | str, float, n),
        (dict[int, str], dict[int, str | int], y),
        # numpy
        (npt.NDArray[np.int64], npt.NDArray[np.int_], y), (npt.NDArray[np.float32], npt.NDArray[np.int64], n),
        (np.int32, np.int64, n), (np.float64, np.int32, n),
        (npt.NDArray[Any], npt.NDArray[Any], y), (npt.NDArray[np.int32], npt.NDArray[Any], y),
        # standard edge cases
        (list[list[int]], list[list[int]], y), (list[list[int]], list[list[float]], n),
        (list[list[int]], list[list[Any]], y), (list[Any], list[int], n), (list[int], list[Any], y),
        (dict[int, str], dict[Any, Any], y), (dict[int, str], dict[int, float], n), (dict[int, str], list[int], n),
        # union edge cases
        (int | str | float, str | float | int, y), (int | str, int | str | float, y), (int | str, float | complex, n),
        (Union[int | str, float], Union[str, int, float], y), (Union[int | str, float], Union[float, complex], n),
        (int, int | complex, y), (complex, int | complex, y), (int | str, Any, y),
        # numpy edge cases
        (npt.NDArray[np.int32], npt.NDArray[np.int32], y), (npt.NDArray[np.float64], npt.NDArray[np.int32], n),
        (np.int64, np.generic, y), (np.float64, np.generic, y), (np.int64, np.int_, y),
        # abc
        (list[int], Sequence[int], y), (dict[str, int], Mapping[str, int], y), (Sequence[int], list[int], n),
        (Mapping[str, int], dict[str, int], n),
        (list, Sequence, y), (list[int], list, y), (list, list[int], y), (dict[str, int], dict, y),
        (dict, dict[str, int], y),
        # None
        (None, None, y), (None, Any, y), (int, None, n), (None, int, n), (None, str, n),
        # NoAnnotation
        (Any, NoAnnotation, y), (NoAnnotation, Any, y), (NoAnnotation, NoAnnotation, y), (int, NoAnnotation, y),
        (NoAnnotation, int, y),
        # Array
        (Array[int], ObjArray, y), (Array[int], np.ndarray[Any, np.dtype[np.int_]], n),
        (Array[int], Annotated[ObjArray, ArrayElementType[int]], y),
        (Array[int], Annotated[ObjArray, ArrayElementType[float]], n), (Array[int], Annotated[ObjArray, float], y),
        (Annotated[ObjArray, ArrayElementType[int]], Annotated[list[int], ArrayElementType[int]], n),
        (Annotated[ObjArray, ArrayElementType[int], float], Annotated[ObjArray, ArrayElementType[int], int], y),
        (Annotated[ObjArray, ArrayElementType[int], float], Annotated[ObjArray, int, ArrayElementType[int]], y),
        # TypeVars (required position)
        (list[str], T, y), (list[str], list[T], y), (list[T], list[T], y), (list[list[str]], list[list[T]], y),
        (list[list[str]], list[tuple[T]], n), (list[str], tuple[T], n),
        (str, S, y), (int, S, y), (float, S, n), (list[str], list[S], y), (list[float], list[S], n),
        (int, N, y), (float, N, y), (str, N, n), (list[int], list[N], y), (list[str], list[N], n),
        (dict[str, list[int]], dict[T, list[N]], y), (dict[str, list[str]], dict[T, list[N]], n),
        (tuple[list[int], dict[str, float]], tuple[list[N], dict[S, N]], y),
        (tuple[list[int], dict[str, str]], tuple[list[N], dict[S, N]], n),
        (Union[int, str], Union[T, S], y), (Union[int, float], Union[N, T], y), (Union[int, str], Union[N, T], y),
        (list[list[int]], R, y), (tuple[list[str], list[int]], tuple[R, R], y), (list[dict[str, int]], R, y),
        (list[dict[str, int]], Q, n),
        (int, A, y), (str, A, y), (list[int], A, y), (dict[str, float], A, y),
        (dict[str, int], dict[M, K], y), (dict[int, list[str]], dict[M, list[K]], y),
        (dict[int, tuple[str, int]], dict[M, list[K]], n),
        # TypeVar in incoming position (documented "always compatible": one-sided)
        (T, list[str], y), (list[T], list[str], y),
    ]
