"""Driver: ./check <ID> [--tier quick|thorough] [--replay PATH] [--inline] [--limit N]"""
from __future__ import annotations

import argparse
import importlib
import json
import os
import sys
import time
import warnings

from . import boot, report, shards


def main(argv=None):
    ap = argparse.ArgumentParser()
    ap.add_argument("prop")
    ap.add_argument("--tier", default=os.environ.get("VERIF_TIER") or "quick", choices=["quick", "thorough"])
    ap.add_argument("--replay")
    ap.add_argument("--inline", action="store_true", help="run cases in this process (debugging)")
    ap.add_argument("--limit", type=int, default=0)
    ap.add_argument("--only", help="substring filter on the JSON of case descriptors")
    a = ap.parse_args(argv)
    prop = a.prop.upper()
    warnings.simplefilter("ignore")
    boot.repo_is_importable()
    mod = importlib.import_module(f"checks.{prop.lower()}")
    seed = boot.SEED
    if a.replay:
        with open(a.replay) as f:
            rp = json.load(f)
        res = mod.run_case(rp["case"])
        print(json.dumps(res, indent=1, default=repr)[:20000])
        known = report.load_known()
        bad = [v for v in res.get("violations") or [] if report.match_known(prop, v.get("sig", ""), known) is None]
        for v in bad:
            print(f"VIOLATION property={prop} replay={a.replay}")
        return 1 if bad else 0
    t0 = time.monotonic()
    descs = mod.plan(a.tier, seed)
    if a.only:
        descs = [d for d in descs if a.only in json.dumps(d)]
    if a.limit:
        descs = descs[: a.limit]
    if hasattr(mod, "setup"):
        mod.setup(a.tier, seed)
    if a.inline:
        results = shards.run_inline(mod.run_case, descs)
    else:
        results = shards.run_cases(mod.run_case, descs, deadline=getattr(mod, "DEADLINE", 120),
                                   chunk_size=getattr(mod, "CHUNK", None),
                                   nproc=getattr(mod, "NPROC", None), progress=True)
    agg = report.Aggregate(prop)
    for d, r in zip(descs, results):
        agg.add(d, r)
    floors, extra = [], {}
    if hasattr(mod, "finalize"):
        out = mod.finalize(agg, a.tier, seed)
        if out:
            floors, extra = out
    if a.limit or a.only:
        floors = []
    return report.finish(prop, mod.LEVEL, a.tier, seed, agg, mod.RULE, time.monotonic() - t0,
                         floors=floors, extra=extra, assumptions=getattr(mod, "ASSUMPTIONS", []),
                         exhaustive=getattr(mod, "EXHAUSTIVE", {}).get(a.tier, False) if isinstance(getattr(mod, "EXHAUSTIVE", None), dict) else False)


def _guarded():
    try:
        return main()
    except SystemExit:
        raise
    except BaseException:  # noqa: BLE001  a failure of the harness itself is never a verdict on pipefunc
        import traceback

        traceback.print_exc()
        print(f"INCONCLUSIVE property={(sys.argv[1] if len(sys.argv) > 1 else '?').upper()} reason=harness failure (see traceback)")
        return 2


if __name__ == "__main__":
    code = 2
    try:
        code = _guarded()
    except SystemExit as e:
        code = e.code if isinstance(e.code, int) else 1
    finally:
        try:  # nothing of this run may outlive it (an orphan holding our stdout would block whoever captures it)
            from vlib import procs

            sys.stdout.flush()
            procs.kill_leftovers()
        except Exception:  # noqa: BLE001
            pass
    sys.exit(code)
