"""Independent, deliberately naive model of MapSpec for check C08.

Nothing in here imports pipefunc.  A spec is the JSON-able AST
    {"ins": [[name, [axis, ...]], ...], "outs": [[name, [axis, ...]], ...]}
where an axis is an index name or None (printed ':').
"""
from __future__ import annotations

import itertools
import re

COLON = None

# ---------------------------------------------------------------- printing


def render_array(name, axes):
    return f"{name}[{', '.join(':' if a is None else a for a in axes)}]"


def render(ast):
    ins = ", ".join(render_array(n, ax) for n, ax in ast["ins"]) or "..."
    outs = ", ".join(render_array(n, ax) for n, ax in ast["outs"])
    return f"{ins} -> {outs}"


INNER_WS = ["", "", " ", "  ", "\t", " \t "]
OUTER_WS = ["", "", " ", "   ", "\t", "\n", " \n  "]


def render_ws(ast, rng):
    """Same text with whitespace inserted only where the grammar has it: inside brackets around the
    indices and their commas, around the commas between arrays, around '->', and at both ends."""
    def iw():
        return rng.choice(INNER_WS)

    def ow():
        return rng.choice(OUTER_WS)

    def arr(name, axes):
        body = ",".join(iw() + (":" if a is None else a) + iw() for a in axes)
        return f"{name}[{body}]"

    def side(arrs):
        if not arrs:
            return "..."
        return ",".join(ow() + arr(n, ax) + ow() for n, ax in arrs)

    return ow() + side(ast["ins"]) + ow() + "->" + ow() + side(ast["outs"]) + ow()


def norm(s):
    """Whitespace-insensitive form that never glues two words together."""
    s = re.sub(r"\s+", " ", s).strip()
    return re.sub(r"\s*([^\w\s])\s*", r"\1", s)


def words(s):
    return re.findall(r"\w+", s)


# ---------------------------------------------------------------- well-formedness


def name_ok(n):
    parts = n.split(".")
    return 1 <= len(parts) <= 2 and all(p.isidentifier() for p in parts)


def index_ok(a):
    return a is None or (isinstance(a, str) and a.isidentifier())


def named(axes):
    return [a for a in axes if a is not None]


def malformation(ast):
    """None if the AST is a well-formed MapSpec, else the first of the malformation classes named by the
    property: bad-array-name, bad-index-name, colon-in-output, outputs-differ, unused-index."""
    for n, ax in ast["ins"] + ast["outs"]:
        if not name_ok(n):
            return "bad-array-name"
    for n, ax in ast["ins"] + ast["outs"]:
        for a in ax:
            if not index_ok(a):
                return "bad-index-name"
    for n, ax in ast["outs"]:
        if any(a is None for a in ax):
            return "colon-in-output"
    first = ast["outs"][0][1]
    for n, ax in ast["outs"][1:]:
        if list(ax) != list(first):
            return "outputs-differ"
    for n, ax in ast["ins"]:
        for a in named(ax):
            if a not in first:
                return "unused-index"
    return None


def detail(ast, reason):
    """Malformation class plus the trigger predicate that separates mechanisms inside the class."""
    if reason == "colon-in-output":
        first = any(a is None for a in ast["outs"][0][1])
        return reason + ("/in-first-output" if first else "/only-in-later-output")
    if reason == "outputs-differ":
        a, b = ast["outs"][0][1], ast["outs"][1][1]
        if len(a) != len(b):
            return reason + "/rank"
        return reason + ("/order" if sorted(map(str, a)) == sorted(map(str, b)) else "/names")
    return reason


def in_domain(ast):
    """Within the generator's domain: no repeated index inside an array, no repeated array name, rank >= 1."""
    names = [n for n, _ in ast["ins"] + ast["outs"]]
    if len(set(names)) != len(names):
        return False
    for n, ax in ast["ins"] + ast["outs"]:
        if not ax or len(set(named(ax))) != len(named(ax)):
            return False
    return True


# ---------------------------------------------------------------- strict reader of spec text


class _Other(Exception):
    pass


def _side(t, allow_dots):
    if t.strip() == "...":
        if allow_dots:
            return []
        raise _Other("dots-as-output")
    items, state, name, body = [], "name", "", ""
    for c in t:
        if state == "name":
            if c == "[":
                state, body = "idx", ""
            elif c in ",]":
                raise _Other("array-without-brackets")
            else:
                name += c
        elif state == "idx":
            if c == "]":
                state = "after"
            elif c == "[":
                raise _Other("nested-bracket")
            else:
                body += c
        else:
            if c == ",":
                items.append((name, body))
                state, name = "name", ""
            elif not c.isspace():
                raise _Other("text-after-bracket")
    if state != "after":
        raise _Other("unterminated")
    items.append((name, body))
    out = []
    for raw, body in items:
        nm = raw.lstrip()
        if nm != nm.rstrip():
            raise _Other("space-before-bracket")
        if "\n" in body or "\r" in body:
            raise _Other("newline-in-brackets")
        out.append([nm, [None if p.strip() == ":" else p.strip() for p in body.split(",")]])
    return out


def classify(s):
    """('well', ast) | ('malformed', reason) | ('other', why).

    'well'      the text is a well-formed spec of the grammar with whitespace only where the grammar allows it
    'malformed' the text is structurally a spec but falls in one of the malformation classes of the property
    'other'     anything else (no demand beyond: raise, or return the spec that the text spells)"""
    parts = s.split("->")
    if len(parts) != 2:
        return ("other", "arrow-count")
    try:
        ast = {"ins": _side(parts[0], True), "outs": _side(parts[1], False)}
    except _Other as e:
        return ("other", str(e))
    bad = malformation(ast)
    if bad:
        return ("malformed", detail(ast, bad))
    if not in_domain(ast):
        return ("other", "repeated-name-or-index")
    return ("well", ast)


# ---------------------------------------------------------------- denotation


def out_axes(ast):
    return list(ast["outs"][0][1])


def external(ast):
    used = {a for _, ax in ast["ins"] for a in named(ax)}
    return [a for a in out_axes(ast) if a in used]


def internal(ast):
    ext = external(ast)
    return [a for a in out_axes(ast) if a not in ext]


def model_shape(ast, input_shapes, internal_shape):
    """('ok', shape, mask) or ('raise', why)."""
    for n, ax in ast["ins"]:
        if len(input_shapes[n]) != len(ax):
            return ("raise", "rank")
    shape, mask, k = [], [], 0
    for a in out_axes(ast):
        dims = [input_shapes[n][ax.index(a)] for n, ax in ast["ins"] if a in ax]
        if dims:
            if len(set(dims)) != 1:
                return ("raise", "zip")
            shape.append(dims[0])
            mask.append(True)
        else:
            shape.append(internal_shape[k])
            mask.append(False)
            k += 1
    return ("ok", tuple(shape), tuple(mask))


def positions(S):
    """All positions of an array of shape S in row-major order."""
    return list(itertools.product(*[range(d) for d in S]))


def key_templates(ast):
    ext = external(ast)
    return [(n, [None if a is None else ext.index(a) for a in ax]) for n, ax in ast["ins"]]


def model_input_keys(templ, pos):
    return {n: tuple(slice(None) if p is None else pos[p] for p in ps) for n, ps in templ}


def model_rename(ast, ren):
    return {"ins": [[ren.get(n, n), list(ax)] for n, ax in ast["ins"]],
            "outs": [[ren.get(n, n), list(ax)] for n, ax in ast["outs"]]}


def model_add_axes(ast, new):
    return {"ins": [[n, list(ax) + list(new)] for n, ax in ast["ins"]],
            "outs": [[n, list(ax) + list(new)] for n, ax in ast["outs"]]}


def model_consistency(asts):
    """None if every array name has one rank and at most one index name per position over all specs,
    else 'rank' / 'name'."""
    occ = {}
    for ast in asts:
        for n, ax in ast["ins"] + ast["outs"]:
            occ.setdefault(n, []).append(list(ax))
    why = None
    for n, lst in occ.items():
        if len({len(ax) for ax in lst}) > 1:
            return "rank"
        for p in range(len(lst[0])):
            if len({ax[p] for ax in lst if ax[p] is not None}) > 1:
                why = "name"
    return why


def model_axes(asts):
    """{array: axes}; None if some position of some array is ':' everywhere (outside the compared domain)."""
    occ = {}
    for ast in asts:
        for n, ax in ast["ins"] + ast["outs"]:
            occ.setdefault(n, []).append(list(ax))
    res = {}
    for n, lst in occ.items():
        axes = []
        for p in range(len(lst[0])):
            nm = {ax[p] for ax in lst if ax[p] is not None}
            if len(nm) != 1:
                return None
            axes.append(nm.pop())
        res[n] = tuple(axes)
    return res


# ---------------------------------------------------------------- generators

ARRAY_NAMES = ["x", "y", "z", "a", "b", "c", "data", "x_1", "_p", "out", "foo.bar", "s.x", "a1.b2", "res.val_2",
               "X", "arr0"]
INDEX_POOLS = [["i", "j", "k", "l"], ["i", "j", "k", "l"], ["idx", "j2", "_k", "n_1"], ["a", "b", "c", "d"],
               ["i0", "i1", "i2", "i3"]]


def random_spec(rng, max_in=3, max_out_rank=4):
    pool = list(rng.choice(INDEX_POOLS))
    rng.shuffle(pool)
    r_out = rng.choices([1, 2, 3, 4], [2, 5, 5, 2])[0]
    r_out = min(r_out, max_out_rank)
    oax = pool[:r_out]
    n_in = rng.choices([0, 1, 2, 3], [1, 4, 5, 4])[0]
    n_in = min(n_in, max_in)
    n_out = rng.choice([1, 1, 2])
    names = rng.sample(ARRAY_NAMES, n_in + n_out)
    ins = []
    for q in range(n_in):
        rank = rng.choice([1, 1, 2, 2, 3])
        if q > 0 and rng.random() < 0.35:
            cand = [a for a in named(ins[0][1])]  # favour an index shared with the first input (zip)
        else:
            cand = []
        avail = list(oax)
        rng.shuffle(avail)
        for a in cand:
            avail.remove(a)
            avail.insert(0, a)
        axes = []
        for _ in range(rank):
            if avail and rng.random() > 0.25:
                axes.append(avail.pop(0))
            else:
                axes.append(None)
        rng.shuffle(axes)
        ins.append([names[q], axes])
    outs = [[names[n_in + q], list(oax)] for q in range(n_out)]
    return {"ins": ins, "outs": outs}


_ENUM = None


def enumerate_small():
    """Every spec with <= 2 inputs ('a', 'b') of rank <= 2 over the index names i, j, k (each axis an index name
    or ':', no name twice in an array), every ordered choice of output indices that contains the used ones
    (further names are output-only axes), one or two outputs ('y', 'z')."""
    global _ENUM
    if _ENUM is not None:
        return _ENUM
    names = ["i", "j", "k"]
    opts = [None] + names
    arrs = []
    for r in (1, 2):
        for ax in itertools.product(opts, repeat=r):
            if len(set(named(ax))) == len(named(ax)):
                arrs.append(list(ax))
    in_sets = [[]] + [[a] for a in arrs] + [[a, b] for a in arrs for b in arrs]
    out = []
    for axs in in_sets:
        used = []
        for ax in axs:
            for a in named(ax):
                if a not in used:
                    used.append(a)
        for r in range(max(1, len(used)), 4):
            for oax in itertools.permutations(names, r):
                if not all(u in oax for u in used):
                    continue
                for n_out in (1, 2):
                    out.append({"ins": [[nm, list(ax)] for nm, ax in zip("ab", axs)],
                                "outs": [[nm, list(oax)] for nm in "yz"[:n_out]]})
    _ENUM = out
    return out


# ---------------------------------------------------------------- malformation operators on the AST

BAD_NAME_TEMPLATES = ["{n}-{m}", "1{n}", "{n} {m}", "{n}.{m}.c", "", "{n}.", ".{n}", "{n}..{m}", "{n}-", "-{n}",
                      "{n}!", "{n}.1", "1", "{n}+{m}", "'{n}'", "{n}.{m} {m}", "{n}:"]
BAD_INDEX_TEMPLATES = ["{n}-{m}", "1{n}", "{n} {m}", "{n}.{m}", "", "{n}!", "-{n}", "2", "{n}:", "{n}'"]


def _copy(ast):
    return {"ins": [[n, list(ax)] for n, ax in ast["ins"]], "outs": [[n, list(ax)] for n, ax in ast["outs"]]}


def _fresh_index(ast):
    usedn = {a for _, ax in ast["ins"] + ast["outs"] for a in named(ax)}
    return next(c for c in ["q", "r", "s", "t", "u"] if c not in usedn)


def _fresh_array(ast):
    usedn = {n for n, _ in ast["ins"] + ast["outs"]}
    return next(c for c in ["w", "v", "u2", "t9"] if c not in usedn)


def malform(ast, op, rng):
    """Apply malformation operator `op`; returns (variant, ast') or None when not applicable."""
    m = _copy(ast)
    if op == "unused-index":
        variants = ["replace", "append", "new-input"]
        if len(out_axes(ast)) >= 2 and external(ast):
            variants.append("drop-from-outputs")
        var = rng.choice(variants)
        q = _fresh_index(ast)
        if var in ("replace", "append") and not m["ins"]:
            var = "new-input"
        if var == "replace":
            n, ax = rng.choice(m["ins"])
            ax[rng.randrange(len(ax))] = q
        elif var == "append":
            n, ax = rng.choice(m["ins"])
            ax.insert(rng.randrange(len(ax) + 1), q)
        elif var == "new-input":
            m["ins"].append([_fresh_array(ast), [q] if rng.random() < 0.5 else [out_axes(ast)[0], q]])
        else:
            a = rng.choice(external(ast))
            for n, ax in m["outs"]:
                ax.remove(a)
        return var, m
    if op == "colon-in-output":
        variants = ["replace-all", "append-all", "append-first"]
        if len(m["outs"]) == 2:
            variants += ["append-second", "insert-second", "replace-first-only"]
        var = rng.choice(variants)
        if var == "replace-all":
            internal_only = internal(ast)
            # replacing an axis the inputs use would also be 'unused-index'; prefer an output-only axis
            p = out_axes(ast).index(rng.choice(internal_only)) if internal_only else rng.randrange(len(out_axes(ast)))
            for n, ax in m["outs"]:
                ax[p] = None
        elif var == "append-all":
            for n, ax in m["outs"]:
                ax.append(None)
        elif var == "append-first":
            m["outs"][0][1].append(None)
        elif var == "append-second":
            m["outs"][1][1].append(None)
        elif var == "insert-second":
            m["outs"][1][1].insert(rng.randrange(len(m["outs"][1][1])), None)
        else:
            m["outs"][0][1][rng.randrange(len(out_axes(ast)))] = None
        return var, m
    if op == "outputs-differ":
        if len(m["outs"]) < 2:
            m["outs"].append([_fresh_array(ast), list(out_axes(ast))])
        variants = ["extra", "replaced"]
        if len(out_axes(ast)) >= 2:
            variants += ["dropped", "permuted"]
        var = rng.choice(variants)
        k = rng.choice([0, 1]) if var in ("extra", "permuted") else 1
        ax = m["outs"][k][1]
        q = _fresh_index(ast)
        if var == "extra":
            ax.insert(rng.randrange(len(ax) + 1), q)
        elif var == "replaced":
            internal_only = internal(ast)
            p = ax.index(rng.choice(internal_only)) if internal_only else rng.randrange(len(ax))
            ax[p] = q
        elif var == "dropped":
            internal_only = internal(ast)
            ax.remove(rng.choice(internal_only) if internal_only else rng.choice(ax))
        else:
            i, j = rng.sample(range(len(ax)), 2)
            ax[i], ax[j] = ax[j], ax[i]
        return var, m
    if op == "bad-array-name":
        side = rng.choice(["ins", "outs"]) if m["ins"] else "outs"
        arr = rng.choice(m[side])
        t = rng.choice(BAD_NAME_TEMPLATES)
        base = arr[0].split(".")[-1]
        arr[0] = t.format(n=base, m="y9")
        return f"{side}:{t}", m
    if op == "bad-index-name":
        a = rng.choice(out_axes(ast))
        t = rng.choice(BAD_INDEX_TEMPLATES)
        new = t.format(n=a, m="j9")
        for n, ax in m["ins"] + m["outs"]:
            for p, x in enumerate(ax):
                if x == a:
                    ax[p] = new
        return t, m
    raise ValueError(op)


MALFORM_OPS = ["unused-index", "colon-in-output", "outputs-differ", "bad-array-name", "bad-index-name"]


# ---------------------------------------------------------------- text mutation operators

ALPHABET = "abxyij01_ .,:[]->'\"!-\n"
ARROWS = ["=>", "-", ">", "- >", "->->", " -> -> ", "", "<-", "-->", "→"]


def mutate_text(rng, ast, base):
    """One mutation of the spec text `base` (which spells `ast`).  Returns (operator, text)."""
    op = rng.choice(["bad-array-name", "bad-index-name", "space-before-bracket", "newline-in-brackets",
                     "char-delete", "char-insert", "char-replace", "swap-adjacent", "arrow", "wrap",
                     "drop-bracket", "splice-word", "char-delete", "char-insert"])
    arrays = ast["ins"] + ast["outs"]
    if op == "arrow" and "->" not in base:
        op = "char-insert"
    if op in ("space-before-bracket", "newline-in-brackets", "drop-bracket") and ("[" not in base or "]" not in base):
        op = "char-insert"
    if op == "bad-array-name":
        n, _ = rng.choice(arrays)
        if n + "[" not in base:
            return "char-delete", base[1:]
        t = rng.choice(BAD_NAME_TEMPLATES)
        new = t.format(n=n.split(".")[-1], m="y9")
        i = base.index(n + "[")
        return op, base[:i] + new + base[i + len(n):]
    if op == "bad-index-name":
        occ = [m_.start() for m_ in re.finditer(r"(?<=[\[,\s])(\w+)(?=\s*[,\]])", base)]
        if occ:
            i = rng.choice(occ)
            j = i
            while j < len(base) and (base[j].isalnum() or base[j] == "_"):
                j += 1
            t = rng.choice(BAD_INDEX_TEMPLATES)
            return op, base[:i] + t.format(n=base[i:j], m="j9") + base[j:]
        op = "char-delete"
    if op == "space-before-bracket":
        occ = [i for i, c in enumerate(base) if c == "["]
        i = rng.choice(occ)
        return op, base[:i] + rng.choice([" ", "  ", "\t"]) + base[i:]
    if op == "newline-in-brackets":
        occ = [i for i, c in enumerate(base) if c in "[,]" and base[:i + 1].count("[") > base[:i + 1].count("]") or c == "]"]
        i = rng.choice(occ)
        if base[i] == "]":
            return op, base[:i] + "\n" + base[i:]
        return op, base[:i + 1] + "\n" + base[i + 1:]
    if op == "char-delete":
        i = rng.randrange(len(base))
        return op, base[:i] + base[i + 1:]
    if op == "char-insert":
        i = rng.randrange(len(base) + 1)
        return op, base[:i] + rng.choice(ALPHABET) + base[i:]
    if op == "char-replace":
        i = rng.randrange(len(base))
        return op, base[:i] + rng.choice(ALPHABET) + base[i + 1:]
    if op == "swap-adjacent":
        i = rng.randrange(max(1, len(base) - 1))
        return op, base[:i] + base[i + 1:i + 2] + base[i] + base[i + 2:]
    if op == "arrow":
        i = base.index("->")
        return op, base[:i] + rng.choice(ARROWS) + base[i + 2:]
    if op == "wrap":
        a, b = rng.choice([("'", "'"), ('"', '"'), ("(", ")"), ("`", "`"), ("", ","), (",", ""), ("", ";"),
                           ("f", ""), ("", " z")])
        return op, a + base + b
    if op == "drop-bracket":
        occ = [i for i, c in enumerate(base) if c in "[]"]
        i = rng.choice(occ)
        return op, base[:i] + base[i + 1:]
    # splice-word: a stray word somewhere between tokens
    occ = [i for i, c in enumerate(base) if c in " ,"] or [0]
    i = rng.choice(occ)
    return "splice-word", base[:i] + " " + rng.choice(["w", "q7", "and", "x"]) + " " + base[i:]


# ---------------------------------------------------------------- sets of specs


def random_spec_set(rng):
    """2-3 specs sharing arrays; the later ones reuse arrays of the earlier ones unchanged, with some axes
    replaced by ':' (consistent) or with rank / index-name changes (inconsistent)."""
    first = random_spec(rng, max_out_rank=3)
    specs = [first]
    tags = []
    for k in range(rng.choice([1, 1, 2])):
        src = rng.choice(specs)
        pool = [a for a in src["ins"] + src["outs"]]
        rng.shuffle(pool)
        ins = []
        for n, ax in pool[: rng.choice([1, 1, 2])]:
            ax = list(ax)
            var = rng.choices(["same", "colon", "fill", "rank+", "rank-", "rename", "swap"],
                              [4, 3, 2, 1, 1, 2, 1])[0]
            if var == "colon":
                for p in range(len(ax)):
                    if rng.random() < 0.5:
                        ax[p] = None
            elif var == "fill":
                free = [c for c in ["m", "n", "o"] if c not in ax]
                for p in range(len(ax)):
                    if ax[p] is None and free and rng.random() < 0.7:
                        ax[p] = free.pop(0)
            elif var == "rank+":
                ax.insert(rng.randrange(len(ax) + 1), rng.choice([None, "m"]))
            elif var == "rank-":
                if len(ax) >= 2:
                    ax.pop(rng.randrange(len(ax)))
            elif var == "rename":
                p = rng.randrange(len(ax))
                ax[p] = next(c for c in ["m", "n", "o", "p", "q"] if c not in ax)
            elif var == "swap":
                if len(ax) >= 2:
                    i, j = rng.sample(range(len(ax)), 2)
                    ax[i], ax[j] = ax[j], ax[i]
            tags.append(var)
            ins.append([n, ax])
        used = []
        for n, ax in ins:
            for a in named(ax):
                if a not in used:
                    used.append(a)
        rng.shuffle(used)
        if not used or rng.random() < 0.2:
            used.append("g")
        oname = f"o{k}" if rng.random() < 0.7 else f"sc.o{k}"
        specs.append({"ins": ins, "outs": [[oname, used]]})
    return specs, tags
