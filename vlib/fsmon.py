"""File-system monitor, crash injector and content snapshots (DESIGN 3.5).

Installed in a forked child before the workload.  One *logical* event stream results:
mkdir, create(path) (file exists, empty), data(path, n), close(path), unlink, rmdir, rename, rmtree.
The injector os._exit(77)s *before performing* event number `crash_at`; for a `data` event with a
tear offset it first writes that prefix with os.write (the on-disk state of a process killed in
the middle of the write).  Python-level write() calls are buffered by the proxy, because a killed
process loses userspace buffers: they are not observable crash points.
"""
from __future__ import annotations

import builtins
import hashlib
import io
import json
import os
import sys
import threading

EXIT_CRASH = 77


class FsMon:
    def __init__(self, root, crash_at=None, tear=None, trace_path=None, crash_children=False):
        self.crash_children = crash_children  # die in a forked worker process instead of the installing process
        self.root = os.path.realpath(root)
        self.n = 0
        self.crash_at = crash_at
        self.tear = tear
        self.pid = os.getpid()
        self.trace_fd = os.open(trace_path, os.O_WRONLY | os.O_CREAT | os.O_APPEND, 0o644) if trace_path else None
        self.active = True

    def inside(self, p):
        try:
            p = os.path.realpath(os.fspath(p))
        except TypeError:
            return False
        return p == self.root or p.startswith(self.root + os.sep)

    def event(self, kind, path, extra=None, payload=None, fd=None):
        if not self.active or not self.inside(path):
            return
        self.n += 1
        rel = os.path.relpath(os.path.realpath(os.fspath(path)), self.root)
        if kind == "rename":
            extra = os.path.relpath(os.path.realpath(os.fspath(extra)), self.root) if self.inside(extra) else str(extra)
        # (actor = process/thread: an event is recorded BEFORE it is performed, so when the process is killed at another
        #  thread's event, the last recorded event of every other thread may or may not have been performed)
        rec = [self.n, kind, rel, extra, f"{os.getpid()}/{threading.get_ident()}"]
        hit = self.crash_at == self.n and ((os.getpid() == self.pid) != self.crash_children)
        if hit:
            rec.append("CRASH" if self.tear is None else f"TEAR{self.tear}")
        if self.trace_fd is not None:
            os.write(self.trace_fd, (json.dumps(rec) + "\n").encode())
        if hit:
            if kind == "data" and self.tear is not None and payload is not None:
                os.write(fd, payload[: self.tear])
            os._exit(EXIT_CRASH)

    def install(self):
        mon = self

        def at(args):
            # os.remove / os.rmdir / os.mkdir audit args are (path, [mode,] dir_fd); shutil.rmtree deletes
            # relative to a directory descriptor, so resolve it to see crash points inside a tree removal
            path, dir_fd = args[0], args[-1]
            if isinstance(dir_fd, int) and dir_fd >= 0 and not os.path.isabs(os.fspath(path)):
                try:
                    return os.path.join(os.readlink(f"/proc/self/fd/{dir_fd}"), os.fspath(path))
                except OSError:
                    return path
            return path

        def hook(ev, args):
            if ev == "os.mkdir":
                mon.event("mkdir", at(args))
            elif ev == "os.remove":
                mon.event("unlink", at(args))
            elif ev == "os.rmdir":
                mon.event("rmdir", at(args))
            elif ev == "os.rename":
                mon.event("rename", args[0], args[1])
            elif ev == "shutil.rmtree":
                mon.event("rmtree", args[0])

        sys.addaudithook(hook)
        _open = io.open

        class W:
            def __init__(s, f, path):
                s._f, s._p, s._buf = f, path, []

            def write(s, b):
                s._buf.append(b if isinstance(b, (bytes, bytearray, memoryview)) else b.encode())
                return len(b)

            def writelines(s, lines):
                for x in lines:
                    s.write(x)

            def flush(s):
                pass

            def close(s):
                if s._f.closed:
                    return
                data = b"".join(bytes(x) for x in s._buf)
                s._f.flush()
                mon.event("data", s._p, len(data), payload=data, fd=s._f.fileno())
                raw = s._f if "b" in s._f.mode else s._f.buffer
                raw.write(data)
                raw.flush()
                mon.event("close", s._p)
                s._f.close()

            def __enter__(s):
                return s

            def __exit__(s, *a):
                s.close()

            def __getattr__(s, n):
                return getattr(s._f, n)

        def open2(file, mode="r", *a, **k):
            w = isinstance(file, (str, os.PathLike)) and any(c in mode for c in "wax+") and mon.inside(file)
            if w:
                mon.event("create", file, mode)
            f = _open(file, mode, *a, **k)
            return W(f, os.fspath(file)) if w else f

        io.open = open2
        builtins.open = open2
        return self


def read_trace(path):
    out = []
    if os.path.exists(path):
        with open(path) as f:
            for line in f:
                try:
                    out.append(json.loads(line))
                except ValueError:
                    pass
    return out


def complete_files(events):
    """Relative paths whose content was completely on disk after the performed events.
    `events` = trace of a crashed child; its last record is the event that was NOT performed
    (marked CRASH/TEAR).  A path is complete if its data event was performed (direct write) or it was
    the target of a performed rename from a complete file; unlink / rename-away / re-create clear it."""
    done = set()
    crash = next((e for e in events if len(e) > 5), None)
    uncertain = set()
    if crash is not None and crash[1] != "end":
        # a real kill: the last recorded event of every OTHER actor was possibly not performed - only its invalidating
        # effects are applied (a path counts as complete only if it certainly is)
        last_of = {}
        for idx, e in enumerate(events):
            if len(e) > 5:
                break
            last_of[e[4]] = idx
        uncertain = {idx for actor, idx in last_of.items() if actor != crash[4]}
    for idx, ev in enumerate(events):
        n, kind, rel, extra = ev[:4]
        if len(ev) > 5:
            break
        if idx in uncertain:
            if kind == "rename":
                done.discard(rel)
                done.discard(extra)
            elif kind == "rmtree":
                done = {d for d in done if not (d == rel or d.startswith(rel + os.sep) or rel == ".")}
            else:
                done.discard(rel)
            continue
        if kind == "create":
            done.discard(rel)
        elif kind == "data":
            done.add(rel)
        elif kind == "rename":
            if rel in done:
                done.discard(rel)
                done.add(extra)
            else:
                done.discard(extra)
        elif kind in ("unlink",):
            done.discard(rel)
        elif kind == "rmtree":
            done = {d for d in done if not (d == rel or d.startswith(rel + os.sep) or rel == ".")}
    return done


def snapshot(root):
    """path -> sha256 (files) / 'DIR' for every entry under root (mtimes ignored)."""
    snap = {}
    if not os.path.exists(root):
        return {"<absent>": "1"}
    for d, dirs, files in os.walk(root):
        for x in dirs:
            snap[os.path.relpath(os.path.join(d, x), root)] = "DIR"
        for x in files:
            p = os.path.join(d, x)
            try:
                with open(p, "rb") as f:
                    snap[os.path.relpath(p, root)] = hashlib.sha256(f.read()).hexdigest()
            except OSError as e:
                snap[os.path.relpath(p, root)] = f"ERR{e.errno}"
    return snap


def snapshot_diff(a, b):
    out = []
    for k in sorted(set(a) | set(b)):
        if a.get(k) != b.get(k):
            out.append((k, "added" if k not in a else ("removed" if k not in b else "changed")))
    return out
