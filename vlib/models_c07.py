"""Reference model for C07: a masked n-d object array (numpy object array of the FULL shape +
written flags), plus the canonical renderings used to compare it with a storage backend.

Deliberately naive and independent of pipefunc: nothing here imports pipefunc.

Geometry: external shape S (rank e), internal shape I (rank n), shape_mask M of length e+n with
exactly e True entries; full shape F interleaves S and I according to M.
"""
from __future__ import annotations

import itertools

import numpy as np


# ------------------------------------------------------------------ geometry helpers
def interleave(mask, ext, inn):
    """Walk the mask left to right, taking the next external entry on True, internal on False."""
    ext, inn = list(ext), list(inn)
    out = []
    for m in mask:
        out.append(ext.pop(0) if m else inn.pop(0))
    assert not ext and not inn
    return tuple(out)


def pattern(mask):
    return "".join("T" if m else "F" for m in mask) or "-"


def geom_class(shape, internal, mask):
    """Coarse geometry class used in violation signatures."""
    parts = []
    if len(shape) == 0:
        parts.append("ext-rank0")
    if not internal:
        parts.append("no-internal")
    else:
        first_f = mask.index(False)
        parts.append("internal-last" if all(not m for m in mask[first_f:]) else "internal-not-last")
    return "+".join(parts)


def decode_key(k):
    """JSON form -> python key tuple: int stays int, [a, b, c] becomes slice(a, b, c), {"np": "int64", "v": n} becomes a
    numpy integer scalar of that type (which is not an `int` instance but is a valid index)."""
    def one(c):
        if isinstance(c, list):
            return slice(*c)
        if isinstance(c, dict):
            return getattr(np, c["np"])(c["v"])
        return c
    return tuple(one(c) for c in k)


def encode_key(key):
    return [[c.start, c.stop, c.step] if isinstance(c, slice) else int(c) for c in key]


def show_key(key):
    """Valid python source of the key tuple (usable inside a[...] and dump(...))."""
    return repr(tuple(key))


def key_class(key):
    if any(isinstance(c, slice) for c in key):
        return "slice-key"
    np_ = "np-" if any(isinstance(c, np.integer) for c in key) else ""
    if any(c < 0 for c in key):
        return np_ + "neg-key"
    return np_ + "int-key"


# ------------------------------------------------------------------ the model
class Undetermined(Exception):
    """The property statement does not determine the outcome of this operation."""


class RefArray:
    def __init__(self, shape, internal, mask):
        self.S, self.I, self.M = tuple(shape), tuple(internal), tuple(bool(m) for m in mask)
        assert len(self.M) == len(self.S) + len(self.I) and sum(self.M) == len(self.S)
        self.F = interleave(self.M, self.S, self.I)
        self.vals = np.empty(self.F, dtype=object)
        self.written = np.zeros(self.F, dtype=bool)
        # linear index i <-> i-th external index in row-major (lexicographic) order
        self.ext_indices = list(itertools.product(*[range(s) for s in self.S]))
        self.int_indices = list(itertools.product(*[range(s) for s in self.I]))

    @staticmethod
    def _check(key, sizes):
        if not isinstance(key, tuple) or len(key) != len(sizes):
            raise IndexError("wrong-rank")
        for k, s in zip(key, sizes):
            if not isinstance(k, slice) and not (-s <= k < s):
                raise IndexError("out-of-range")

    # -- writes
    def dump(self, key, value):
        """Every external element selected by `key` receives `value` (whole)."""
        self._check(key, self.S)
        sel = [list(range(s)[k]) if isinstance(k, slice) else [range(s)[k]] for k, s in zip(key, self.S)]
        n = 0
        for ext in itertools.product(*sel):
            for inn in self.int_indices:
                fi = interleave(self.M, ext, inn)
                self.vals[fi] = value[inn] if self.I else value
                self.written[fi] = True
            n += 1
        return n

    # -- reads
    def getitem(self, key):
        self._check(key, self.F)
        return self.vals[key], self.written[key]

    def ext_written(self, ext):
        return bool(self.written[interleave(self.M, ext, (0,) * len(self.I))])

    def ext_value(self, ext):
        fi = interleave(self.M, ext, (slice(None),) * len(self.I))
        return self.vals[fi]

    def n_written(self):
        return sum(self.ext_written(e) for e in self.ext_indices)

    def written_linear(self):
        return [self.ext_written(e) for e in self.ext_indices]


# ------------------------------------------------------------------ canonical renderings
MASKED = "masked"


def render(x, strict=False):
    """Canonical rendering of something a backend returned: "masked" if the object is np.ma.masked
    or its mask bit is set, otherwise the element; arrays become ["arr", shape, flat elements].
    strict (used for to_array results): an element of a masked array counts as masked only through its MASK BIT - the masked
    constant sitting in the data under a cleared bit is an element that NumPy (and `.mask`) reports as present."""
    if x is np.ma.masked:
        return MASKED
    if isinstance(x, np.ma.MaskedArray):
        data = np.asarray(np.ma.getdata(x))
        bits = np.ma.getmaskarray(x)
        if strict:
            return ["arr", list(x.shape),
                    [MASKED if b else ("masked-constant-under-a-cleared-mask-bit" if d is np.ma.masked else render(d))
                     for d, b in zip(_flat(data), _flat(bits))]]
        return ["arr", list(x.shape),
                [MASKED if (b or d is np.ma.masked) else render(d)
                 for d, b in zip(_flat(data), _flat(bits))]]
    if isinstance(x, np.ndarray):
        return ["arr", list(x.shape), [render(d) for d in _flat(x)]]
    if isinstance(x, np.generic):
        return x.item()
    if isinstance(x, (list, tuple)):
        return [type(x).__name__, [render(d) for d in x]]
    return x


def _flat(a):
    if a.ndim == 0:
        return [a[()]]
    if a.dtype == object:
        return [a[i] for i in np.ndindex(a.shape)]
    return list(a.flat)


def render_expected(vals, written):
    """Rendering of the model's view (values, written flags) of the same read."""
    if isinstance(vals, np.ndarray) and isinstance(written, np.ndarray):
        return ["arr", list(vals.shape),
                [render(v) if w else MASKED for v, w in zip(_flat(vals), _flat(written))]]
    return render(vals) if written else MASKED


def render_missing(x):
    """Rendering of a `mask` result: shape + which entries say "missing" (mask bit set or truthy)."""
    if isinstance(x, np.ma.MaskedArray):
        data = np.asarray(np.ma.getdata(x))
        bits = np.ma.getmaskarray(x)
        return ["missing", list(x.shape), [bool(b) or bool(d) for d, b in zip(_flat(data), _flat(bits))]]
    if isinstance(x, np.ndarray):
        return ["missing", list(x.shape), [bool(d) for d in _flat(x)]]
    return ["not-an-array", repr(type(x))]
