"""Small helpers shared by the checks."""
from __future__ import annotations

import collections
import contextlib
import io
import os
import shutil
import tempfile
import traceback

from . import boot


def exc_sig(e, prefix="exc"):
    """Mechanism signature of an exception: type + innermost pipefunc frame (function name)."""
    tb = traceback.extract_tb(e.__traceback__)
    where = "?"
    root = os.path.realpath(boot.REPO)
    for fr in tb:
        fn = os.path.realpath(fr.filename)
        if fn.startswith(root + os.sep):
            where = f"{os.path.basename(fn)}:{fr.name}"
    return f"{prefix}:{type(e).__name__}@{where}"


def exc_msg(e, n=300):
    return f"{type(e).__name__}: {str(e)[:n]}"


@contextlib.contextmanager
def quiet():
    with contextlib.redirect_stdout(io.StringIO()):
        yield


@contextlib.contextmanager
def tmpdir(prefix="c"):
    d = tempfile.mkdtemp(prefix=prefix, dir=boot.scratch())
    try:
        yield d
    finally:
        shutil.rmtree(d, ignore_errors=True)


def multiset_diff(got, exp):
    g, e = collections.Counter(got), collections.Counter(exp)
    return sorted((g - e).elements()), sorted((e - g).elements())


class V:
    """Collector of violations / counters for one case."""

    def __init__(self):
        self.violations = []
        self.counters = collections.Counter()
        self.classes = set()
        self.class_counts = collections.Counter()  # for batches: number of *cases* hitting a class

    def bad(self, sig, msg, **witness):
        if len(self.violations) < 8:
            self.violations.append({"sig": sig, "msg": msg, "witness": witness})

    def hit(self, classes):
        """Batch-friendly class accounting: call once per case with that case's classes."""
        for c in classes:
            self.class_counts[c] += 1

    def count(self, k, n=1):
        self.counters[k] += n

    def result(self, **kw):
        r = {"status": "ok", "violations": self.violations, "counters": dict(self.counters),
             "classes": sorted(self.classes), "class_counts": dict(self.class_counts)}
        r.update(kw)
        return r


class Hang(BaseException):
    """Raised in the main thread by `deadline` when the guarded block does not return in time."""


@contextlib.contextmanager
def deadline(seconds):
    """Bounded-progress watchdog for one call (nests inside the shard runner's per-case alarm)."""
    import signal
    import time

    def onalarm(signum, frame):
        raise Hang(f"no return within {seconds}s")

    old = signal.signal(signal.SIGALRM, onalarm)
    remaining = signal.alarm(int(seconds))
    t0 = time.monotonic()
    try:
        yield
    finally:
        signal.alarm(0)
        signal.signal(signal.SIGALRM, old)
        if remaining:
            signal.alarm(max(1, int(remaining - (time.monotonic() - t0))))
