"""Runtime-monitoring verification library for pipefunc (see /verif/DESIGN.md)."""
