"""Fork-based shard runner.

The parent imports pipefunc once, then forks up to NPROC workers; each worker runs a chunk of
cases and appends one JSON line per case to its own file (BEGIN marker first, so a worker that
dies identifies the case that killed it).  multiprocessing.Pool is deliberately not used: it
hangs when a child dies.
"""
from __future__ import annotations

import faulthandler
import json
import os
import signal
import sys
import time
import traceback

from . import boot


class CaseTimeout(BaseException):
    pass


def _alarm(signum, frame):
    raise CaseTimeout()


def _run_chunk(run_case, chunk, path, deadline):
    """Child body."""
    try:
        faulthandler.enable()
    except Exception:
        pass
    signal.signal(signal.SIGALRM, _alarm)
    with open(path, "a", buffering=1) as out:
        for idx, desc in chunk:
            out.write(json.dumps({"begin": idx}) + "\n")
            out.flush()
            t0 = time.monotonic()
            signal.alarm(int(deadline))
            try:
                res = run_case(desc)
            except CaseTimeout:
                res = {"status": "inconclusive", "reason": f"case deadline {deadline}s expired",
                       "trace": "".join(traceback.format_stack())[-1500:]}
            except BaseException as e:  # noqa: BLE001  harness error, not a verdict on pipefunc
                res = {"status": "harness_error", "reason": f"{type(e).__name__}: {e}",
                       "trace": traceback.format_exc()[-3000:]}
            finally:
                signal.alarm(0)
            res["idx"] = idx
            res["wall"] = round(time.monotonic() - t0, 4)
            try:
                line = json.dumps(res, default=repr)
            except Exception as e:  # noqa: BLE001
                line = json.dumps({"idx": idx, "status": "harness_error", "reason": f"unserialisable result: {e}"})
            out.write(line + "\n")
            out.flush()
    sys.stdout.flush()
    sys.stderr.flush()
    os._exit(0)


def _read(path):
    done, begun = {}, []
    if os.path.exists(path):
        with open(path) as f:
            for line in f:
                line = line.strip()
                if not line:
                    continue
                try:
                    rec = json.loads(line)
                except ValueError:
                    continue
                if "begin" in rec:
                    begun.append(rec["begin"])
                else:
                    done[rec["idx"]] = rec
    return done, begun


def run_cases(run_case, descs, *, deadline=120, chunk_size=None, nproc=None, progress=None):
    """Run run_case(desc) for every desc, in forked workers.  Returns list of result dicts
    (one per desc, in order).  A case whose worker died twice is reported with
    status 'crash'; a case that exceeded the deadline with status 'inconclusive'."""
    nproc = nproc or boot.NPROC
    n = len(descs)
    if n == 0:
        return []
    if chunk_size is None:
        chunk_size = max(1, min(50, n // (nproc * 4) or 1))
    work = [(i, d) for i, d in enumerate(descs)]
    chunks = [work[i:i + chunk_size] for i in range(0, n, chunk_size)]
    chunks.reverse()
    sdir = os.path.join(boot.scratch(), f"shards-{os.getpid()}-{time.monotonic_ns()}")
    os.makedirs(sdir)
    results = {}
    running = {}  # pid -> (chunk, path, t_start, attempt)
    retry = []  # (chunk, attempt)
    sys.stdout.flush()
    sys.stderr.flush()
    last_print = time.monotonic()

    def _term(signum, frame):  # a killed driver must not leave worker process groups behind
        raise SystemExit(143)

    old_term = signal.signal(signal.SIGTERM, _term)
    try:
        return _loop(run_case, chunks, retry, running, results, nproc, sdir, deadline, n, progress, last_print)
    finally:
        signal.signal(signal.SIGTERM, old_term)
        for p in list(running):
            for sig_target in (p,):
                try:
                    os.killpg(sig_target, signal.SIGKILL)
                except (ProcessLookupError, PermissionError):
                    pass
        try:
            from . import procs
            procs.kill_leftovers(only_orphans=True)
        except Exception:
            pass
        try:
            import shutil
            shutil.rmtree(sdir, ignore_errors=True)
        except Exception:
            pass


def _loop(run_case, chunks, retry, running, results, nproc, sdir, deadline, n, progress, last_print):
    serial = 0
    while chunks or running or retry:
        while (chunks or retry) and len(running) < nproc:
            if retry:
                chunk, attempt = retry.pop()
            else:
                chunk, attempt = chunks.pop(), 0
            serial += 1
            path = os.path.join(sdir, f"s{serial}.jsonl")
            pid = os.fork()
            if pid == 0:
                try:
                    os.setpgid(0, 0)  # own process group: stragglers (manager servers, pool workers) are reaped with it
                    _run_chunk(run_case, chunk, path, deadline)
                finally:
                    os._exit(70)
            running[pid] = (chunk, path, time.monotonic(), attempt)
        # reap
        try:
            pid, status = os.waitpid(-1, os.WNOHANG)
        except ChildProcessError:
            pid, status = 0, 0
        if pid == 0:
            now = time.monotonic()
            for p, (chunk, path, t0, attempt) in list(running.items()):
                if now - t0 > deadline * len(chunk) + 30:
                    try:
                        os.kill(p, signal.SIGKILL)
                    except ProcessLookupError:
                        pass
            if progress and now - last_print > 20:
                last_print = now
                print(f"  .. {len(results)}/{n} cases", flush=True)
            time.sleep(0.01)
            continue
        if pid not in running:
            continue  # some grandchild reparented to us; ignore
        chunk, path, t0, attempt = running.pop(pid)
        try:
            os.killpg(pid, signal.SIGKILL)  # manager / pool processes the worker left behind
        except (ProcessLookupError, PermissionError):
            pass
        if os.WIFSIGNALED(status):  # a killed worker may leave children in process groups of their own
            try:
                from . import procs
                procs.kill_leftovers(only_orphans=True)
            except Exception:
                pass
        done, begun = _read(path)
        results.update(done)
        missing = [(i, d) for i, d in chunk if i not in done]
        if missing:
            # the first begun-but-unfinished case killed the worker
            culprit = next((i for i in begun if i not in done), None)
            rest = [(i, d) for i, d in missing if i != culprit]
            if culprit is not None:
                cd = next(d for i, d in chunk if i == culprit)
                if attempt == 0 or len(chunk) > 1:
                    retry.append(([(culprit, cd)], 1))  # re-run alone once
                else:
                    results[culprit] = {"idx": culprit, "status": "crash",
                                        "reason": f"worker died twice (wait status {status})"}
            if rest:
                retry.append((rest, 0))
    return [results.get(i, {"idx": i, "status": "harness_error", "reason": "lost"}) for i in range(n)]


def run_inline(run_case, descs):
    out = []
    for i, d in enumerate(descs):
        t0 = time.monotonic()
        try:
            r = run_case(d)
        except Exception as e:  # noqa: BLE001
            r = {"status": "harness_error", "reason": f"{type(e).__name__}: {e}", "trace": traceback.format_exc()[-3000:]}
        r["idx"] = i
        r["wall"] = round(time.monotonic() - t0, 4)
        out.append(r)
    return out
