"""A user-defined storage backend for C03: a DictArray that insists on a run folder (requires_serialization=True).
Importable (module-level class) so that instances can be pickled to pool workers."""
from pipefunc.map._storage_array._dict import DictArray


class VerifDictOnDisk(DictArray):
    storage_id = "verif_dict_on_disk"
    requires_serialization = True
