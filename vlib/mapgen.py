"""MapSpec case generator and denotational oracle (DESIGN 3.3).

A case is a plain JSON-able description (our own AST).  `build` turns it into real PipeFuncs
whose bodies are probes; `oracle` evaluates the description directly and never touches
pipefunc, so a change in pipefunc cannot move the expectation with it.
"""
from __future__ import annotations

import itertools
import random

import numpy as np

from . import probes

AX = ["i", "j", "k", "l"]


# ------------------------------------------------------------------ generation
def gen_case(rng, max_funcs=4, allow_internal=True, allow_reduce=True, allow_nomapspec=True,
             allow_tuple=True, max_roots=3, allow_autogen=False, sizes=None, allow_bound=False, allow_renames=False, allow_int_arrays=False, allow_picker=False):
    sizes = sizes or {a: rng.randint(1, 3) for a in AX}
    arrays = {}  # name -> tuple of axis names (fixed by producer)
    roots = {}
    for r in range(rng.randint(1, max_roots)):
        rank = rng.choice([0, 1, 1, 1, 2, 2, 3])
        axes = tuple(rng.sample(AX, rank))
        name = f"x{r}"
        arrays[name] = axes
        kind = "scalar" if rank == 0 else ("list" if rank == 1 and rng.random() < 0.5 else "ndarray")
        if kind == "ndarray" and allow_int_arrays and rng.random() < 0.4:
            kind = "ndarray-int"  # a numeric (int64) array instead of an object array of strings
        elif kind == "list" and allow_int_arrays and rng.random() < 0.3:
            kind = "range"  # a plain Python range object as 1-d input
        roots[name] = {"axes": list(axes), "kind": kind}
    funcs = []
    for fi in range(rng.randint(1, max_funcs)):
        avail = list(arrays)
        params = rng.sample(avail, rng.randint(1, min(3, len(avail))))
        nout = rng.choice([1, 1, 1, 2]) if allow_tuple else 1
        outnames = [f"y{fi}"] if nout == 1 else [f"y{fi}_{o}" for o in range(nout)]
        use_mapspec = (rng.random() < 0.85) or not allow_nomapspec
        modes, in_specs, used_axes = {}, [], []
        if use_mapspec:
            for p in params:
                axes = arrays[p]
                if not axes:
                    modes[p] = "whole"
                    continue
                choices = ["elem", "elem", "elem"] + (["partial", "whole", "fullcolon"] if allow_reduce else [])
                m = rng.choice(choices)
                if m == "whole":
                    modes[p] = "whole"
                    continue
                if m == "elem":
                    spec_axes = list(axes)
                elif m == "fullcolon":
                    spec_axes = [None] * len(axes)
                else:
                    spec_axes = [a if rng.random() < 0.5 else None for a in axes]
                modes[p] = list(spec_axes)
                in_specs.append((p, spec_axes))
                for a in spec_axes:
                    if a is not None and a not in used_axes:
                        used_axes.append(a)
        out_axes = list(used_axes)
        rng.shuffle(out_axes)
        internal = []
        if use_mapspec and allow_internal and rng.random() < 0.3 and len(out_axes) < 3:
            free = [a for a in AX if a not in out_axes]
            for a in rng.sample(free, rng.randint(1, min(2, 3 - len(out_axes)))):
                out_axes.insert(rng.randint(0, len(out_axes)), a)
                internal.append(a)
        if use_mapspec and not out_axes:
            use_mapspec = False
        if use_mapspec:
            ins = ", ".join(f"{p}[{', '.join(':' if a is None else a for a in ax)}]" for p, ax in in_specs) or "..."
            outs = ", ".join(f"{o}[{', '.join(out_axes)}]" for o in outnames)
            ms = f"{ins} -> {outs}"
        else:
            ms = None
            modes = {p: "whole" for p in params}
            out_axes, internal = [], []
            if allow_autogen and rng.random() < 0.45:
                # a function WITHOUT MapSpec that returns an array which later MapSpecs index by name: pipefunc
                # autogenerates '... -> y[axes]' for it from the consumers' axis names
                out_axes = rng.sample(AX, rng.randint(1, 2))
                internal = list(out_axes)
        internal_shape = [sizes[a] for a in out_axes if a in internal]
        ret_list = rng.random() < 0.5
        if len(internal_shape) >= 2 and len(internal) == len(out_axes):
            # a generator's return value is handed to consumers as is; a nested list cannot be
            # indexed with an index tuple, so rank>=2 generators return an ndarray (domain restriction)
            ret_list = False
        funcs.append({
            "name": f"f{fi}", "params": params, "outs": outnames, "mapspec": ms, "modes": modes,
            "out_axes": list(out_axes), "internal": list(internal), "internal_shape": internal_shape,
            "ret_list": ret_list,
            "ishape_via": rng.choice(["pipefunc", "pipefunc", "map", "both"]) if internal_shape else None,
        })
        for o in outnames:
            arrays[o] = tuple(out_axes)
    if allow_renames:
        # the function's own parameter names differ from the names used in the pipeline / MapSpec (PipeFunc(renames=...))
        for f in funcs:
            if rng.random() < 0.5:
                f["iparams"] = [f"a{k}" for k in range(len(f["params"]))]
    if allow_picker:
        # a multi-output function that returns {output name: value} and carries a custom output_picker
        for f in funcs:
            if len(f["outs"]) > 1 and rng.random() < 0.5:
                f["picker"] = True
    if allow_bound:
        # bound values on parameters that are delivered whole (a bound parameter may not appear in a MapSpec)
        for f in funcs:
            for p in f["params"]:
                if f["modes"].get(p, "whole") == "whole" and p in roots and rng.random() < 0.45:
                    f.setdefault("bound", {})[p] = f"B{f['name']}{p}"
    # an array-returning function without MapSpec needs at least one consumer that indexes it through a MapSpec;
    # otherwise it is just a value: make it a scalar function again
    for f in funcs:
        if f["mapspec"] is None and f["out_axes"]:
            named = any(isinstance(g["modes"].get(o), list) for g in funcs for o in f["outs"] if g["mapspec"])
            if named:
                f["autogen"] = True
            else:
                f["out_axes"], f["internal"], f["internal_shape"], f["ishape_via"] = [], [], [], None
    used = {p for f in funcs for p in f["params"] if p not in f.get("bound", {})}
    roots = {k: v for k, v in roots.items() if k in used}
    return {"sizes": sizes, "roots": roots, "funcs": funcs}


def case_from_seed(seed, index, **kw):
    return gen_case(random.Random(f"mapgen:{seed}:{index}"), **kw)


# ------------------------------------------------------------------ inputs
def make_inputs(case):
    inputs = {}
    for name, r in case["roots"].items():
        axes = r["axes"]
        if not axes:
            inputs[name] = f"{name}v"
            continue
        shape = tuple(case["sizes"][a] for a in axes)
        if r["kind"] == "ndarray-int":
            base = 1000 * (1 + int(name[1:]) if name[1:].isdigit() else 7)
            inputs[name] = (base + np.arange(int(np.prod(shape)), dtype=np.int64)).reshape(shape)
            continue
        if r["kind"] == "range":
            base = 1000 * (1 + int(name[1:]) if name[1:].isdigit() else 7)
            inputs[name] = range(base, base + shape[0])
            continue
        arr = np.empty(shape, dtype=object)
        for idx in np.ndindex(*shape):
            arr[idx] = name + "<" + ".".join(map(str, idx)) + ">"
        inputs[name] = arr.tolist() if r["kind"] == "list" else arr
    return inputs


def variant_inputs(inputs, tag="~2"):
    """Same shapes and kinds, other values (strings get a suffix, numbers an offset)."""
    def ren(x):
        if isinstance(x, str):
            return x + tag
        if isinstance(x, (int, np.integer)):
            return x + 500
        if isinstance(x, list):
            return [ren(y) for y in x]
        if isinstance(x, range):
            return range(x.start + 500, x.stop + 500)
        if isinstance(x, np.ndarray) and x.dtype != object:
            return x + 500
        a = np.empty(x.shape, dtype=object)
        for idx in np.ndindex(*x.shape):
            a[idx] = ren(x[idx])
        return a
    return {k: ren(x) for k, x in inputs.items()}


def array_axes(case):
    axes = {n: tuple(r["axes"]) for n, r in case["roots"].items()}
    for f in case["funcs"]:
        for o in f["outs"]:
            axes[o] = tuple(f["out_axes"])
    return axes


def fixable_axes(case):
    """(axes admissible in fixed_indices, axes reduced somewhere) - the harness's own analysis of the case."""
    ax = dict(array_axes(case))
    # a root that no MapSpec ever mentions is a plain value for pipefunc, not an array with axes
    mentioned = {p for f in case["funcs"] if f["mapspec"] for p, m in f["modes"].items() if isinstance(m, list)}
    mentioned |= {o for f in case["funcs"] if f["mapspec"] for o in f["outs"]}
    for r in case["roots"]:
        if r not in mentioned:
            ax[r] = ()
        else:
            # a position of a root array carries a name only if some MapSpec names it there
            named_pos = {}
            for f in case["funcs"]:
                m = f["modes"].get(r) if f["mapspec"] else None
                if isinstance(m, list):
                    for k, a in enumerate(m):
                        if a is not None:
                            named_pos[k] = a
            ax[r] = tuple(named_pos.get(k, f"<unnamed{k}>") for k in range(len(ax[r])))
    reduced = set()      # axis names reduced somewhere
    for f in case["funcs"]:
        for p in f["params"]:
            a = ax.get(p, ())
            if not a:
                continue
            m = f["modes"].get(p, "whole") if f["mapspec"] is not None else "whole"
            if m == "whole":
                reduced.update(a)
            else:
                reduced.update(x for x, s in zip(a, m) if s is None)
    root_axes = {a for r in case["roots"] for a in ax[r] if not a.startswith("<")}
    reduced = {a for a in reduced if not a.startswith("<")}
    named = {a for f in case["funcs"] if f["mapspec"] for a in f["out_axes"] if a not in f["internal"]}
    internal = {a for f in case["funcs"] for a in f["internal"]}
    cand = sorted((root_axes & named) - reduced - internal)
    return cand, sorted(reduced & (root_axes | named))


# ------------------------------------------------------------------ building real pipefunc objects
def _with_none(f, fault):
    if not f.get("always_none"):
        return fault
    return {**(fault or {}), "none": "*"}


def build_funcs(case, log=None, fault=None, tag=None, cache=None, extra=None):
    """Return list of PipeFunc.  `cache`: set of function names with cache=True.
    `extra`: per function name dict of extra PipeFunc kwargs."""
    from pipefunc import PipeFunc

    out = []
    for f in case["funcs"]:
        iparams = f.get("iparams") or f["params"]
        fn = probes.make_probe(f["name"], iparams, len(f["outs"]), log=log,
                               internal_shape=f["internal_shape"], ret_list=f["ret_list"],
                               fault=_with_none(f, (fault or {}).get(f["name"]) if fault else None), tag=tag,
                               as_dict=(f["outs"] if f.get("picker") else None))
        kw = {}
        if f.get("picker"):
            kw["output_picker"] = probes.pick_member
        if f["internal_shape"] and f.get("ishape_via") == "both":
            # declared on the PipeFunc with ANOTHER shape; the value passed to map(internal_shapes=...) is documented to win
            kw["internal_shape"] = tuple((d - 1 if d >= 2 else d + 1) for d in f["internal_shape"])
        elif f["internal_shape"] and f.get("ishape_via") not in ("map", "plain"):
            kw["internal_shape"] = tuple(f["internal_shape"])
        if cache and f["name"] in cache:
            kw["cache"] = True
        if f.get("bound"):
            kw["bound"] = dict(f["bound"])
        if f.get("iparams"):
            kw["renames"] = {ip: p for ip, p in zip(f["iparams"], f["params"])}
        if extra and f["name"] in extra:
            kw.update(extra[f["name"]])
        outn = tuple(f["outs"]) if len(f["outs"]) > 1 else f["outs"][0]
        out.append(PipeFunc(fn, outn, mapspec=f["mapspec"], **kw))
    return out


def with_plain_arrays(case, rng, p=0.5):
    """A copy of the case in which functions WITHOUT MapSpec whose single output no MapSpec indexes return a plain ndarray
    (rank 1-3) instead of a string: just a value for pipefunc (ishape_via='plain': nobody is told a shape)."""
    indexed = {q for f in case["funcs"] if f["mapspec"] for q, m in f["modes"].items() if isinstance(m, list)}
    funcs = []
    for f in case["funcs"]:
        if f["mapspec"] is None and len(f["outs"]) == 1 and not f["internal_shape"] and f["outs"][0] not in indexed and not f.get("autogen") \
                and rng.random() < p:
            f = {**f, "internal_shape": rng.choice([[2], [3], [2, 3], [2, 2], [2, 1, 2]]), "ishape_via": "plain", "ret_list": False}
        funcs.append(f)
    return {**case, "funcs": funcs}


def internal_shapes_arg(case):
    d = {}
    for f in case["funcs"]:
        if f["internal_shape"] and f.get("ishape_via") in ("map", "both"):
            for o in f["outs"]:
                d[o] = tuple(f["internal_shape"])
    return d or None


def build_pipeline(case, log=None, **kw):
    from pipefunc import Pipeline

    pkw = kw.pop("pipeline_kwargs", {})
    return Pipeline(build_funcs(case, log=log, **kw), **pkw)


# ------------------------------------------------------------------ oracle
def oracle(case, inputs=None, none_terms=()):
    """Returns (env, calls): env name -> np object array | scalar term; calls: function name ->
    list of (ext_index_tuple, term) expected probe calls."""
    sizes = case["sizes"]
    inputs = make_inputs(case) if inputs is None else inputs
    axes = array_axes(case)
    env, calls = {}, {}
    for n, v in inputs.items():
        env[n] = _obj(v) if axes.get(n) else v
    for f in case["funcs"]:
        nout = len(f["outs"])
        calls[f["name"]] = []
        bnd = f.get("bound") or {}
        if f["mapspec"] is None:
            kw = {p: (bnd[p] if p in bnd else env[p]) for p in f["params"]}
            t = _term(f, kw)
            calls[f["name"]].append(((), t))
            for o, on in enumerate(f["outs"]):
                base = t if nout == 1 else f"{t}#{o}"
                if f["internal_shape"]:
                    arr = np.empty(tuple(f["internal_shape"]), dtype=object)
                    for idx in np.ndindex(*arr.shape):
                        arr[idx] = base + "@" + ",".join(map(str, idx))
                    env[on] = arr
                else:
                    env[on] = base
            if f.get("always_none") and nout == 1 and not f["internal_shape"]:
                env[f["outs"][0]] = None  # a function whose (only) result is None: a side-effect step
            continue
        out_axes = f["out_axes"]
        shape = tuple(sizes[a] for a in out_axes)
        outs = [np.empty(shape, dtype=object) for _ in f["outs"]]
        ext_axes = [a for a in out_axes if a not in f["internal"]]
        int_axes = [a for a in out_axes if a in f["internal"]]
        for ext_idx in itertools.product(*[range(sizes[a]) for a in ext_axes]):
            ids = dict(zip(ext_axes, ext_idx))
            kw = {}
            for p in f["params"]:
                m = f["modes"][p]
                if p in bnd:
                    kw[p] = bnd[p]
                elif m == "whole":
                    kw[p] = env[p]
                else:
                    kw[p] = env[p][tuple(slice(None) if a is None else ids[a] for a in m)]
            t = _term(f, kw)
            calls[f["name"]].append((tuple(ext_idx), t))
            if t in none_terms and nout == 1 and not int_axes:
                outs[0][tuple(ids[a] for a in out_axes)] = None  # this invocation returns None (see probes fault 'none')
                continue
            for o in range(nout):
                base = t if nout == 1 else f"{t}#{o}"
                for int_idx in itertools.product(*[range(sizes[a]) for a in int_axes]):
                    full = dict(ids)
                    full.update(zip(int_axes, int_idx))
                    outs[o][tuple(full[a] for a in out_axes)] = base + (
                        "@" + ",".join(map(str, int_idx)) if int_axes else "")
        for on, arr in zip(f["outs"], outs):
            env[on] = arr
    return env, calls


def _term(f, kw):
    """Term the probe of f returns for pipeline-level keyword arguments kw (the probe sees its own parameter names)."""
    ip = f.get("iparams") or f["params"]
    return f["name"] + "(" + ";".join(f"{i}={probes.render(kw[p])}" for i, p in zip(ip, f["params"])) + ")"


def call_kwargs(case, env, f, ext_idx):
    """Keyword arguments (pipeline-level names) of the invocation of f at external index ext_idx."""
    bnd = f.get("bound") or {}
    if f["mapspec"] is None:
        return {p: (bnd[p] if p in bnd else env[p]) for p in f["params"]}
    ext_axes = [a for a in f["out_axes"] if a not in f["internal"]]
    ids = dict(zip(ext_axes, ext_idx))
    kw = {}
    for p in f["params"]:
        m = f["modes"][p]
        if p in bnd:
            kw[p] = bnd[p]
        else:
            kw[p] = env[p] if m == "whole" else env[p][tuple(slice(None) if a is None else ids[a] for a in m)]
    return kw


def _obj(v):
    if isinstance(v, np.ndarray) and v.dtype == object:
        return v
    a = np.empty(np.shape(v), dtype=object)
    for idx in np.ndindex(*a.shape):
        x = v
        for i in idx:
            x = x[i]
        a[idx] = x
    return a


def expected_render(env, name):
    return probes.render(env[name])


def expected_shape(case, name):
    ax = array_axes(case)[name]
    return tuple(case["sizes"][a] for a in ax)


# ------------------------------------------------------------------ structure classes / signature
def classes(case):
    cl = set()
    for f in case["funcs"]:
        if f.get("picker"):
            cl.add("custom_output_picker" + ("" if f["mapspec"] else "_nomapspec"))
        if f["mapspec"] is None:
            cl.add("autogen_mapspec" if f.get("autogen") else "nomapspec")
            continue
        ia = [k for k, a in enumerate(f["out_axes"]) if a in f["internal"]]
        ea = [k for k, a in enumerate(f["out_axes"]) if a not in f["internal"]]
        if ia:
            cl.add("internal")
            if ea and min(ia) < max(ea):
                cl.add("internal_before_external")
            if ea and max(ia) > min(ea):
                cl.add("internal_after_external")
            if not ea:
                cl.add("generator" if all(m == "whole" for m in f["modes"].values()) else "internal_only_ext0")
            cl.add("ishape_via_" + str(f.get("ishape_via")))
        if len(f["outs"]) > 1:
            cl.add("tuple_out")
        if f.get("iparams"):
            cl.add("renamed_params")
        ext = [a for a in f["out_axes"] if a not in f["internal"]]
        if not ext and any(isinstance(m, list) for m in f["modes"].values()):
            cl.add("all_colon_inputs")
        for p, m in f["modes"].items():
            if isinstance(m, list):
                if all(a is None for a in m):
                    cl.add("fullcolon")
                elif any(a is None for a in m):
                    cl.add("partial_colon")
                if p in [o for g in case["funcs"] for o in g["outs"]]:
                    prod = next(g for g in case["funcs"] if p in g["outs"])
                    if any(a is None for a in m) and len(prod["outs"]) > 1:
                        cl.add("colon_on_tuple_output")
            elif m == "whole" and array_axes(case).get(p):
                cl.add("whole_array_arg")
        named = [tuple(a for a in m if a) for m in f["modes"].values() if isinstance(m, list)]
        if sum(1 for n in named if n) >= 2:
            allax = [a for n in named for a in n]
            if len(set(allax)) < len(allax):
                cl.add("zip")
            if len({a for n in named for a in n}) > max(len(n) for n in named):
                cl.add("outer")
        if len(ext) >= 2:
            cl.add("ext_rank>=2")
        if f["out_axes"] != sorted(f["out_axes"]):
            cl.add("permuted_out_axes")
    for r in case["roots"].values():
        cl.add("root_" + r["kind"])
    if len(case["funcs"]) > 1:
        cl.add("multi_func")
    return sorted(cl)


def nontrivial(case):
    for f in case["funcs"]:
        if f["mapspec"] is None:
            continue
        ext = [a for a in f["out_axes"] if a not in f["internal"]]
        n = 1
        for a in ext:
            n *= case["sizes"][a]
        if n >= 2 or f["internal"] or any(isinstance(m, list) and None in m for m in f["modes"].values()):
            return True
    return False


def signature(case):
    shapes = {n: [case["sizes"][a] for a in r["axes"]] for n, r in case["roots"].items()}
    return repr(([f["mapspec"] for f in case["funcs"]], [f["internal_shape"] for f in case["funcs"]], [sorted(f.get("bound", {})) for f in case["funcs"]], [bool(f.get("iparams")) for f in case["funcs"]],
                 sorted(shapes.items()), sorted((n, r["kind"]) for n, r in case["roots"].items())))


def describe(case):
    return {"mapspecs": [(f["mapspec"] or f"{f['name']}({','.join(f['params'])}) [no mapspec]") + (" [returns dict, custom output_picker]" if f.get("picker") else "")
                         for f in case["funcs"]],
            "internal_shapes": {f["outs"][0]: f["internal_shape"] for f in case["funcs"] if f["internal_shape"]},
            "inputs": {n: {"shape": [case["sizes"][a] for a in r["axes"]], "kind": r["kind"]}
                       for n, r in case["roots"].items()}}
