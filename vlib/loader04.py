"""Fresh-interpreter loader for C04: python -m vlib.loader04 JOBS.json OUT.json
Loads every run folder listed in JOBS twice through the public API and writes renderings."""
from __future__ import annotations

import contextlib
import io
import json
import os
import sys


def describe_folder(folder, outputs):
    """Everything C04 compares, as JSON-able renderings (also used in the running process)."""
    import numpy as np

    from pipefunc.map import load_outputs
    from pipefunc.map._run_info import RunInfo

    from vlib import probes

    res = {"outputs": {}, "run_info": None, "xarray": None, "outputs_after_mutation": {}}
    for o in outputs:
        try:
            x = load_outputs(o, run_folder=folder)
            res["outputs"][o] = probes.render(x)
        except Exception as e:  # noqa: BLE001
            res["outputs"][o] = f"EXC {type(e).__name__}: {str(e)[:200]}"
            continue
        # what was loaded belongs to the caller: changing it in place must not change what the folder yields next time
        try:
            if isinstance(x, np.ndarray) and x.size:
                x[(0,) * x.ndim] = "MUTATED" if x.dtype == object else 0
            elif isinstance(x, list):
                x.append("MUTATED")
            elif isinstance(x, dict):
                x["MUTATED"] = 1
            else:
                continue
        except Exception:  # noqa: BLE001
            continue
        try:
            res["outputs_after_mutation"][o] = probes.render(load_outputs(o, run_folder=folder))
        except Exception as e:  # noqa: BLE001
            res["outputs_after_mutation"][o] = f"EXC {type(e).__name__}: {str(e)[:200]}"
    if len(outputs) >= 2:
        # all names in ONE call; every array is kept until all have been loaded, then rendered
        try:
            several = load_outputs(*outputs, run_folder=folder)
            res["outputs_together"] = {o: probes.render(x) for o, x in zip(outputs, several)}
        except Exception as e:  # noqa: BLE001
            res["outputs_together"] = f"EXC {type(e).__name__}: {str(e)[:200]}"
    try:
        ri = RunInfo.load(folder)
        res["run_info"] = {
            "inputs": {k: [type(v).__name__ if not isinstance(v, np.ndarray) else "ndarray", probes.render(v),
                           list(np.shape(v)) if isinstance(v, np.ndarray) else None] for k, v in sorted(ri.inputs.items())},
            "defaults": {k: probes.render(v) for k, v in sorted(ri.defaults.items())},
            "shapes": {(",".join(k) if isinstance(k, tuple) else k): list(v) for k, v in ri.shapes.items()},
            "shape_masks": {(",".join(k) if isinstance(k, tuple) else k): list(v) for k, v in ri.shape_masks.items()},
            "mapspecs": list(ri.mapspecs_as_strings),
            "storage": ri.storage if isinstance(ri.storage, str) else {(",".join(k) if isinstance(k, tuple) else k): v for k, v in ri.storage.items()},
            "all_output_names": sorted(ri.all_output_names),
            "internal_shapes": None if ri.internal_shapes is None else {k: list(v) if isinstance(v, (tuple, list)) else v for k, v in sorted(ri.internal_shapes.items())},
        }
    except Exception as e:  # noqa: BLE001
        res["run_info"] = f"EXC {type(e).__name__}: {str(e)[:200]}"
    try:
        from pipefunc.map import load_xarray_dataset

        ds = load_xarray_dataset(run_folder=folder)
        res["xarray"] = {"dims": {str(k): int(v) for k, v in ds.sizes.items()},
                         "vars": {str(k): [list(map(str, ds[k].dims)), probes.render(ds[k].values)] for k in sorted(map(str, ds.variables))
                                  if ds[k].dtype == object or True}}
    except Exception as e:  # noqa: BLE001
        res["xarray"] = f"EXC {type(e).__name__}"
    return res


def main():
    jobs = json.load(open(sys.argv[1]))
    out = {}
    with contextlib.redirect_stdout(io.StringIO()):
        home = os.getcwd()
        for job in jobs:
            os.chdir(job.get("cwd") or home)
            a = describe_folder(job["folder"], job["outputs"])
            b = describe_folder(job["folder"], job["outputs"])
            out[job["id"]] = {"first": a, "second_equal": a == b}
    os.chdir(home)
    with open(sys.argv[2], "w") as f:
        json.dump(out, f)


if __name__ == "__main__":
    main()
