"""C20 helper: the harness's own model of resource specifications (memory -> bytes, time -> seconds,
validity, defaults-merge, maximum), value generators / grids / malformed-string mutation operators, and the
icontract snapshot/ensure contracts ("operands are left unchanged, the result is a new object") that are
attached from the harness to the real ``pipefunc.resources.Resources`` methods.

Nothing in the *model* part calls pipefunc.  ``attach()`` / ``detach()`` are the only functions that touch
pipefunc; other checks (C10's nesting workloads) may call ``attach()`` so the same contracts ride along.
"""
from __future__ import annotations

import collections
import copy
import hashlib
import json
import re
from fractions import Fraction

from . import boot  # noqa: F401  (appends /verif/.deps to sys.path -> icontract)

FIELDS = ("cpus", "cpus_per_node", "nodes", "memory", "gpus", "time", "partition", "extra_args",
          "parallelization_mode")
QUANT = ("cpus", "cpus_per_node", "nodes", "memory", "gpus", "time", "partition")
DEFAULTS = {"cpus": None, "cpus_per_node": None, "nodes": None, "memory": None, "gpus": None, "time": None,
            "partition": None, "extra_args": {}, "parallelization_mode": "external"}

# --------------------------------------------------------------------------------------------------------
# model: memory -> bytes, time -> seconds
# --------------------------------------------------------------------------------------------------------
_UNIT_EXP = {"B": 0, "KB": 1, "MB": 2, "GB": 3, "TB": 4, "PB": 5}
_MEM_STRICT = re.compile(r"^([0-9]+)(?:\.([0-9]+))?(B|KB|MB|GB|TB|PB)$")
# anything some convention could conceivably read as a memory size; outside of it = certainly malformed
_MEM_PERMISSIVE = re.compile(r"^\s*([0-9]+\.?[0-9]*|\.[0-9]+)\s*([KMGTPE]I?B?|B)?\s*$", re.IGNORECASE)
_TIME_PERMISSIVE = re.compile(r"^\s*([0-9]+-)?[0-9]+(:[0-9]+){0,3}\s*$")


def mem_bytes(s, base=1000):
    """Size in bytes (exact Fraction) of a memory string '<number><unit>', unit in B..PB, any letter case.
    None if the string is not of that shape."""
    if not isinstance(s, str):
        return None
    m = _MEM_STRICT.match(s.upper())
    if not m:
        return None
    whole, frac, unit = m.groups()
    num = Fraction(int(whole))
    if frac:
        num += Fraction(int(frac), 10 ** len(frac))
    return num * Fraction(base) ** _UNIT_EXP[unit]


def mem_ge(a, b):
    """a at least as large as b under the decimal or under the binary unit convention (either is accepted)."""
    for base in (1000, 1024):
        x, y = mem_bytes(a, base), mem_bytes(b, base)
        if x is None or y is None:
            return False
        if x >= y:
            return True
    return False


def mem_max_ok(result, operands):
    """True iff under ONE unit convention `result` is >= every operand."""
    for base in (1000, 1024):
        x = mem_bytes(result, base)
        if x is None:
            return False
        if all(x >= mem_bytes(o, base) for o in operands):
            return True
    return False


def mem_is_max(result, operands):
    """True iff under one convention result's size equals the largest operand size."""
    for base in (1000, 1024):
        x = mem_bytes(result, base)
        if x is None:
            return False
        if x == max(mem_bytes(o, base) for o in operands):
            return True
    return False


def time_seconds(s):
    """Duration in seconds; colon separated fields read right to left: seconds, minutes, hours, days.
    ('D-HH:MM:SS' is understood as well.)  None if not of that shape."""
    if not isinstance(s, str):
        return None
    days = 0
    if "-" in s:
        d, _, s = s.partition("-")
        if not d.isdigit():
            return None
        days = int(d)
    parts = s.split(":")
    if not 1 <= len(parts) <= 4 or not all(p.isdigit() and p.isascii() for p in parts):
        return None
    total = days * 86400
    for p, w in zip(reversed(parts), (1, 60, 3600, 86400)):
        total += int(p) * w
    return total


def digits(s):
    return sum(c.isdigit() for c in s)


def certainly_malformed_memory(s):
    return not _MEM_PERMISSIVE.match(s)


def certainly_malformed_time(s):
    return not _TIME_PERMISSIVE.match(s)


# --------------------------------------------------------------------------------------------------------
# model: validity, views, merge, maximum
# --------------------------------------------------------------------------------------------------------
def full(spec):
    """Spec (constructor kwargs, JSON-able) -> all nine fields, own deep copy."""
    out = copy.deepcopy(DEFAULTS)
    out.update(copy.deepcopy(spec))
    return out


def invalid_reason(spec):
    """None if the spec is valid by the model; otherwise the name of the violated rule.  Only rules the
    property names: exclusive / dependent field combinations (plus the value rules used to stay inside the
    generator's domain)."""
    f = full(spec)
    if f["cpus"] is not None and f["nodes"] is not None:
        return "cpus+nodes"
    if f["cpus_per_node"] is not None and f["nodes"] is None:
        return "cpus_per_node-without-nodes"
    for k in ("cpus", "nodes", "cpus_per_node"):
        if f[k] is not None and f[k] <= 0:
            return f"nonpositive-{k}"
    if f["gpus"] is not None and f["gpus"] < 0:
        return "negative-gpus"
    return None


def view(r):
    """Public field values of a Resources object (deep copy) - read through attribute access only."""
    return {k: copy.deepcopy(getattr(r, k)) for k in FIELDS}


def diff(before, after):
    """List of (field, kind) describing how a view changed."""
    out = []
    for k in FIELDS:
        b, a = before.get(k), after.get(k)
        if b == a and type(b) is type(a):
            continue
        if isinstance(b, dict) and isinstance(a, dict):
            if set(a) - set(b):
                out.append((k, "gained-key"))
            if set(b) - set(a):
                out.append((k, "lost-key"))
            if any(a[x] != b[x] for x in set(a) & set(b)):
                out.append((k, "value-changed"))
        else:
            out.append((k, "changed"))
    return out


def merged_defaults(recv, dflt):
    """Model of 'keep every set quantity of the receiver, fill unset ones from the defaults'."""
    r, d = full(recv), full(dflt)
    return {k: (r[k] if r[k] is not None else d[k]) for k in QUANT}


def key_of(obj):
    return hashlib.sha1(json.dumps(obj, sort_keys=True, default=repr).encode()).hexdigest()[:12]


# --------------------------------------------------------------------------------------------------------
# value generators / grids (all inside the property's quantifier)
# --------------------------------------------------------------------------------------------------------
UNITS = ("B", "KB", "MB", "GB", "TB", "PB")
PARTITIONS = ("gpu", "cpu-long", "debug", "p1")
# (the last ones are spelled like the flags pipefunc itself emits for memory / time / gpus / nodes / cpus / partition: an
#  extra argument of that name - e.g. from update(mem=...), where unknown keywords become extra arguments - must not make
#  the quantity that IS set disappear from the options)
EXTRA_KEYS = ("qos", "constraint", "account", "exclusive", "foo", "bar_baz", "mem", "time", "gres", "nodes", "cpus-per-task", "partition")
NONFIELD_KEYS = ("foo", "qos", "account", "reservation", "x1", "mem", "gres")


def case_variants(unit):
    out = [unit, unit.lower()]
    if len(unit) == 2:
        out += [unit[0] + unit[1].lower(), unit[0].lower() + unit[1]]
    return out


def gen_memory(rng):
    unit = rng.choice(UNITS)
    if unit != "B" and rng.random() < 0.4:
        num = f"{rng.choice([0, 0, 1, 2, 9, 10, 100, 999])}.{rng.choice(['5', '25', '75', '001', '125', '0', '50'])}"
    else:
        num = str(rng.choice([1, 2, 3, 5, 8, 9, 10, 16, 64, 100, 128, 500, 512, 999, 1000, 1024, 2000, 4096, 65536,
                              rng.randint(1, 99999)]))
    return num + rng.choice(case_variants(unit))


def gen_time(rng):
    mm, ss = f"{rng.choice([0, 0, 1, 9, 10, 30, 59, rng.randint(0, 59)]):02d}", f"{rng.choice([0, 0, 1, 30, 59, rng.randint(0, 59)]):02d}"
    form = rng.choice(["MM:SS", "H:MM:SS", "H:MM:SS", "HH:MM:SS", "HH:MM:SS", "D:HH:MM:SS", "DD:HH:MM:SS"])
    if form == "MM:SS":
        return f"{mm}:{ss}"
    if form == "H:MM:SS":
        return f"{rng.randint(0, 9)}:{mm}:{ss}"
    if form == "HH:MM:SS":
        return f"{rng.choice([0, 1, 2, 9, 10, 11, 23, 24, 48, 72, 99, rng.randint(0, 99)]):02d}:{mm}:{ss}"
    hh = f"{rng.randint(0, 23):02d}"
    if form == "D:HH:MM:SS":
        return f"{rng.randint(0, 9)}:{hh}:{mm}:{ss}"
    return f"{rng.randint(10, 99)}:{hh}:{mm}:{ss}"


def gen_extra(rng):
    out = {}
    for k in rng.sample(EXTRA_KEYS, rng.randint(1, 3)):
        out[k] = rng.choice([1, 0, 17, "high", "a100", "yes", ["x", 1], {"n": 2}])
    return out


def gen_spec(rng):
    spec = {}
    mode = rng.choice(["none", "cpus", "cpus", "cpus", "nodes", "nodes+cpn"])
    if mode == "cpus":
        spec["cpus"] = rng.randint(1, 16)
    elif mode != "none":
        spec["nodes"] = rng.randint(1, 8)
        if mode == "nodes+cpn":
            spec["cpus_per_node"] = rng.randint(1, 8)
    if rng.random() < 0.5:
        spec["gpus"] = rng.randint(0, 4)
    if rng.random() < 0.6:
        spec["memory"] = gen_memory(rng)
    if rng.random() < 0.75:
        spec["time"] = gen_time(rng)
    if rng.random() < 0.3:
        spec["partition"] = rng.choice(PARTITIONS)
    if rng.random() < 0.35:
        spec["extra_args"] = gen_extra(rng)
    if rng.random() < 0.15:
        spec["parallelization_mode"] = "internal"
    return spec


FIXED_CORE = [
    {"time": "2:00:00"}, {"time": "10:00:00"}, {"time": "02:00:00"}, {"time": "59:59"}, {"time": "1:00:00"},
    {"time": "30:00"}, {"time": "0:20:00"}, {"time": "1:00:00:00"}, {"time": "23:59:59"}, {"time": "10:00:00:00"},
    {"time": "2:12:00:00"}, {"time": "9:59:59"}, {"time": "48:00:00"}, {"time": "00:00"}, {"time": "00:01"},
    {"time": "0:00:01"}, {"time": "99:00:00"}, {"time": "0:23:00:00"},
    {"memory": "500MB"}, {"memory": "2GB"}, {"memory": "1.5GB"}, {"memory": "1500MB"}, {"memory": "1TB"},
    {"memory": "0.5TB"}, {"memory": "999KB"}, {"memory": "1000000B"}, {"memory": "2gb"}, {"memory": "1Pb"},
    {"memory": "0.001PB"}, {"memory": "1000MB"}, {"memory": "1024MB"}, {"memory": "1GB"}, {"memory": "9GB"},
    {"memory": "10GB"}, {"memory": "10.5gB"}, {"memory": "1B"},
    {"cpus": 1}, {"cpus": 2}, {"cpus": 9}, {"cpus": 10}, {"cpus": 16}, {"gpus": 0}, {"gpus": 1}, {"gpus": 4},
    {"nodes": 1}, {"nodes": 2, "cpus_per_node": 4}, {"nodes": 8, "cpus_per_node": 1}, {},
    {"cpus": 4, "memory": "16GB", "time": "2:00:00"}, {"cpus": 2, "gpus": 1, "memory": "8GB", "time": "10:00:00"},
    {"nodes": 2, "cpus_per_node": 8, "time": "1:00:00:00", "partition": "cpu-long"},
    {"cpus": 1, "extra_args": {"qos": "high"}}, {"cpus": 1, "extra_args": {"qos": "low", "foo": [1, 2]}},
    {"partition": "gpu", "gpus": 2, "parallelization_mode": "internal"},
    {"extra_args": {"constraint": {"n": 2}}, "time": "05:00"},
]


def core_specs(seed, n):
    """The n-value core used for the all-pairs exploration: fixed structural values + seeded random ones."""
    import random
    rng = random.Random(f"c20-core-{seed}")
    out = [copy.deepcopy(s) for s in FIXED_CORE[:n]]
    seen = {key_of(s) for s in out}
    while len(out) < n:
        s = gen_spec(rng)
        k = key_of(s)
        if k not in seen:
            seen.add(k)
            out.append(s)
    return out


def time_grid():
    out = []
    mms, sss = ["00", "01", "05", "09", "10", "30", "59"], ["00", "01", "30", "59"]
    for mm in mms:
        for ss in sss:
            out.append(f"{mm}:{ss}")
            for h in range(10):
                out.append(f"{h}:{mm}:{ss}")
            for hh in ["00", "01", "02", "09", "10", "11", "23", "24", "48", "72", "99"]:
                out.append(f"{hh}:{mm}:{ss}")
    for d in ["0", "1", "2", "7", "9", "10", "14", "30", "99"]:
        for hh in ["00", "01", "12", "23"]:
            for mm in ["00", "30", "59"]:
                for ss in ["00", "59"]:
                    out.append(f"{d}:{hh}:{mm}:{ss}")
    return out


def memory_grid():
    ints = ["1", "2", "5", "9", "10", "16", "64", "100", "128", "500", "512", "999", "1000", "1024", "4096", "65536"]
    fracs = ["0.5", "1.5", "2.25", "0.001", "10.75", "100.125", "0.25", "3.0"]
    out = []
    for unit in UNITS:
        for cv in case_variants(unit):
            for n in ints:
                out.append(n + cv)
            if unit != "B":
                for n in fracs:
                    out.append(n + cv)
    return out


def single_grid():
    """~3x10^4 single values: every time string of the grid x a rotating memory string, every memory string
    x a rotating time string, and the integer field grid."""
    tg, mg = time_grid(), memory_grid()
    out = []
    for i, t in enumerate(tg):
        out.append({"time": t})
        for j in range(30):
            out.append({"time": t, "memory": mg[(i * 31 + j * 17) % len(mg)]})
    for i, m in enumerate(mg):
        out.append({"memory": m})
        out.append({"memory": m, "time": tg[(i * 7) % len(tg)], "cpus": 1 + i % 16})
    for c in range(1, 17):
        for g in [None, 0, 1, 2, 3, 4]:
            out.append({"cpus": c} if g is None else {"cpus": c, "gpus": g})
    for nn in range(1, 9):
        for cpn in [None] + list(range(1, 9)):
            for g in [None, 0, 2]:
                s = {"nodes": nn}
                if cpn is not None:
                    s["cpus_per_node"] = cpn
                if g is not None:
                    s["gpus"] = g
                out.append(s)
    for p in PARTITIONS:
        out.append({"partition": p})
        out.append({"partition": p, "cpus": 2, "extra_args": {"qos": "high", "foo": 1}})
    return out


# ---- mutation operators producing malformed strings (name, function(string, rng) -> mutant)
def _replace_digit(s, rng, by):
    idx = [i for i, c in enumerate(s) if c.isdigit()]
    i = rng.choice(idx)
    return s[:i] + by + s[i + 1:]


def _mem_split(s):
    m = re.match(r"^([0-9.]+)([A-Za-z]+)$", s)
    return m.group(1), m.group(2)


MEMORY_MUTATORS = [
    ("unit-unknown-letter", lambda s, r: _mem_split(s)[0] + r.choice(["X", "Z", "Q", "W"]) + "B"),
    ("unit-doubled", lambda s, r: s + _mem_split(s)[1]),
    ("unit-extra-letter", lambda s, r: s + r.choice(["S", "x", "yte"])),
    ("number-missing", lambda s, r: _mem_split(s)[1]),
    ("negative", lambda s, r: "-" + s),
    ("letter-in-number", lambda s, r: _replace_digit(s, r, r.choice(["x", "O", "l"]))),
    ("double-dot", lambda s, r: "1..5" + _mem_split(s)[1]),
    ("two-points", lambda s, r: "1.2.3" + _mem_split(s)[1]),
    ("comma-decimal", lambda s, r: "1,5" + _mem_split(s)[1]),
    ("digit-after-unit", lambda s, r: s + r.choice("0123456789")),
    ("unit-before-number", lambda s, r: _mem_split(s)[1] + _mem_split(s)[0]),
    ("empty", lambda s, r: ""),
    ("only-dot", lambda s, r: "." + _mem_split(s)[1]),
    ("slash", lambda s, r: _mem_split(s)[0] + "/" + _mem_split(s)[1]),
]

TIME_MUTATORS = [
    ("letter-for-digit", lambda s, r: _replace_digit(s, r, r.choice(["x", "O", "l", "h"]))),
    ("empty-field", lambda s, r: s.replace(":", "::", 1)),
    ("trailing-colon", lambda s, r: s + ":"),
    ("leading-colon", lambda s, r: ":" + s),
    ("five-fields", lambda s, r: "1:01:" + s if s.count(":") == 2 else ("1:" * (4 - s.count(":"))) + s),
    ("dot-separator", lambda s, r: s.replace(":", ".", 1)),
    ("semicolon-separator", lambda s, r: s.replace(":", ";", 1)),
    ("negative", lambda s, r: "-" + s),
    ("empty", lambda s, r: ""),
    ("unit-suffix", lambda s, r: s + r.choice(["h", "s", "min", " hours"])),
    ("fraction", lambda s, r: s + ".5"),
    ("no-digits", lambda s, r: re.sub(r"[0-9]", "", s)),
    ("comma-separator", lambda s, r: s.replace(":", ",")),
]


# --------------------------------------------------------------------------------------------------------
# to_slurm_options: which set quantities does an option string mention?
# --------------------------------------------------------------------------------------------------------
def _nums(tok):
    return [int(x) for x in re.findall(r"[0-9]+", tok)]


def slurm_missing(spec, options):
    """Names of set quantities (by the model: not None; gpus=0 = none requested) that `options` does not
    mention.  Deliberately loose about the option spelling."""
    f = full(spec)
    toks = options.split() if isinstance(options, str) else []
    low = [t.lower() for t in toks]
    missing = []

    def has(pred):
        return any(pred(t) for t in low)

    if f["cpus"] is not None and not has(lambda t: ("cpu" in t or "ntasks" in t or t.startswith("-c")) and "node" not in t
                                         and f["cpus"] in _nums(t)):
        missing.append("cpus")
    if f["gpus"] and not has(lambda t: ("gpu" in t or "gres" in t) and f["gpus"] in _nums(t)):
        missing.append("gpus")
    if f["nodes"] is not None and not has(lambda t: (("node" in t and "cpu" not in t and "per" not in t) or t.startswith("-n"))
                                          and f["nodes"] in _nums(t)):
        missing.append("nodes")
    if f["cpus_per_node"] is not None and not has(lambda t: "node" in t and ("cpu" in t or "task" in t)
                                                  and f["cpus_per_node"] in _nums(t)):
        missing.append("cpus_per_node")
    if f["memory"] is not None:
        def mem_tok(t):
            if "mem" not in t:
                return False
            val = t.split("=", 1)[-1]
            if val == f["memory"].lower():
                return True
            a = mem_bytes(val.upper()) or mem_bytes(val.upper() + "B")
            return a is not None and a == mem_bytes(f["memory"])
        if not has(mem_tok):
            missing.append("memory")
    if f["time"] is not None:
        def time_tok(t):
            if "time" not in t and not t.startswith("-t"):
                return False
            val = t.split("=", 1)[-1]
            return val == f["time"] or (time_seconds(val) is not None and time_seconds(val) == time_seconds(f["time"]))
        if not has(time_tok):
            missing.append("time")
    if f["partition"] is not None and not any(("partition" in t.lower() or t.startswith("-p")) and f["partition"] in t
                                              for t in toks):
        missing.append("partition")
    for k, val in f["extra_args"].items():
        if k not in options or str(val) not in options:
            missing.append(f"extra_args[{k}]")
    return missing


# --------------------------------------------------------------------------------------------------------
# icontract contracts on the real methods
# --------------------------------------------------------------------------------------------------------
class SideEffectBreach(AssertionError):
    """Raised by the attached contracts: an operand changed, or the result is not a new object."""


EVALS = collections.Counter()   # contract evaluations per method ("snapshot:update", "post:update", ...)
LAST = {}                       # detail of the last breach: {"method":..., "findings": [(role, field, kind)]}
_ORIG = {}


def _snap(obj):
    """Deep copy of the object's state (its __dict__) - or of the value itself for non-Resources operands."""
    d = getattr(obj, "__dict__", None)
    if d is not None and type(obj).__name__ == "Resources":
        return ("R", copy.deepcopy(d))
    if callable(obj):
        return ("C", id(obj))
    return ("V", copy.deepcopy(obj))


def _changed(role, obj, old, findings):
    now = _snap(obj)
    if now == old:
        return
    if now[0] == "R" and old[0] == "R":
        for fld, kind in diff({k: old[1].get(k) for k in FIELDS}, {k: now[1].get(k) for k in FIELDS}) or [("?", "changed")]:
            findings.append((role, fld, kind))
    else:
        findings.append((role, "value", "changed"))


def _is_res(x):
    return type(x).__name__ == "Resources"


def _verdict(method, findings):
    if findings:
        LAST.clear()
        LAST.update({"method": method, "findings": findings})
        return False
    return True


# update(self, **kwargs)
def capture_update(self, _KWARGS):
    EVALS["snapshot:update"] += 1
    return (_snap(self), copy.deepcopy(_KWARGS))


def post_update(self, _KWARGS, result, OLD):
    EVALS["post:update"] += 1
    findings = []
    _changed("receiver", self, OLD.pre[0], findings)
    if _KWARGS != OLD.pre[1]:
        findings.append(("kwargs", "value", "changed"))
    if result is self:
        findings.append(("result", "is", "receiver"))
    return _verdict("update", findings)


# with_defaults(self, default_resources)
def capture_with_defaults(self, default_resources):
    EVALS["snapshot:with_defaults"] += 1
    return (_snap(self), _snap(default_resources))


def post_with_defaults(self, default_resources, result, OLD):
    EVALS["post:with_defaults"] += 1
    findings = []
    _changed("receiver", self, OLD.pre[0], findings)
    _changed("defaults", default_resources, OLD.pre[1], findings)
    if _is_res(default_resources):  # None is outside the property's domain: returning self is accepted
        if result is self:
            findings.append(("result", "is", "receiver"))
        if result is default_resources:
            findings.append(("result", "is", "defaults"))
    return _verdict("with_defaults", findings)


# combine_max(resources_list)   [staticmethod]
def capture_combine_max(resources_list):
    EVALS["snapshot:combine_max"] += 1
    return ([id(x) for x in resources_list], [_snap(x) for x in resources_list])


def post_combine_max(resources_list, result, OLD):
    EVALS["post:combine_max"] += 1
    findings = []
    if [id(x) for x in resources_list] != OLD.pre[0]:
        findings.append(("list", "membership", "changed"))
    else:
        for x, old in zip(resources_list, OLD.pre[1]):
            _changed("operand", x, old, findings)
    if any(result is x for x in resources_list):
        findings.append(("result", "is", "operand"))
    return _verdict("combine_max", findings)


# maybe_with_defaults(resources, default_resources)   [staticmethod]
def capture_maybe_with_defaults(resources, default_resources):
    EVALS["snapshot:maybe_with_defaults"] += 1
    return (_snap(resources), _snap(default_resources))


def post_maybe_with_defaults(resources, default_resources, result, OLD):
    EVALS["post:maybe_with_defaults"] += 1
    findings = []
    _changed("receiver", resources, OLD.pre[0], findings)
    _changed("defaults", default_resources, OLD.pre[1], findings)
    if _is_res(resources) and _is_res(default_resources):
        if result is resources:
            findings.append(("result", "is", "receiver"))
        if result is default_resources:
            findings.append(("result", "is", "defaults"))
    return _verdict("maybe_with_defaults", findings)


_CONTRACTS = {
    "update": (capture_update, post_update, False),
    "with_defaults": (capture_with_defaults, post_with_defaults, False),
    "combine_max": (capture_combine_max, post_combine_max, True),
    "maybe_with_defaults": (capture_maybe_with_defaults, post_maybe_with_defaults, True),
}
METHODS = tuple(_CONTRACTS)


def attach():
    """Wrap the real Resources methods (in this process only).  Idempotent.  Returns the list of method
    names that could be wrapped (a method missing after a refactor is skipped)."""
    import icontract
    from pipefunc.resources import Resources

    done = []
    for name, (cap, post, static) in _CONTRACTS.items():
        if name in _ORIG:
            done.append(name)
            continue
        raw = Resources.__dict__.get(name)
        if raw is None:
            continue
        fn = raw.__func__ if isinstance(raw, staticmethod) else raw
        checked = icontract.ensure(post, error=SideEffectBreach, enabled=True)(fn)
        checked = icontract.snapshot(cap, name="pre", enabled=True)(checked)
        _ORIG[name] = raw
        setattr(Resources, name, staticmethod(checked) if isinstance(raw, staticmethod) else checked)
        done.append(name)
    return done


def detach():
    from pipefunc.resources import Resources

    for name, raw in list(_ORIG.items()):
        setattr(Resources, name, raw)
        del _ORIG[name]
