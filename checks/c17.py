"""C17 - Sweeps enumerate exactly the documented combinations (DESIGN 4/C17)."""
from __future__ import annotations

import collections
import itertools
import json
import random

from vlib import models_c17 as M
from vlib.util import V, exc_msg, exc_sig

PROPERTY = "C17"
LEVEL = "exploration"
DEADLINE = 600
CHUNK = 1
RULE = ("single sweeps: EVERY item dict with <=3 keys (thorough: <=4) x value lists of length 0..3 x every set "
        "partition of the keys into equal-length zipped groups x every order of the groups x spellings (str / "
        "1-tuple / key order inside a tuple) plus dims=None, x each of constants / derivers / exclude on and off "
        "(their contents drawn from VERIF_SEED); per sweep: list() vs the reference list model (order only when "
        "dims is omitted or in item order), len, three ways of iterating, generate_sweep, filtered_sweep for every "
        "non-empty key subset (sweeps without constants/exclude), count_sweep on a small real Pipeline (Sweep "
        "object, list of dicts, pandas). product / + / MultiSweep: ALL ordered pairs of operand structures (1-2 "
        "keys; thorough adds 3-key operands) x all 64 option combinations, and a seeded sample of triples (flat "
        "a.product(b, c) and nested). non-trivial = at least one key; distinct = distinct (lengths, dims, option "
        "bits) for singles, distinct structure pairs / triples (with option bits) for products")
ASSUMPTIONS = [
    "oracle = vlib.models_c17 (naive list semantics; never imports pipefunc)",
    "derivers are order-independent by construction (no deriver reads a key another deriver writes) and exclude "
    "predicates read only item keys that no deriver overwrites, so no order of application is assumed",
    "constants / deriver outputs never collide with item keys of any operand; value lists hold distinct hashable values",
    "Sweep({}) (no items): both [] (pinned by tests/test_sweep.py) and the single empty combination are accepted; "
    "only len == len(list()) and iteration == list() are demanded there",
    "count_sweep: a root-argument tuple lists the values in the order of pipeline.root_args(dependency) as reported "
    "by the same pipeline object; with use_pandas scalar keys count as 1-tuples and "
    "only non-empty sweeps without derivers are submitted; the output itself may or may not be listed",
    "a.product() without operands and MultiSweep.product / MultiSweep.filtered_sweep are outside the statement "
    "(observed as counters only)",
]

SIG26 = "product:right-operand-zipping-lost-when-left-dims-none"
OPTS = list(itertools.product([0, 1], repeat=3))


# --------------------------------------------------------------------------- building real sweeps
def _deriver(out, reads):
    reads = list(reads)
    return lambda combo: ("D", out) + tuple(combo[r] for r in reads)


def _exclude(excls):
    ex = [(list(e["keys"]), [list(b) for b in e["bad"]]) for e in excls]
    return lambda combo: any([combo[k] for k in keys] in bad for keys, bad in ex)


def sweep_args(spec):
    items = {k: list(v) for k, v in spec["items"]}
    dims = None if spec["dims"] is None else [tuple(g) if isinstance(g, list) else g for g in spec["dims"]]
    exclude = _exclude(spec["excl"]) if spec.get("excl") else None
    constants = dict(spec["const"]) if spec.get("const") else None
    derivers = {o: _deriver(o, rd) for o, rd in spec["deriv"]} if spec.get("deriv") else None
    return items, dims, exclude, constants, derivers


_API = {}


def api(name):
    if name not in _API:
        import pipefunc.sweep as ps

        _API[name] = getattr(ps, name)
    return _API[name]


def build(spec):
    items, dims, exclude, constants, derivers = sweep_args(spec)
    return api("Sweep")(items, dims=dims, exclude=exclude, constants=constants, derivers=derivers)


_PINNED = {}


def pin(spec):
    """Memoise the reference list of a generated operand for the duration of a batch."""
    _PINNED[id(spec)] = (spec, M.ref_list(spec))
    return spec


def ref(spec):
    hit = _PINNED.get(id(spec))
    if hit is not None and hit[0] is spec:
        return hit[1]
    return M.ref_list(spec)


_HEALTH = {}


def healthy(spec):
    """Does the operand on its own behave like the reference?  (A compound operation is only judged when
    every operand does; defects of a single sweep are reported by the exhaustive single-sweep part.)"""
    hit = _HEALTH.get(id(spec))
    if hit is not None and hit[0] is spec:
        return hit[1]
    ok = not probe_single(spec)[0]
    if id(spec) in _PINNED:
        _HEALTH[id(spec)] = (spec, ok)
    return ok


def ops_healthy(case):
    return all(healthy(o) for o in case["ops"])


def ms(lst):
    return collections.Counter(M.freeze(d) for d in lst)


def cmp_lists(got, exp, ordered):
    """None when got matches exp, else a symptom word."""
    if not isinstance(got, list) or not all(isinstance(d, dict) for d in got):
        return "not-a-list-of-dicts"
    try:
        g, e = ms(got), ms(exp)
    except TypeError:
        return "unhashable-values"
    if g != e:
        extra, missing = g - e, e - g
        if sum(g.values()) == sum(e.values()):
            return "wrong-combos"
        if extra and not missing:
            return "extra-combos"
        if missing and not extra:
            return "missing-combos"
        return "wrong-combos"
    if ordered and got != exp:
        return "order"
    return None


def short(x, n=400):
    if isinstance(x, list) and len(x) > 8:
        return f"{repr(x[:8])[:n]}... ({len(x)} elements)"
    s = repr(x)
    return s if len(s) <= n else s[:n] + "..."


# --------------------------------------------------------------------------- probes
# every probe returns (fails, info): fails = [(symptom, msg)], symptom names entry point + symptom class


def probe_single(spec):
    generate_sweep = api("generate_sweep")
    fails = []
    exp = M.ref_list(spec)
    try:
        s = build(spec)
    except Exception as e:  # noqa: BLE001
        return [(exc_sig(e, "exc:Sweep()"), exc_msg(e))], None
    try:
        got = s.list()
    except Exception as e:  # noqa: BLE001
        return [(exc_sig(e, "exc:Sweep.list"), exc_msg(e))], None
    ok_list = True
    if not spec["items"] and got == []:
        pass  # accepted alternative for a sweep without items
    else:
        c = cmp_lists(got, exp, M.order_required(spec))
        if c:
            ok_list = False
            fails.append((f"list:{c}", f"list() gave {short(got)}; the reference list is {short(exp)}"))
    if isinstance(got, list):
        try:
            n = len(s)
            if n != len(got):
                fails.append(("len:differs-from-list", f"len(sweep) == {n!r} but len(sweep.list()) == {len(got)}"))
        except Exception as e:  # noqa: BLE001
            fails.append((exc_sig(e, "exc:Sweep.__len__"), exc_msg(e)))
        for how, fn in (("iter", lambda: list(iter(s))), ("for", lambda: [c for c in s]), ("list(sweep)", lambda: list(s)),
                        ("generate", lambda: list(s.generate())), ("list-again", lambda: s.list())):
            try:
                it = fn()
                if it != got:
                    fails.append((f"iter:{how}-differs-from-list", f"{how}: {short(it)} vs list() {short(got)}"))
            except Exception as e:  # noqa: BLE001
                fails.append((exc_sig(e, f"exc:iter-{how}"), exc_msg(e)))
        try:
            gs = generate_sweep(*sweep_args(spec))
            if gs != got:
                fails.append(("generate_sweep:differs-from-list", f"generate_sweep(...) {short(gs)} vs Sweep(...).list() {short(got)}"))
        except Exception as e:  # noqa: BLE001
            fails.append((exc_sig(e, "exc:generate_sweep"), exc_msg(e)))
    return fails, {"got": got, "exp": exp, "ok_list": ok_list}


def probe_filtered(case):
    spec, keys = case["spec"], case["keys"]
    exp = M.distinct_projections(M.ref_list(spec), keys)
    fails = []
    try:
        s = build(spec)
        fs = s.filtered_sweep(tuple(keys) if case["as_tuple"] else list(keys))
    except Exception as e:  # noqa: BLE001
        return [(exc_sig(e, "exc:filtered_sweep"), exc_msg(e))], None
    try:
        got = fs.list()
    except Exception as e:  # noqa: BLE001
        return [(exc_sig(e, "exc:filtered_sweep.list"), exc_msg(e))], None
    c = cmp_lists(got, exp, False)
    if c:
        fails.append((f"filtered_sweep:{c}", f"filtered_sweep({keys}).list() gave {short(got)}; distinct projections are {short(exp)}"))
    if isinstance(got, list):
        try:
            n = len(fs)
            if n != len(got):
                fails.append(("filtered_sweep:len-differs-from-list", f"len(filtered) == {n!r}, len(filtered.list()) == {len(got)}"))
        except Exception as e:  # noqa: BLE001
            fails.append((exc_sig(e, "exc:len(filtered_sweep)"), exc_msg(e)))
        try:
            it = list(fs)
            if it != got:
                fails.append(("filtered_sweep:iter-differs-from-list", f"{short(it)} vs {short(got)}"))
        except Exception as e:  # noqa: BLE001
            fails.append((exc_sig(e, "exc:iter(filtered_sweep)"), exc_msg(e)))
    return fails, {"got": got, "exp": exp}


_PIPELINES = {}


def get_pipeline(pl):
    key = json.dumps(pl)
    if key not in _PIPELINES:
        from pipefunc import PipeFunc, Pipeline

        fs = []
        for out, params in pl["funcs"]:
            ns = {}
            exec(f"def f_{out}({', '.join(params)}):\n    return 0\n", ns)  # noqa: S102
            fs.append(PipeFunc(ns[f"f_{out}"], output_name=out))
        _PIPELINES[key] = Pipeline(fs)
    return _PIPELINES[key]


def probe_count(case):
    count_sweep = api("count_sweep")
    spec, pl, mode = case["spec"], case["pl"], case["mode"]
    combos = M.ref_list(spec)
    pandas = mode.startswith("pandas")
    arg = build(spec) if mode.endswith("sweep") else [dict(c) for c in combos]
    try:
        pipeline = get_pipeline(pl)
    except Exception as e:  # noqa: BLE001
        raise RuntimeError(f"harness could not build its count_sweep pipeline: {exc_msg(e)}") from e
    tag = "count_sweep[pandas]" if pandas else "count_sweep"
    try:
        got = count_sweep(pl["target"], arg, pipeline, use_pandas=pandas)
    except Exception as e:  # noqa: BLE001
        return [(exc_sig(e, f"exc:{tag}"), exc_msg(e))], None
    fails = []
    deps = set(M.strict_dependencies(pl, pl["target"]))
    if not isinstance(got, dict) or not (deps <= set(got) <= deps | {pl["target"]}):
        return [(f"{tag}:dependency-set", f"reported {short(sorted(got) if isinstance(got, dict) else got)}; "
                 f"dependencies of {pl['target']} are {sorted(deps)}")], None
    for dep, cnt in got.items():
        roots = M.root_args_of(pl, dep)
        try:
            norm = {(k if isinstance(k, tuple) else (k,)): int(n) for k, n in cnt.items()}
        except Exception:  # noqa: BLE001
            fails.append((f"{tag}:malformed-counts", short(cnt)))
            continue
        # a "root-argument tuple" lists the values in the order of pipeline.root_args(dep) (public API of the same
        # pipeline object) - that is how a caller builds the key to look a count up
        order = list(pipeline.root_args(dep))
        if sorted(order) != sorted(roots):
            fails.append((f"{tag}:root-args", f"{dep}: pipeline.root_args = {order}, harness analysis = {roots}"))
            continue
        if norm != M.count_model(combos, order):
            kind = "counts-keyed-in-another-order" if any(norm == M.count_model(combos, list(p)) for p in itertools.permutations(roots)) else "counts"
            fails.append((f"{tag}:{kind}", f"{dep}: got {short(norm)}; expected (root args {order}) {short(M.count_model(combos, order))}"))
    return fails, {"got": got}


def trigger26(ops):
    if ops[0]["dims"] is not None:
        return False
    for op in ops[1:]:
        items = dict((k, v) for k, v in op["items"])
        if any(len(g) >= 2 and len(items[g[0]]) >= 2 for g in M.groups_of(op)):
            return True
    return False


def probe_product(case):
    ops = case["ops"]
    exp = M.cartesian([ref(s) for s in ops])
    try:
        sw = [build(s) for s in ops]
        if case["form"] == "nested" and len(sw) == 3:
            p = sw[0].product(sw[1]).product(sw[2])
        else:
            p = sw[0].product(*sw[1:])
    except Exception as e:  # noqa: BLE001
        return [(exc_sig(e, "exc:product"), exc_msg(e))], None
    try:
        got = p.list()
    except Exception as e:  # noqa: BLE001
        return [(exc_sig(e, "exc:product.list"), exc_msg(e))], None
    fails = []
    # the product of LISTS: when every operand's own order is determined (dims omitted or in item order) so is the product's
    ordered = all(M.order_required(s_) for s_ in ops)
    c = cmp_lists(got, exp, ordered)
    if c:
        msg = f"product gave {len(got) if isinstance(got, list) else '?'} combinations {short(got, 300)}; the Cartesian product of the operands' lists has {len(exp)}: {short(exp, 300)}"
        if c in ("extra-combos", "wrong-combos") and trigger26(ops) and ms(got) == ms(M.unzipped_full_product(ops)):
            fails.append((SIG26, msg))
        else:
            fails.append((f"product:{c}", msg))
    if isinstance(got, list):
        try:
            n = len(p)
            if n != len(got):
                fails.append(("product:len-differs-from-list", f"len == {n!r}, len(list()) == {len(got)}"))
        except Exception as e:  # noqa: BLE001
            fails.append((exc_sig(e, "exc:len(product)"), exc_msg(e)))
        try:
            it = list(p)
            if it != got:
                fails.append(("product:iter-differs-from-list", f"{short(it)} vs {short(got)}"))
        except Exception as e:  # noqa: BLE001
            fails.append((exc_sig(e, "exc:iter(product)"), exc_msg(e)))
    return fails, {"got": got, "exp": exp}


def probe_concat(case):
    MultiSweep = api("MultiSweep")
    ops, form = case["ops"], case["form"]
    exps = [ref(s) for s in ops]
    try:
        sw = [build(s) for s in ops]
        if form == "MultiSweep":
            m = MultiSweep(*sw)
        elif form == "add-right" and len(sw) == 3:
            inner = sw[1] + sw[2]
            m = sw[0] + inner
        elif form == "combine":
            m = sw[0]
            for o in sw[1:]:
                m = m.combine(o)
        elif form == "multi+multi":
            m = MultiSweep(sw[0]) + MultiSweep(*sw[1:])
        elif form == "multi.combine(multi)":
            m = MultiSweep(*sw[:-1]).combine(MultiSweep(sw[-1]))
        else:
            m = sw[0]
            for o in sw[1:]:
                m = m + o
    except Exception as e:  # noqa: BLE001
        return [(exc_sig(e, f"exc:concat[{form}]"), exc_msg(e))], None
    try:
        got = m.list()
    except Exception as e:  # noqa: BLE001
        return [(exc_sig(e, f"exc:concat[{form}].list"), exc_msg(e))], None
    fails = []
    flat = [d for e in exps for d in e]
    c = cmp_lists(got, flat, False)
    if not c:  # segment-wise: operands in order, inside an operand order only where it is demanded
        pos = 0
        for s, e in zip(ops, exps):
            seg = got[pos:pos + len(e)]
            pos += len(e)
            c = c or cmp_lists(seg, e, M.order_required(s))
        if c:
            c = "order"
    if c:
        fails.append((f"concat[{form}]:{c}", f"gave {short(got)}; concatenation of the operands' lists is {short(flat)}"))
    if isinstance(got, list):
        try:
            n = len(m)
            if n != len(got):
                fails.append((f"concat[{form}]:len-differs-from-list", f"len == {n!r}, len(list()) == {len(got)}"))
        except Exception as e:  # noqa: BLE001
            fails.append((exc_sig(e, f"exc:len(concat[{form}])"), exc_msg(e)))
        try:
            it = list(m)
            if it != got:
                fails.append((f"concat[{form}]:iter-differs-from-list", f"{short(it)} vs {short(got)}"))
        except Exception as e:  # noqa: BLE001
            fails.append((exc_sig(e, f"exc:iter(concat[{form}])"), exc_msg(e)))
        if form == "add-right" and len(sw) == 3:
            # a MultiSweep nested inside another one is extended afterwards (`+` extends a MultiSweep in place): whatever the
            # outer sweep now enumerates, len(), list() and iteration must still agree with one another
            try:
                inner.combine(build(ops[0]))
                got2 = m.list()
                n2, it2 = len(m), list(m)
                if n2 != len(got2):
                    fails.append((f"concat[{form}]:len-differs-from-list/after-nested-operand-grew", f"len == {n2!r}, len(list()) == {len(got2)}"))
                if it2 != got2:
                    fails.append((f"concat[{form}]:iter-differs-from-list/after-nested-operand-grew", f"{short(it2)} vs {short(got2)}"))
            except Exception as e:  # noqa: BLE001
                fails.append((exc_sig(e, f"exc:concat[{form}]/after-nested-operand-grew"), exc_msg(e)))
    return fails, {"got": got}


# --------------------------------------------------------------------------- features / simplification / text
def feat_single(spec):
    return M.features(spec)


def feat_filtered(case):
    spec, keys = case["spec"], case["keys"]
    f = [M.features(spec)]
    items = dict((k, v) for k, v in spec["items"])
    if any(len(v) == 0 for k, v in items.items() if k not in keys):
        f.append("dropped-key-empty")
    if any(0 < len([k for k in g if k in keys]) < len(g) for g in M.groups_of(spec)):
        f.append("keys-split-a-zipped-group")
    if any(k not in items for k in keys):
        f.append("derived-key")
    return ",".join(f)


def feat_count(case):
    return f"{M.features(case['spec'])},arg={'Sweep' if case['mode'].endswith('sweep') else 'list'},roots={len(M.root_args_of(case['pl'], case['pl']['target']))}"


def feat_ops(case):
    ops = case["ops"]
    names = ["first"] + ["middle"] * (len(ops) - 2) + ["last"]
    f = ";".join(f"{nm}[{M.features(s)}]" for nm, s in zip(names, ops))
    return f + (";nested" if case.get("form") == "nested" and len(ops) == 3 else "")


def simp_filtered(case):
    keys = case["keys"]
    ik = [k for k, _ in case["spec"]["items"]]
    for k in keys:
        if k not in ik:  # a derived key is replaced by an item key
            repl = [x for x in ik if x not in keys][:1]
            if repl or len(keys) > 1:
                yield dict(case, keys=[x for x in keys if x != k] + repl)
    if len(keys) > 1:
        for k in keys:
            yield dict(case, keys=[x for x in keys if x != k])
    for s in M.simplify_spec(case["spec"]):
        present = {k for k, _ in s["items"]} | {o for o, _ in s.get("deriv") or []}
        k2 = [k for k in keys if k in present]
        if k2:
            yield dict(case, spec=s, keys=k2)


def simp_count(case):
    roots, spec = case["roots"], case["spec"]
    if case["mode"].endswith("sweep"):
        yield dict(case, mode=case["mode"][:-5] + "list")
    if len(roots) > 1:
        for r in roots:
            r2 = [x for x in roots if x != r]
            yield dict(case, roots=r2, pl=M.pipeline_for(r2, case["variant"]))
    ik = [k for k, _ in spec["items"]]
    for r in roots:
        if r not in ik:  # a constant / derived root argument is replaced by an item key
            repl = [x for x in ik if x not in roots][:1]
            if repl:
                r2 = [repl[0] if x == r else x for x in roots]
                yield dict(case, roots=r2, pl=M.pipeline_for(r2, case["variant"]))
    if case["variant"]:
        yield dict(case, variant=0, pl=M.pipeline_for(roots, 0))
    for s in M.simplify_spec(spec, keep=tuple(roots)):
        if case["mode"].startswith("pandas") and not M.ref_list(s):
            continue
        yield dict(case, spec=s)


def simp_ops(case):
    ops = case["ops"]
    if len(ops) == 3:
        for i in (1, 2, 0):
            yield dict(case, ops=[o for j, o in enumerate(ops) if j != i], form="flat" if case["form"] == "nested" else case["form"])
    for i, op in enumerate(ops):
        for s in M.simplify_spec(op):
            yield dict(case, ops=[s if j == i else o for j, o in enumerate(ops)])


def text_single(spec):
    return "s = " + M.to_python(spec) + "; s.list(), len(s)"


def text_filtered(case):
    k = tuple(case["keys"]) if case["as_tuple"] else list(case["keys"])
    return f"s = {M.to_python(case['spec'])}; f = s.filtered_sweep({k!r}); f.list(), len(f)"


def text_count(case):
    fs = "; ".join(f"{o} = PipeFunc(lambda {', '.join(ps)}: 0, {o!r})" for o, ps in case["pl"]["funcs"])
    arg = "s" if case["mode"].endswith("sweep") else "s.list()"
    return (f"{fs}; pl = Pipeline([{', '.join(o for o, _ in case['pl']['funcs'])}]); s = {M.to_python(case['spec'])}; "
            f"count_sweep({case['pl']['target']!r}, {arg}, pl, use_pandas={case['mode'].startswith('pandas')})")


def text_ops(case):
    ops = case["ops"]
    names = "abc"[:len(ops)]
    defs = "; ".join(f"{n} = {M.to_python(s)}" for n, s in zip(names, ops))
    form = case["form"]
    if form == "flat":
        expr = f"a.product({', '.join(names[1:])})"
    elif form == "nested":
        expr = "a.product(b).product(c)" if len(ops) == 3 else "a.product(b)"
    elif form == "MultiSweep":
        expr = f"MultiSweep({', '.join(names)})"
    elif form == "add-right" and len(ops) == 3:
        expr = "a + (b + c)"
    elif form == "combine":
        expr = "a" + "".join(f".combine({n})" for n in names[1:])
    elif form == "multi+multi":
        expr = f"MultiSweep(a) + MultiSweep({', '.join(names[1:])})"
    elif form == "multi.combine(multi)":
        expr = f"MultiSweep({', '.join(names[:-1])}).combine(MultiSweep({names[-1]}))"
    else:
        expr = " + ".join(names)
    return f"{defs}; r = {expr}; r.list(), len(r)"


def family(symptom):
    """extra- / missing- / wrong-combos of one entry point are one family while shrinking (the word is
    taken from the minimal case)."""
    for w in ("extra-combos", "missing-combos", "wrong-combos"):
        if symptom.endswith(":" + w):
            return symptom[: -len(w)] + "combos"
    return symptom


class Finder:
    """Collects failures of one batch: shrinks the first failure of each (symptom, raw features) class to a
    minimal case, names it by symptom + features of the minimal case, counts the rest."""

    def __init__(self, v):
        self.v = v
        self.cache = {}
        self.found = collections.OrderedDict()

    def report(self, symptom, msg, case, probe, simplify, feat, text, guard=None):
        self.v.count("failed_comparisons")
        ck = (symptom, "" if symptom == SIG26 else feat(case))
        if ck in self.cache:
            self.found[self.cache[ck]][2] += 1
            return

        fam = family(symptom)

        def still(c):
            return (guard is None or guard(c)) and any(family(s) == fam for s, _ in probe(c)[0])

        small = M.shrink(case, still, simplify)
        symptom, msg2 = next(((s, m) for s, m in probe(small)[0] if family(s) == fam), (symptom, msg))
        sig = symptom if symptom == SIG26 else f"{symptom}/{feat(small)}"
        self.cache[ck] = sig
        if sig not in self.found:
            self.found[sig] = [msg2, {"repro": text(small), "generated_case": text(case)}, 0]
        self.found[sig][2] += 1

    def check(self, case, probe, simplify, feat, text, guard=None):
        fails, info = probe(case)
        for symptom, msg in fails:
            self.report(symptom, msg, case, probe, simplify, feat, text, guard)
        return fails, info

    def flush(self):
        for sig, (msg, wit, n) in self.found.items():
            self.v.bad(sig, f"{msg}  [repro: {wit['repro']}] ({n} failing comparison(s) in this batch)", **wit)


# --------------------------------------------------------------------------- plan
def plan(tier, seed):
    descs = []
    maxn = 3 if tier == "quick" else 4
    for n in range(maxn, -1, -1):  # big batches first
        m = 6 if n == 4 else 1
        for lens in itertools.product(range(4), repeat=n):
            for i in range(m):
                descs.append({"kind": "single", "seed": seed, "lens": list(lens), "slice": [i, m]})
    npool = len(M.operand_pool(tier))
    for li in range(npool):
        descs.append({"kind": "pair", "seed": seed, "tier": tier, "L": li})
    for b in range(24 if tier == "quick" else 200):
        descs.append({"kind": "triple", "seed": seed, "batch": b, "n": 1200})
    for b in range(16 if tier == "quick" else 160):
        descs.append({"kind": "extra", "seed": seed, "batch": b, "n": 150})
    return descs


def optbits(o):
    return "".join(ch for ch, b in zip("cde", o) if b) or "-"


# --------------------------------------------------------------------------- batches
def run_single(desc, v, fd):
    lens = desc["lens"]
    rng = random.Random(f"c17/single/{desc['seed']}/{lens}/{desc['slice']}")
    keys_out, sample = [], None
    variants = M.dims_variants(lens)
    si, sm = desc["slice"]
    alphabet = M.ALPHABETS[0]
    count = 0
    for vi, d in enumerate(variants):
        if vi % sm != si:
            continue
        for o in OPTS:
            count += 1
            spec = M.instantiate(lens, d, o, alphabet, rng, desc["seed"])
            fails, info = fd.check(spec, probe_single, M.simplify_spec, feat_single, text_single)
            v.count("single_sweeps")
            v.count("list_ordered" if M.order_required(spec) else "list_multiset_only")
            v.count(f"lattice:{M.dims_class(spec)}:{optbits(o)}")
            if info is None:
                continue
            v.count("combinations_compared", len(info["exp"]))
            if any(n == 0 for n in lens):
                v.count("sweeps_with_empty_dim")
            if lens:
                keys_out.append(f"S|{lens}|{d}|{optbits(o)}")
            sampling = (sample is None and lens in ([2, 2, 2], [2, 3, 2]) and o == (0, 1, 0)
                        and M.dims_class(spec).startswith("zipped"))
            if sampling:
                sample = {"sweep": M.to_python(spec), "order_required": M.order_required(spec),
                          "list()": short(info["got"], 700), "len": len(info["got"]),
                          "reference_list_equal": info["ok_list"]}
            if not info["ok_list"] or not lens:
                continue
            # ---- filtered_sweep: sweeps without constants / exclude, every non-empty subset of the keys
            if not spec["const"] and not spec["excl"]:
                ik = [k for k, _ in spec["items"]]
                derived = [o_ for o_, _ in spec["deriv"] or [] if o_ not in ik]
                for r in range(1, len(ik) + 1):
                    for sub in itertools.combinations(ik, r):
                        ks = list(sub)
                        if rng.random() < 0.3:
                            ks.reverse()
                        if derived and rng.random() < 0.4:
                            ks.append(derived[rng.randrange(len(derived))])
                            v.count("filtered_with_derived_key")
                        case = {"spec": spec, "keys": ks, "as_tuple": rng.random() < 0.5}
                        _, finfo = fd.check(case, probe_filtered, simp_filtered, feat_filtered, text_filtered)
                        if sampling and finfo and len(ks) == 2:
                            sample[f"filtered_sweep({ks}).list()"] = short(finfo["got"], 300)
                        v.count("filtered_sweep_checks")
                        v.count("filtered_with_derivers" if spec["deriv"] else "filtered_without_derivers")
            # ---- count_sweep on a tiny real pipeline over 1..3 of the combination keys
            avail = [k for k, _ in spec["items"]]
            avail += [k for k in sorted(spec["const"] or {}) if k not in avail]
            avail += [o_ for o_, _ in spec["deriv"] or [] if o_ not in avail]
            nroots = min(len(avail), 1 + rng.randrange(3))
            roots = rng.sample(avail, nroots)
            variant = rng.randrange(2)
            pl = M.pipeline_for(roots, variant)
            modes = ["sweep", "list"] if rng.random() < 0.5 else ["sweep"]
            if not spec["deriv"] and info["exp"] and rng.random() < 0.4:
                modes.append("pandas-sweep" if rng.random() < 0.5 else "pandas-list")
            for mode in modes:
                case = {"spec": spec, "pl": pl, "mode": mode, "roots": roots, "variant": variant}
                _, cinfo = fd.check(case, probe_count, simp_count, feat_count, text_count)
                if sampling and cinfo:
                    sample[f"count_sweep[{mode}]"] = {"call": text_count(case)[:500], "result": short(cinfo["got"], 400)}
                v.count(f"count_sweep_checks[{mode}]")
    v.classes.add(f"single-n{len(lens)}")
    return keys_out, sample


def _pair_ops(fd, v, ops, forms_product, forms_concat):
    if not all(healthy(o) for o in ops):
        v.count("compound_skipped_because_an_operand_alone_misbehaves")
        return False
    for form in forms_product:
        case = {"ops": ops, "form": form}
        fd.check(case, probe_product, simp_ops, feat_ops, text_ops, ops_healthy)
        v.count(f"product_checks[{len(ops)} operands,{form}]")
    for form in forms_concat:
        case = {"ops": ops, "form": form}
        fd.check(case, probe_concat, simp_ops, feat_ops, text_ops, ops_healthy)
        v.count(f"concat_checks[{form}]")
    return True


def run_pair(desc, v, fd):
    pool = M.operand_pool(desc["tier"])
    L = pool[desc["L"]]
    rng = random.Random(f"c17/pair/{desc['seed']}/{desc['L']}")
    keys_out, sample = [], None
    n = 0
    lefts = [pin(M.instantiate(L[0], L[1], o, M.ALPHABETS[0], rng, desc["seed"])) for o in OPTS]
    for ri, R in enumerate(pool):
        if len(L[0]) == 3 and len(R[0]) == 3:
            continue
        keys_out.append(f"P|{desc['L']}|{ri}")
        rights = [pin(M.instantiate(R[0], R[1], ro, M.ALPHABETS[1], rng, desc["seed"])) for ro in OPTS]
        for lo, left in zip(OPTS, lefts):
            for ro, right in zip(OPTS, rights):
                n += 1
                ops = [left, right]
                forms_c = [["add"], ["multi+multi"], ["MultiSweep"], [], ["combine"], ["multi.combine(multi)"]][n % 6]
                if not _pair_ops(fd, v, ops, ["flat"], forms_c):
                    continue
                v.count("pairs")
                if trigger26(ops):
                    v.count("pairs_left-dims-none_right-zipped")
                if left["dims"] is not None and any(len(g) > 1 for g in M.groups_of(left)) and right["dims"] is None:
                    v.count("pairs_left-zipped_right-dims-none")
                v.count(f"pair_options:{optbits(lo)}x{optbits(ro)}")
                if sample is None and desc["L"] in (20, 45) and lo == (1, 0, 1) and ro == (0, 1, 1) and len(R[0]) == 2:
                    case = {"ops": ops, "form": "flat"}
                    _, info = probe_product(case)
                    if info and len(info["exp"]) >= 2:
                        sample = {"product": text_ops(case), "list()": short(info["got"], 500),
                                  "reference_len": len(info["exp"])}
    if n:
        try:  # outside the statement: a product without operands (observed only)
            build(lefts[0]).product()
            v.count("unary_product_ok")
        except Exception:  # noqa: BLE001
            v.count("unary_product_raises")
    v.classes.add("pairs")
    return keys_out, sample


def run_triple(desc, v, fd):
    pool = M.operand_pool("quick")
    rng = random.Random(f"c17/triple/{desc['seed']}/{desc['batch']}")
    keys_out, sample = [], None
    for t in range(desc["n"]):
        idx = [rng.randrange(len(pool)) for _ in range(3)]
        opts = [OPTS[rng.randrange(8)] for _ in range(3)]
        if t % 4 == 0:  # make sure every ingredient of the MIDDLE operand is exercised on its own
            opts = [(0, 0, 0), OPTS[1 + (t // 4) % 7], (0, 0, 0)]
        ops = [pin(M.instantiate(pool[i][0], pool[i][1], o, M.ALPHABETS[p], rng, desc["seed"]))
               for p, (i, o) in enumerate(zip(idx, opts))]
        form = "flat" if t % 3 else "nested"
        forms_c = [["add"], ["MultiSweep"], ["add-right"], ["combine"], ["multi+multi"], ["multi.combine(multi)"]][t % 6]
        if not _pair_ops(fd, v, ops, [form], forms_c):
            continue
        v.count("triples")
        for nm, b in zip(("constants", "derivers", "exclude"), opts[1]):
            if b:
                v.count(f"triples_middle_with_{nm}[{form}]")
        keys_out.append(f"T|{idx}|{[optbits(o) for o in opts]}|{form}")
        if sample is None and desc["batch"] == 0 and t % 4 and form == "flat" and all(len(pool[i][0]) for i in idx):
            case = {"ops": ops, "form": form}
            _, info = probe_product(case)
            if info and len(info["exp"]) >= 2:
                sample = {"product": text_ops(case), "list()": short(info["got"], 500), "reference_len": len(info["exp"])}
    v.classes.add("triples")
    return keys_out, sample


def run_extra(desc, v):
    """Two monitors added after seeded changes were missed (DESIGN 9.1):
    (a) the exclude predicate sees the FINAL combination (constants added, derivers applied), also through product;
    (b) no operation on a sweep changes what its operands enumerate afterwards (list() before == list() after)."""
    import random

    from pipefunc.sweep import Sweep

    rng = random.Random(f"c17x:{desc['seed']}:{desc['batch']}")
    keys = []
    for n in range(desc["n"]):
        na, nb = rng.randint(1, 3), rng.randint(1, 3)
        A = [rng.randint(0, 5) for _ in range(na)]
        B = [rng.randint(0, 5) for _ in range(nb)]
        overwrite = rng.random() < 0.5
        dkey = "a" if overwrite else "d"
        bad = {rng.randint(0, 60) for _ in range(3)} | {10 * A[0] + (B[0] if rng.random() < 0.5 else 0)}
        deriver = lambda c: 10 * c["a"] + c["b"]  # noqa: E731
        excl = lambda c, bad=bad, dkey=dkey: c[dkey] in bad  # noqa: E731
        exp = []
        for a in A:
            for b in B:
                c = {"a": a, "b": b, "k": "K"}
                c[dkey] = 10 * a + b
                if c[dkey] not in bad:
                    exp.append(c)
        wit = dict(items={"a": A, "b": B}, deriver=f"{dkey} = 10*a + b", exclude=f"{dkey} in {sorted(bad)}")
        forms = {
            "single": lambda: Sweep({"a": A, "b": B}, constants={"k": "K"}, derivers={dkey: deriver}, exclude=excl),
            "product:deriver-left,exclude-right": lambda: Sweep({"a": A}, derivers={dkey: deriver} if not overwrite else None, constants={"k": "K"}).product(
                Sweep({"b": B}, exclude=excl, derivers={dkey: deriver} if overwrite else None)),
        }
        for fname, mk in forms.items():
            try:
                sw = mk()
                got = sw.list()
                ln = len(sw)
            except Exception as e:  # noqa: BLE001
                v.bad(exc_sig(e, f"exclude-on-derived:{fname}") + ("/deriver-overwrites-item" if overwrite else "/deriver-adds-key"),
                      f"sweep whose exclude reads a derived key raised {exc_msg(e)}", **wit)
                continue
            v.count("exclude_on_derived_checks")
            if ms(got) != ms(exp):
                v.bad(f"exclude-on-derived:wrong-combos/{fname}" + ("/deriver-overwrites-item" if overwrite else "/deriver-adds-key"),
                      f"got {short(got)} expected {short(exp)}", **wit)
            elif ln != len(exp):
                v.bad(f"exclude-on-derived:len/{fname}", f"len={ln}, list has {len(exp)}", **wit)
        # (b) operands are not changed by operations on them
        s1 = Sweep({"a": A}, dims=None if rng.random() < 0.7 else ["a"], constants={"k": "K"} if rng.random() < 0.5 else None)
        s2 = Sweep({"b": B}, dims=[("b",)] if rng.random() < 0.5 else None)
        s3 = Sweep({"c": [7, 8]})
        before = {"s1": s1.list(), "s2": s2.list(), "s3": s3.list()}
        ops = [("product", lambda: s1.product(s2)), ("product3", lambda: s1.product(s2, s3)), ("add", lambda: s1 + s2),
               ("filtered_sweep", lambda: s1.filtered_sweep(("a",))), ("add_derivers", lambda: s1.add_derivers(z=lambda c: 1)),
               ("product-right", lambda: s3.product(s1))]
        rng.shuffle(ops)
        for oname, op in ops[:3]:
            try:
                res = op()
                list(res) if not hasattr(res, "list") else res.list()
            except Exception as e:  # noqa: BLE001
                v.count("operand_check_op_raised")
                continue
            v.count("operand_unchanged_checks")
            for nm, sw in (("s1", s1), ("s2", s2), ("s3", s3)):
                try:
                    now = sw.list()
                except Exception as e:  # noqa: BLE001
                    v.bad(exc_sig(e, f"operand-broken-after:{oname}"), f"{nm}.list() raises after {oname}: {exc_msg(e)}", A=A, B=B)
                    continue
                if now != before[nm] or len(sw) != len(before[nm]):
                    v.bad(f"operand-changed-by:{oname}", f"{nm} enumerated {short(before[nm])} before and {short(now)} after {oname}", A=A, B=B)
        keys.append(f"extra|{A}|{B}|{overwrite}|{sorted(bad)}")
    return keys, None


def run_case(desc):
    v = V()
    fd = Finder(v)
    _PINNED.clear()
    _HEALTH.clear()
    if desc["kind"] == "extra":
        keys, sample = run_extra(desc, v)
    elif desc["kind"] == "single":
        keys, sample = run_single(desc, v, fd)
    elif desc["kind"] == "pair":
        keys, sample = run_pair(desc, v, fd)
    else:
        keys, sample = run_triple(desc, v, fd)
    fd.flush()
    return v.result(keys=keys, sample=sample)


def finalize(agg, tier, seed):
    c = agg.counters
    floors = []
    need = {
        "exclude_on_derived_checks": 2000, "operand_unchanged_checks": 2000,
        "single_sweeps": 10000 if tier == "quick" else 150000,
        "list_ordered": 3000, "list_multiset_only": 3000, "sweeps_with_empty_dim": 2000,
        "filtered_sweep_checks": 5000, "filtered_with_derivers": 2000, "filtered_without_derivers": 2000,
        "filtered_with_derived_key": 300,
        "count_sweep_checks[sweep]": 5000, "count_sweep_checks[list]": 2000,
        "count_sweep_checks[pandas-sweep]": 100, "count_sweep_checks[pandas-list]": 100,
        "pairs": 200000 if tier == "quick" else 1000000,
        "pairs_left-dims-none_right-zipped": 1000, "pairs_left-zipped_right-dims-none": 1000,
        "triples": 20000,
        "triples_middle_with_constants[flat]": 1000, "triples_middle_with_derivers[flat]": 1000,
        "triples_middle_with_exclude[flat]": 1000, "triples_middle_with_exclude[nested]": 500,
        "concat_checks[add]": 20000, "concat_checks[MultiSweep]": 20000, "concat_checks[combine]": 20000,
        "concat_checks[add-right]": 2000, "concat_checks[multi+multi]": 2000, "concat_checks[multi.combine(multi)]": 2000,
    }
    for k, n in need.items():
        if c.get(k, 0) < n:
            floors.append(f"{k}={c.get(k, 0)} (< {n})")
    # every cell of the option lattice: dims class x (constants, derivers, exclude)
    missing = []
    for dc in ["items=0", "none", "strs", "strs-perm", "tuples", "tuples-perm", "zipped", "zipped-perm"]:
        for o in OPTS:
            if c.get(f"lattice:{dc}:{optbits(o)}", 0) < (2 if dc == "items=0" else 20):
                missing.append(f"{dc}:{optbits(o)}")
    if missing:
        floors.append(f"option-lattice cells not (sufficiently) visited: {missing[:8]}")
    for lo in OPTS:
        for ro in OPTS:
            if c.get(f"pair_options:{optbits(lo)}x{optbits(ro)}", 0) < 1000:
                floors.append(f"pair option combination {optbits(lo)}x{optbits(ro)} seen < 1000 times")
    lattice = {k[8:]: n for k, n in sorted(c.items()) if k.startswith("lattice:")}
    return floors, {"option_lattice": lattice}
