"""C03 - Map results and call counts are independent of executor, storage and schedule (DESIGN 4/C03)."""
from __future__ import annotations

import asyncio
import itertools
import multiprocessing
import os
import random
from concurrent.futures import ProcessPoolExecutor, ThreadPoolExecutor

from vlib import mapgen, probes, sched
from vlib.util import V, exc_msg, exc_sig, multiset_diff, quiet, tmpdir

PROPERTY = "C03"
LEVEL = "exploration"
DEADLINE = 1500
CHUNK = 2
RULE = ("cases = MapSpec pipelines from vlib.mapgen (VERIF_SEED) whose sequential run matches the denotation; each is run "
        "under {map, map_async} x {ThreadPool(2-4), ProcessPool(2-3, fork), per-output executor dict with '' default, "
        "default pool, a thread pool attaching its own slow done-callbacks} x {file_array, dict, shared_memory_dict, per-output mix} with seeded per-call delays (0-3 ms) that "
        "shuffle completion order, and under a controlled executor that enumerates run/completion permutations (pi, sigma) "
        "of each generation's task batch (all permutations for batches <= 4 tasks, sampled beyond); monitors: every output "
        "and load_outputs == denotation, exactly-once call multiset per function from the cross-process call log, "
        "happens-before (every consumed producer call ended before the consumer call started); non-trivial = a generation "
        "with >= 2 tasks; distinct = (case signature, configuration, schedule)")
ASSUMPTIONS = ["oracle = vlib.mapgen.oracle (not 'whatever sequential returned')",
               "CLOCK_MONOTONIC timestamps are comparable across worker processes on Linux",
               "schedules are explored by permutation of submission batches, injected delays and real pools, not all interleavings"]

STOR = ["file_array", "dict", "shared_memory_dict", "mix"]
# "mixm": like "mix", but the members of a multi-output function are keyed individually (with different backends)


class AuditedThreadPool(ThreadPoolExecutor):
    """A thread pool that attaches its own (slow) done-callback to every future it hands out - as a monitoring or
    bookkeeping executor would.  Callbacks of a future run after its waiters are woken, in registration order."""

    def submit(self, fn, /, *args, **kwargs):
        import time

        fut = super().submit(fn, *args, **kwargs)
        fut.add_done_callback(lambda f: time.sleep(0.003))
        return fut


def _register_custom_storage():
    """A user-defined backend (vlib.customstorage), registered through the public register_storage.  Its data still lives in
    the coordinating process, like a DictArray's."""
    from pipefunc.map import storage_registry

    if "verif_dict_on_disk" not in storage_registry:
        from pipefunc.map._storage_array._base import register_storage

        from vlib.customstorage import VerifDictOnDisk

        register_storage(VerifDictOnDisk)


def plan(tier, seed):
    ncase = 60 if tier == "quick" else 600
    descs = []
    for i in range(ncase):
        descs.append({"kind": "pools", "seed": seed, "i": i, "delay_seeds": [1] if tier == "quick" else [1, 2, 3]})
        descs.append({"kind": "perm", "seed": seed, "i": i, "maxperm": 24 if tier == "quick" else 120})
    for i in range(ncase // 2):
        descs.append({"kind": "pieces", "seed": seed, "i": i})
    return descs


def _storage(case, st, i):
    if st not in ("mix", "mixm"):
        return st
    names = ["file_array", "dict", "shared_memory_dict"]
    d = {"": names[i % 3]}
    for k, f in enumerate(case["funcs"]):
        if f["mapspec"] is None:
            continue
        if st == "mixm" and len(f["outs"]) > 1:
            for m, o in enumerate(f["outs"]):
                d[o] = names[(i + k + m) % 3]
            continue
        key = tuple(f["outs"]) if len(f["outs"]) > 1 else f["outs"][0]
        d[key] = names[(i + k + 1) % 3]
    return d


def _none_plan(case, i):
    """(function name, term) of one mapped invocation that legitimately returns None (two of five cases), or None."""
    if i % 5 not in (2, 4):
        return None
    _, calls = mapgen.oracle(case)
    for f in case["funcs"]:
        if (f["mapspec"] and len(f["outs"]) == 1 and not f["internal_shape"] and len(calls[f["name"]]) >= 2 and not f.get("picker")
                and any(isinstance(m, list) for m in f["modes"].values())):
            return f["name"], calls[f["name"]][-1][1]
    return None


def _direct_deps(case):
    prod = {o: f["name"] for f in case["funcs"] for o in f["outs"]}
    return {f["name"]: {prod[p] for p in f["params"] if p in prod} for f in case["funcs"]}


def verify(v, case, env, exp_calls, res, folder, log, cfg, w):
    """Compare one finished run with the oracle. Returns completion-order signature."""
    from pipefunc.map import load_outputs

    ok = True
    for f in case["funcs"]:
        for o in f["outs"]:
            exp = probes.render(env[o])
            v.count("outputs_compared")
            if o not in res or probes.render(res[o].output) != exp:
                v.bad(f"result/{cfg}", f"output {o} differs from denotation under {cfg}",
                      got=probes.render(res[o].output)[:500] if o in res else None, expected=exp[:500], **w)
                ok = False
            if folder is not None:
                try:
                    with quiet():
                        lo = load_outputs(o, run_folder=folder)
                    v.count("load_outputs_compared")
                    if probes.render(lo) != exp:
                        v.bad(f"stored/{cfg}", f"load_outputs({o}) differs from denotation under {cfg}",
                              got=probes.render(lo)[:500], expected=exp[:500], **w)
                        ok = False
                except Exception as e:  # noqa: BLE001
                    v.bad(exc_sig(e, f"load_outputs/{cfg}"), f"load_outputs({o}) raised {exc_msg(e)}", **w)
                    ok = False
    calls = probes.log_read(log)
    v.count("probe_calls_logged", len(calls))
    pids = {c["pid"] for c in calls}
    if len(pids) > 1:
        v.count("runs_with_calls_in_several_processes")
    for f in case["funcs"]:
        got = [c["k"] for c in calls if c["f"] == f["name"]]
        exp = [t for _, t in exp_calls[f["name"]]]
        extra, miss = multiset_diff(got, exp)
        if extra or miss:
            v.bad(f"calls/{cfg}", f"{f['name']}: extra calls {extra[:2]} missing {miss[:2]} under {cfg}", **w)
            ok = False
    deps = _direct_deps(case)
    byf = {}
    for c in calls:
        byf.setdefault(c["f"], []).append(c)
    for c in calls:
        for pf in deps.get(c["f"], ()):
            for p in byf.get(pf, ()):
                if p["k"] in c["k"]:
                    v.count("happens_before_pairs")
                    if p["t1"] is None or p["t1"] > c["t0"]:
                        v.bad(f"premature-call/{cfg}", f"{c['f']} started before consumed {p['f']} call finished", **w)
                        ok = False
    order = tuple(tuple(sorted(range(len(byf.get(f["name"], []))), key=lambda j: byf[f["name"]][j]["t1"] or 0))
                  for f in case["funcs"])
    return ok, order


def run_cfg(v, case, env, exp_calls, scratch, entry, exname, st, idx, dseed, orders, piece=None, reuse=False):
    if st == "verif_dict_on_disk":
        _register_custom_storage()
    cfg = f"{entry}/{exname}/{st}" + ("/pieces" if piece else "") + ("/reused-executor" if reuse else "")
    w = dict(case=mapgen.describe(case), cfg=cfg, delay_seed=dseed, first_piece=str(piece))
    log = probes.new_log(scratch)
    fault = {f["name"]: {"delay": [dseed, 3]} for f in case["funcs"]} if dseed else None
    npl = _none_plan(case, idx) if not piece else None
    if npl:
        fault = fault or {}
        fault.setdefault(npl[0], {})["none"] = {npl[1]: 1}
    folder = os.path.join(scratch, f"run-{abs(hash(cfg)) % 10**8}-{dseed}")
    storage = _storage(case, st, idx)
    ctx = multiprocessing.get_context("fork")
    exs = []
    try:
        with quiet():
            pipeline = mapgen.build_pipeline(case, log=log, fault=fault)
        if exname == "thread":
            ex = ThreadPoolExecutor(2 + idx % 3)
            exs.append(ex)
        elif exname == "audited":
            ex = AuditedThreadPool(4)
            exs.append(ex)
        elif exname == "process":
            ex = ProcessPoolExecutor(2 + idx % 2, mp_context=ctx)
            exs.append(ex)
        elif exname == "process1":
            ex = ProcessPoolExecutor(1, mp_context=ctx)
            exs.append(ex)
        elif exname == "dictmix":
            a, b = ThreadPoolExecutor(2), ProcessPoolExecutor(2, mp_context=ctx)
            exs += [a, b]
            ex = {"": a if idx % 2 else b}
            for k, f in enumerate(case["funcs"]):
                if k % 2:
                    ex[tuple(f["outs"]) if len(f["outs"]) > 1 else f["outs"][0]] = b if idx % 2 else a
        elif exname == "default":
            ex = None
        else:
            raise AssertionError(exname)
        kw = dict(run_folder=folder, internal_shapes=mapgen.internal_shapes_arg(case), storage=storage)
        inputs = mapgen.make_inputs(case)
        with quiet():
            if reuse:
                # the SAME executor object (its worker processes / threads stay alive) first serves another map with other
                # input values into the same folder; nothing of that run may leak into the run that is judged
                pipeline.map(mapgen.variant_inputs(inputs, "~first"), executor=ex, parallel=True, **kw)
                probes.log_clear(log)
                v.count("runs_on_a_reused_executor")
            if piece:
                # the same executor first computes a PART of the map (every second index of one axis); the full run that
                # follows finds scattered stored elements and must compute exactly the rest
                pipeline.map(inputs, executor=ex, parallel=True, fixed_indices=piece, **kw)
                kw["cleanup"] = False
                v.count("pieces_first_runs")
            if entry == "map":
                res = pipeline.map(inputs, executor=ex, parallel=True, **kw)
            else:
                async def go():
                    r = pipeline.map_async(inputs, executor=ex, **kw)
                    return await r.task
                res = asyncio.run(go())
    except Exception as e:  # noqa: BLE001
        v.bad(exc_sig(e, f"run-raised/{entry}/{exname}/{st}" + ("/pieces" if piece else "")), f"run raised under {cfg}: {exc_msg(e)}", **w)
        return
    finally:
        for e_ in exs:
            e_.shutdown(wait=True)
    v.count("runs")
    v.count(f"runs:{entry}:{exname}")
    v.count(f"runs:{exname}:{st}")
    ok, order = verify(v, case, env, exp_calls, res, folder, log, cfg, w)
    orders.add(order)
    os.unlink(log)


def run_perm(v, case, env, exp_calls, scratch, desc):
    """Controlled executor: permutations of every generation batch, sync and async."""
    rng = random.Random(f"c03perm:{desc['seed']}:{desc['i']}")
    # discover batch sizes with the identity schedule
    sizes = []

    def discover(n, b):
        sizes.append(n)
        return list(range(n)), list(range(n))

    def one(pick, entry, st, tag):
        cfg = f"{entry}/controlled/{st}"
        log = probes.new_log(scratch)
        folder = os.path.join(scratch, f"perm-{tag}")
        ex = sched.ControlledExecutor(pick)
        w = dict(case=mapgen.describe(case), cfg=cfg)
        try:
            with quiet():
                npl = _none_plan(case, desc["i"])
                pipeline = mapgen.build_pipeline(case, log=log, fault=({npl[0]: {"none": {npl[1]: 1}}} if npl else None))
                kw = dict(run_folder=folder, internal_shapes=mapgen.internal_shapes_arg(case), storage=_storage(case, st, desc["i"]))
                inputs = mapgen.make_inputs(case)
                if entry == "map":
                    res = pipeline.map(inputs, executor=ex, **kw)
                else:
                    async def go():
                        r = pipeline.map_async(inputs, executor=ex, **kw)
                        return await r.task
                    res = asyncio.run(go())
        except Exception as e:  # noqa: BLE001
            v.bad(exc_sig(e, f"run-raised/{entry}/controlled/{st}"), f"run raised under {cfg} schedule {ex.batches}: {exc_msg(e)}",
                  schedule=ex.batches, **w)
            return None
        finally:
            ex.shutdown()
        v.count("runs")
        v.count(f"runs:{entry}:controlled")
        w["schedule"] = ex.batches
        verify(v, case, env, exp_calls, res, folder, log, cfg, w)
        os.unlink(log)
        return ex.batches

    b = one(discover, "map", "file_array", "disc")
    if b is None:
        return set()
    seen = set()
    budget = desc["maxperm"]
    for bi, n in enumerate(sizes):
        if n < 2:
            continue
        perms = list(itertools.permutations(range(n))) if n <= 4 else [tuple(rng.sample(range(n), n)) for _ in range(24)]
        pairs = [(p, s) for p in perms for s in (tuple(range(n)), tuple(reversed(range(n))), p)]
        if len(pairs) > budget:
            pairs = rng.sample(pairs, budget)
        for j, (pi, sigma) in enumerate(pairs):
            def pick(m, bno, bi=bi, pi=pi, sigma=sigma):
                if bno == bi and m == len(pi):
                    return list(pi), list(sigma)
                return list(range(m)), list(reversed(range(m)))
            entry = "map" if j % 2 == 0 else "map_async"
            st = STOR[(j + bi) % 3]
            bt = one(pick, entry, st, f"{bi}-{j}")
            if bt is not None:
                seen.add((entry, tuple(bt)))
                if n <= 4:
                    v.count("small_generation_permutations")
    return seen


def run_case(desc):
    if desc["kind"] == "pieces":
        # larger axes (2..5) and an axis that may be fixed: searched among the next generated cases
        v = V()
        case = None
        for t in range(40):
            rng = random.Random(f"c03pieces:{desc['seed']}:{desc['i']}:{t}")
            cand_case = mapgen.gen_case(rng, sizes={a: rng.randint(2, 5) for a in mapgen.AX}, allow_autogen=t % 2 == 1)
            cand, _ = mapgen.fixable_axes(cand_case)
            if cand and mapgen.nontrivial(cand_case):
                case, axis = cand_case, rng.choice(cand)
                break
        if case is None:
            v.count("pieces_no_fixable_case")
            return v.result(evaluations=0)
    else:
        case = mapgen.case_from_seed(desc["seed"], desc["i"], allow_autogen=desc["i"] % 2 == 1, allow_renames=desc["i"] % 3 == 0,
                                     allow_int_arrays=desc["i"] % 4 == 1, allow_picker=desc["i"] % 3 == 1)
        v = V()
    npl0 = _none_plan(case, desc["i"]) if desc["kind"] != "pieces" else None
    env, exp_calls = mapgen.oracle(case, none_terms=({npl0[1]} if npl0 else ()))
    if npl0:
        v.count("cases_with_a_None_valued_element")
    gens = max(len(c) for c in exp_calls.values())
    keys = []
    with tmpdir("c03-") as scratch:
        # sequential baseline must match the denotation; otherwise this is C01's business
        log = probes.new_log(scratch)
        try:
            with quiet():
                p = mapgen.build_pipeline(case, log=log, fault=({npl0[0]: {"none": {npl0[1]: 1}}} if npl0 else None))
                r = p.map(mapgen.make_inputs(case), run_folder=os.path.join(scratch, "seq"),
                          internal_shapes=mapgen.internal_shapes_arg(case), parallel=False, storage="dict")
            okseq = all(probes.render(r[o].output) == probes.render(env[o]) for f in case["funcs"] for o in f["outs"])
        except Exception:  # noqa: BLE001
            okseq = False
        if not okseq:
            v.count("skipped_sequential_baseline_refused")
            return v.result(evaluations=v.counters.get("runs", 0), )
        v.count("cases")
        if desc["kind"] == "pools":
            orders = set()
            i = desc["i"]
            cfgs = []
            for entry in ("map", "map_async"):
                for exname in ("thread", "process"):
                    for st in STOR:
                        cfgs.append((entry, exname, st))
                cfgs.append((entry, "process", "mixm"))
                cfgs.append((entry, "thread", "mixm"))
                cfgs.append((entry, "process", "verif_dict_on_disk"))
                cfgs.append((entry, "thread", "verif_dict_on_disk"))
                cfgs.append((entry, "dictmix", STOR[i % 4]))
                cfgs.append((entry, "audited", STOR[(i + 1) % 4]))
            cfgs.append(("map", "default", STOR[i % 3]))
            # every case runs a rotating subset (all 19 configurations are covered across cases)
            rng = random.Random(f"c03:{desc['seed']}:{i}")
            chosen = rng.sample(cfgs, 10)
            for dseed in desc["delay_seeds"]:
                for n_, (entry, exname, st) in enumerate(chosen):
                    run_cfg(v, case, env, exp_calls, scratch, entry, exname, st, i, dseed, orders,
                            reuse=(exname in ("thread", "process", "audited") and (n_ + i) % 3 == 0))
            v.count("distinct_completion_orders", len(orders))
            if gens >= 2:
                keys = [mapgen.signature(case) + f"|pools|{c}" for c in chosen]
        elif desc["kind"] == "pieces":
            orders = set()
            i = desc["i"]
            piece = {axis: slice(0, None, 2)}
            cfgs = [("map", "process1", STOR[i % 3]), ("map", "thread", STOR[(i + 1) % 3]), ("map_async", "process1", STOR[(i + 2) % 3]),
                    ("map", "process", "mixm"), ("map", "default", STOR[i % 3])]
            for entry, exname, st in cfgs:
                run_cfg(v, case, env, exp_calls, scratch, entry, exname, st, i, 0, orders, piece=piece)
            keys = [mapgen.signature(case) + f"|pieces|{c}" for c in cfgs]
        else:
            seen = run_perm(v, case, env, exp_calls, scratch, desc)
            v.count("distinct_permuted_schedules", len(seen))
            if gens >= 2:
                keys = [mapgen.signature(case) + f"|{s}" for s in seen]
    return v.result(evaluations=v.counters.get("runs", 0), keys=keys, sample={"case": mapgen.describe(case), "kind": desc["kind"],
                                       "schedules_seen": len(keys)} if desc["i"] % 25 == 0 else None)


def finalize(agg, tier, seed):
    c = agg.counters
    floors = []
    if c.get("runs", 0) < 300:
        floors.append(f"only {c.get('runs', 0)} runs (< 300)")
    if c.get("distinct_permuted_schedules", 0) < 100:
        floors.append(f"only {c.get('distinct_permuted_schedules', 0)} distinct permuted schedules (< 100)")
    for entry in ("map", "map_async"):
        for ex in ("thread", "process", "controlled", "audited"):
            if c.get(f"runs:{entry}:{ex}", 0) < 10:
                floors.append(f"runs:{entry}:{ex} = {c.get(f'runs:{entry}:{ex}', 0)} (< 10)")
    for ex in ("thread", "process"):
        for st in ("file_array", "dict", "shared_memory_dict", "mix"):
            if c.get(f"runs:{ex}:{st}", 0) < 3:
                floors.append(f"runs:{ex}:{st} = {c.get(f'runs:{ex}:{st}', 0)} (< 3)")
    total = c.get("cases", 0) + c.get("skipped_sequential_baseline_refused", 0)
    if total and c.get("skipped_sequential_baseline_refused", 0) * 3 > total:
        floors.append("more than a third of the cases skipped because the sequential baseline is refused (see C01)")
    if c.get("runs_on_a_reused_executor", 0) < 30:
        floors.append(f"only {c.get('runs_on_a_reused_executor', 0)} runs on an executor that already served another map (< 30)")
    if c.get("cases_with_a_None_valued_element", 0) < 8:
        floors.append(f"only {c.get('cases_with_a_None_valued_element', 0)} cases with a None-valued element (< 8)")
    if c.get("pieces_first_runs", 0) < 50:
        floors.append(f"only {c.get('pieces_first_runs', 0)} runs in pieces under pools (< 50)")
    if c.get("runs:process:mixm", 0) < 5:
        floors.append(f"runs:process:mixm = {c.get('runs:process:mixm', 0)} (< 5)")
    if c.get("happens_before_pairs", 0) < 1000:
        floors.append("fewer than 1000 happens-before pairs checked")
    return floors, {}
