"""C15 - Cache keys identify argument values: equal key iff equal value (DESIGN 4/C15)."""
from __future__ import annotations

import copy
import hashlib
import os
import pickle
import random
import subprocess
import sys
import warnings

from vlib import boot
from vlib import models_c15 as M
from vlib.util import V, exc_msg, exc_sig, tmpdir

PROPERTY = "C15"
LEVEL = "exploration"
DEADLINE = 600
RULE = ("values = own recursive spec generator (vlib.models_c15, depth<=3) over int/bool/float/complex/str/bytes/"
        "None/tuple/list/set/frozenset/dict/OrderedDict/defaultdict/Counter/deque/bytearray/array.array/ndarray "
        "(bool,int32,int64,float64,str; rank 0..2; plus a few object arrays)/pandas Series+DataFrame/instances of a "
        "picklable class without __hash__, from VERIF_SEED; per base value: 3 equal copies (deepcopy; rebuilt with "
        "fresh leaf objects; rebuilt with reversed insertion order of dicts/sets and Fortran/strided array layout), "
        "4 spec-level look-alike mutants (container type swaps, reorders, one leaf changed, dtype/shape/typecode/"
        "maxlen changed, pandas index/row/column changes ...) and the neighbouring independent value; keys via "
        "to_hashable / try_to_hashable with fallback_to_pickle on and (for natively handled values) off; "
        "cross-process batches recompute the keys in a fresh interpreter with another PYTHONHASHSEED; memoize "
        "streams run base/mutants/copies through a memoize'd probe per cache class; non-trivial = container with "
        ">=1 element; distinct = distinct canonical form of the base value")
ASSUMPTIONS = [
    "oracle = own structural equality veq (vlib.models_c15), cross-checked per pair against an independently written "
    "canonical form; never calls pipefunc",
    "numbers that compare equal but differ in scalar type (1/True/1.0), pandas dtypes and defaultdict.default_factory "
    "are left FREE (neither equal nor unequal keys demanded): the statement demands equal keys only for equal values "
    "of the same type and unequal keys for container type/structure/order/content differences",
    "deque maxlen, array.array typecode, ndarray dtype+shape, Series/DataFrame row order, index labels and column "
    "order are treated as part of the value (structure / significant order)",
    "excluded: NaN, values forging the '__CONVERTED__' marker tuple, Counter with zero counts",
    "cross-process equality is demanded only for values without pickle-fallback objects (natively handled types)",
]

CACHES = ["default", "simple", "lru", "lru_shared", "hybrid", "hybrid_shared", "disk", "disk_nolru"]
KFS = ["to_hashable", "try_to_hashable", "to_hashable/nofallback", "try_to_hashable/nofallback-ignore"]
NMUT = 4

# look-alike table with a per-kind floor (DESIGN: every type pair >= 100 times)
FLOOR_KINDS = [
    "list->tuple", "tuple->list", "list->set", "list->frozenset", "set->frozenset", "set->list", "frozenset->set",
    "frozenset->list", "dict->odict", "dict->ddict", "dict->counter", "odict->dict", "odict->ddict", "odict->counter",
    "ddict->dict", "ddict->odict", "ddict->counter", "counter->dict", "counter->odict", "counter->ddict",
    "reorder:list", "reorder:tuple", "reorder:odict", "reorder:deque", "leaf:int", "leaf:bool", "leaf:float",
    "leaf:complex", "leaf:str", "leaf:bytes", "leaf:count", "str->bytes", "nd-dtype", "nd-reshape", "nd-elem",
    "nd->list", "deque-maxlen", "deque->list", "bytearray->bytes", "bytes->bytearray", "array-typecode", "array-elem",
    "series-relabel", "series-row-reorder", "series-value", "series-name", "frame-relabel", "frame-row-reorder",
    "frame-col-reorder", "frame-value", "frame-col-rename", "obj->payload", "drop:list", "drop:dict", "drop:set",
]


def plan(tier, seed):
    descs = []
    if tier == "quick":
        npairs, nb, nx, xn, nm, mn = 160, 100, 16, 400, 1, 120
    else:
        npairs, nb, nx, xn, nm, mn = 1200, 120, 36, 1000, 8, 250
    for b in range(nx):  # slowest first
        descs.append({"kind": "xproc", "seed": seed, "batch": b, "n": xn, "hashseed": 1 + b % 3})
    for c in CACHES:
        for b in range(nm):
            descs.append({"kind": "memo", "seed": seed, "batch": b, "n": mn, "cache": c})
    for b in range(npairs):
        descs.append({"kind": "pairs", "seed": seed, "batch": b, "n": nb})
    for b in range(4 if tier == "quick" else 16):
        descs.append({"kind": "large", "seed": seed, "batch": b})
    for b in range(4 if tier == "quick" else 24):
        descs.append({"kind": "alias", "seed": seed, "batch": b, "n": 60})
    return descs


class VV(V):
    """V with a per-signature cap (a batch holds hundreds of values; one frequent mechanism must not hide
    the rarer ones behind V's total cap) and a per-signature occurrence counter."""

    def bad(self, sig, msg, **witness):
        self.counters[f"violation:{sig}"] += 1
        if sum(1 for x in self.violations if x["sig"] == sig) < 2 and len(self.violations) < 60:
            self.violations.append({"sig": sig, "msg": msg, "witness": witness})


# ------------------------------------------------------------------------------------------------- key functions
def make_kf(which, native):
    from pipefunc.cache import to_hashable, try_to_hashable

    if which == 0:
        return lambda x: to_hashable(x)
    if which == 1:
        return lambda x: try_to_hashable(x)
    if which == 2:
        return lambda x: to_hashable(x, fallback_to_pickle=not native)
    return lambda x: try_to_hashable(x, not native, "ignore")


class NoKey(Exception):
    pass


def get_key(kf, x):
    """(key, None) or (None, exception)."""
    from pipefunc.cache import UnhashableError

    try:
        with warnings.catch_warnings():
            warnings.simplefilter("ignore")
            k = kf(x)
    except Exception as e:  # noqa: BLE001
        return None, e
    if k is UnhashableError:
        return None, NoKey("try_to_hashable returned UnhashableError")
    return k, None


def keys_equal(ka, kb):
    try:
        return bool(ka == kb), None
    except Exception as e:  # noqa: BLE001
        return None, e


def try_hash(k):
    try:
        return hash(k), None
    except Exception as e:  # noqa: BLE001
        return None, e


# ------------------------------------------------------------------------------------------------- culprit search
def culprit_exc(spec, kf, etype):
    """Smallest sub-value for which the key function raises the same kind of exception."""
    for _, c, _, _ in M.children(spec):
        _, e = get_key(kf, M.build(c))
        if e is not None and type(e) is etype:
            return culprit_exc(c, kf, etype)
    _, e = get_key(kf, M.build(spec))
    return M.node_tag(spec), e


def culprit_unhashable(spec, kf):
    for _, c, _, _ in M.children(spec):
        k, e = get_key(kf, M.build(c))
        if e is None and try_hash(k)[1] is not None:
            return culprit_unhashable(c, kf)
    return M.node_tag(spec)


def _variant(spec, variant):
    if variant == "deepcopy":
        return copy.deepcopy(M.build(spec))
    return M.build(spec, variant)


def culprit_diff(spec, kf, variant):
    for _, c, _, _ in M.children(spec):
        ka, ea = get_key(kf, M.build(c))
        kb, eb = get_key(kf, _variant(c, variant))
        if ea is not None or eb is not None:
            continue
        if keys_equal(ka, kb)[0] is False:
            return culprit_diff(c, kf, variant)
    return M.node_tag(spec)


def report_exc(v, e, spec, kf, kfname, value, where="to_hashable"):
    tag, ce = culprit_exc(spec, kf, type(e))
    if isinstance(e, NoKey):
        v.bad(f"no-key:try_to_hashable-returned-UnhashableError/{tag}",
              f"{kfname} (unhashable_action='ignore') gave no key for a supported value",
              value=M.pyrepr(value)[:600], key_function=kfname)
        return
    v.bad(exc_sig(ce if ce is not None else e, "exc") + f"/{tag}", f"{kfname} raised instead of returning a key: {exc_msg(e)}",
          value=M.pyrepr(value)[:600], key_function=kfname)


def oracle(a, b):
    r = M.veq(a, b)
    if (r != M.NE) != (M.canon(a) == M.canon(b)):
        raise M.HarnessBug(f"veq={r} but canon {'==' if r == M.NE else '!='}: {M.pyrepr(a)} | {M.pyrepr(b)}")
    return r


# ------------------------------------------------------------------------------------------------- pairs
def check_group(v, spec, rng, i, prev, keys_out):
    """Base value + equal copies + look-alike mutants + neighbour.  Returns (value, key, kf) or None."""
    native = not M.contains_kind(spec, ("obj",))
    which = i % 4
    kf, kfname = make_kf(which, native), KFS[which]
    a = M.build(spec)
    v.count("values")
    v.count(f"kf:{kfname}")
    v.count(f"top:{spec[0]}")
    nontrivial = spec[0] != "leaf" and M.canon(a) not in ("T()", "L()")
    if nontrivial:
        keys_out.append(hashlib.md5(M.canon(a).encode()).hexdigest()[:12])
    ka, e = get_key(kf, a)
    if e is not None:
        v.count("values_raised")
        report_exc(v, e, spec, kf, kfname, a)
    else:
        h, he = try_hash(ka)
        v.count("keys_hashed")
        if he is not None:
            v.bad(f"unhashable-key/{culprit_unhashable(spec, kf)}", f"hash({kfname}(value)) raised {exc_msg(he)}",
                  value=M.pyrepr(a)[:600], key=repr(ka)[:400])
            ka = None
    # equal copies
    if ka is not None:
        for variant in ("deepcopy", "fresh", "perm"):
            b = _variant(spec, variant)
            if oracle(a, b) != M.EQ:
                raise M.HarnessBug(f"copy variant {variant} not EQ: {M.pyrepr(a)} | {M.pyrepr(b)}")
            kb, eb = get_key(kf, b)
            v.count("pairs_eq")
            v.count(f"eqcopy:{variant}")
            if eb is not None:
                v.bad(exc_sig(eb, "exc-on-equal-copy") + f"/{variant}/{culprit_exc(spec, kf, type(eb))[0]}",
                      f"{kfname} gave a key for a value but raised for an equal copy ({variant}): {exc_msg(eb)}",
                      value=M.pyrepr(a)[:500], copy=M.pyrepr(b)[:500])
                continue
            same, ce = keys_equal(ka, kb)
            if ce is not None:
                v.bad(exc_sig(ce, "key-compare-raises"), f"comparing two keys raised {exc_msg(ce)}",
                      value=M.pyrepr(a)[:500])
            elif not same:
                cul = culprit_diff(spec, kf, variant)
                cul = "Obj(pickle-fallback)" if cul == "Obj" else cul
                v.bad(f"unequal-keys-for-equal/{variant}/{cul}",
                      f"{kfname} gives different keys for equal values of the same type (copy variant '{variant}')",
                      value=M.pyrepr(a)[:500], equal_copy=M.pyrepr(b)[:500], key=repr(ka)[:300],
                      key_of_copy=repr(kb)[:300])
            elif try_hash(kb)[0] != h:
                v.bad(f"equal-keys-unequal-hash/{variant}", "equal keys with different hash()",
                      value=M.pyrepr(a)[:500])
    # look-alike mutants
    for _ in range(NMUT):
        m = M.mutate(rng, spec)
        if m is None:
            v.count("mutant_none")
            continue
        kind, parent, mspec, mpath = m
        b = M.build(mspec)
        r = oracle(a, b)
        if r != M.NE:
            v.count("mutant_not_ne")
            if r == M.FREE:  # no demand; record what pipefunc does
                v.count("pairs_free")
                kb, eb = get_key(kf, b)
                if ka is not None and eb is None:
                    v.count("pairs_free_keys_equal" if keys_equal(ka, kb)[0] else "pairs_free_keys_unequal")
            continue
        v.count(f"mut:{kind}")
        v.classes.add(f"mut:{kind}")
        mnative = native and not M.contains_kind(mspec, ("obj",))
        mkf = kf if mnative == native else make_kf(0, mnative)
        kb, eb = get_key(mkf, b)
        if eb is not None:
            v.count("mutants_raised")
            report_exc(v, eb, mspec, mkf, kfname, b)
            continue
        if try_hash(kb)[1] is not None:
            v.count("mutants_unhashable_key")
            v.bad(f"unhashable-key/{culprit_unhashable(mspec, mkf)}", f"hash({kfname}(value)) raised",
                  value=M.pyrepr(b)[:600], key=repr(kb)[:400])
            continue
        if ka is None:
            continue
        v.count("pairs_ne")
        same, ce = keys_equal(ka, kb)
        if ce is not None:
            v.bad(exc_sig(ce, "key-compare-raises"), f"comparing two keys raised {exc_msg(ce)}", value=M.pyrepr(a)[:500])
        elif same:
            where = f"@{parent}" if kind.startswith(("leaf:", "wrap:", "str->", "bytes->", "none->")) else ""
            extra = ""
            if kind.startswith("series-") and ",dup" in M.node_tag(M.get_at(spec, mpath)):
                extra = "/dup-index"
            v.bad(f"equal-keys-for-unequal/{kind}{where}{extra}",
                  f"{kfname} gives the same key for values that differ ({kind})",
                  value=M.pyrepr(a)[:500], look_alike=M.pyrepr(b)[:500], key=repr(ka)[:400])
    # neighbouring independent value
    if prev is not None and ka is not None and prev[1] is not None:
        pa, pk_ = prev[0], prev[1]
        r = oracle(a, pa)
        same, ce = keys_equal(ka, pk_)
        if ce is None:
            if r == M.NE:
                v.count("pairs_ne")
                v.count("pairs_independent")
                if same:
                    v.bad(f"equal-keys-for-unequal/independent:{type(a).__name__}~{type(pa).__name__}",
                          "same key for two different independent values", value=M.pyrepr(a)[:500],
                          other=M.pyrepr(pa)[:500], key=repr(ka)[:300])
            elif r == M.EQ:
                v.count("pairs_eq")
                if not same:
                    v.bad("unequal-keys-for-equal/independent", "different keys for two equal independent values",
                          value=M.pyrepr(a)[:500], other=M.pyrepr(pa)[:500])
            else:
                v.count("pairs_free")
    return a, ka


def run_pairs(desc):
    v = VV()
    keys = []
    prev = None
    sample = None
    for i in range(desc["n"]):
        rng = random.Random(f"c15/{desc['seed']}/pairs/{desc['batch']}/{i}")
        spec = M.gen_top(rng)
        prev = check_group(v, spec, rng, i, prev, keys)
        if desc["batch"] % 64 == 0 and i == 7:
            mm = M.mutate(random.Random(1), spec)
            sample = {"kind": "pairs", "value": M.pyrepr(prev[0])[:300], "key": repr(prev[1])[:300],
                      "mutant": None if mm is None else [mm[0], M.pyrepr(M.build(mm[2]))[:300]]}
    return v.result(keys=keys, sample=sample)


# ------------------------------------------------------------------------------------------------- cross-process
def xproc_specs(seed, batch, n):
    return [M.gen_top(random.Random(f"c15/{seed}/xproc/{batch}/{i}")) for i in range(n)]


def child_main():
    """Runs in a fresh interpreter: regenerate the values, compute keys, pickle them back."""
    warnings.simplefilter("ignore")
    seed, batch, n, out = int(sys.argv[1]), int(sys.argv[2]), int(sys.argv[3]), sys.argv[4]
    path = boot.repo_is_importable()
    from pipefunc.cache import to_hashable

    items = []
    specs = xproc_specs(seed, batch, n)
    if len(sys.argv) > 5:  # detail mode: keys of every sub-value of the listed values
        detail = {}
        for i in [int(x) for x in sys.argv[5].split(",")]:
            ks = []
            for _, node, _, _, _ in M.nodes(specs[i]):
                k, e = get_key(to_hashable, M.build(node))
                try:
                    ks.append(None if e is not None else pickle.dumps(k))
                except Exception:  # noqa: BLE001
                    ks.append(None)
            detail[i] = ks
        with open(out, "wb") as f:
            pickle.dump(detail, f)
        return
    for spec in specs:
        val = M.build(spec)
        k, e = get_key(to_hashable, val)
        if e is not None:
            items.append((M.canon(val), "exc", type(e).__name__))
            continue
        try:
            items.append((M.canon(val), "ok", pickle.dumps(k)))
        except Exception as pe:  # noqa: BLE001
            items.append((M.canon(val), "unpicklable", f"{type(pe).__name__}: {pe}"))
    with open(out, "wb") as f:
        pickle.dump({"probe_hash": hash("c15-hash-probe"), "pipefunc": path,
                     "hashseed": os.environ.get("PYTHONHASHSEED"), "items": items}, f)


def _spawn(d, env, args, out):
    p = subprocess.run([sys.executable, "-c", "import checks.c15 as c; c.child_main()"] + [str(a) for a in args],
                       env=env, timeout=400, capture_output=True, cwd=d)
    if p.returncode != 0 or not os.path.exists(out):
        raise M.HarnessBug(f"child interpreter failed rc={p.returncode}: {p.stderr.decode()[-1500:]}")
    with open(out, "rb") as f:
        return pickle.load(f)


def xproc_culprits(desc, hs, indices):
    """Second fresh interpreter: keys of every sub-value of the mismatching values -> smallest differing one."""
    from pipefunc.cache import to_hashable

    specs = xproc_specs(desc["seed"], desc["batch"], desc["n"])
    with tmpdir("c15x-") as d:
        out = os.path.join(d, "detail.pkl")
        env = dict(os.environ)
        env["PYTHONHASHSEED"] = str(hs)
        env["PYTHONPATH"] = os.pathsep.join([os.path.join(boot.HOME, "shim"), boot.REPO, boot.HOME])
        detail = _spawn(d, env, [desc["seed"], desc["batch"], desc["n"], out, ",".join(map(str, indices))], out)
    tags = {}
    for i in indices:
        best = None
        for (_, node, _, _, _), payload in zip(M.nodes(specs[i]), detail[i]):
            k, e = get_key(to_hashable, M.build(node))
            if e is not None or payload is None:
                continue
            if keys_equal(k, pickle.loads(payload))[0] is False:
                size = sum(1 for _ in M.nodes(node))
                if best is None or size < best[0]:
                    best = (size, M.node_tag(node))
        tags[i] = best[1] if best else M.node_tag(specs[i])
    return tags


def run_xproc(desc):
    from pipefunc.cache import to_hashable

    v = VV()
    seed, batch, n, hs = desc["seed"], desc["batch"], desc["n"], desc["hashseed"]
    if str(hs) == os.environ.get("PYTHONHASHSEED", ""):
        hs += 7
    specs = xproc_specs(seed, batch, n)
    with tmpdir("c15x-") as d:
        out = os.path.join(d, "keys.pkl")
        env = dict(os.environ)
        env["PYTHONHASHSEED"] = str(hs)
        env["PYTHONPATH"] = os.pathsep.join([os.path.join(boot.HOME, "shim"), boot.REPO, boot.HOME])
        res = _spawn(d, env, [seed, batch, n, out], out)
    v.count("xproc_children")
    if res["probe_hash"] != hash("c15-hash-probe"):
        v.count("xproc_children_with_other_str_hash")
    if len(res["items"]) != n:
        raise M.HarnessBug("child returned a different number of values")
    sample = None
    mismatches = []
    for i, (spec, (ccanon, status, payload)) in enumerate(zip(specs, res["items"])):
        a = M.build(spec)
        if M.canon(a) != ccanon:
            raise M.HarnessBug(f"child regenerated a different value: {ccanon} vs {M.canon(a)}")
        v.count("xproc_values")
        native = not M.contains_kind(spec, ("obj",))
        ka, e = get_key(to_hashable, a)
        if e is not None or status != "ok":
            if native and ((e is None) != (status == "ok")):
                v.bad(f"xproc-outcome-differs/{M.node_tag(spec)}",
                      f"parent {'key' if e is None else exc_msg(e)} vs child {status}:{str(payload)[:100]}",
                      value=M.pyrepr(a)[:500])
            v.count("xproc_raised_both" if e is not None and status == "exc" else "xproc_no_key")
            continue
        try:
            kc = pickle.loads(payload)
        except Exception as pe:  # noqa: BLE001
            v.bad(exc_sig(pe, "xproc-key-unpickle"), f"key from the other process cannot be unpickled: {exc_msg(pe)}",
                  value=M.pyrepr(a)[:500])
            continue
        same, ce = keys_equal(ka, kc)
        if not native:
            v.count("xproc_nonnative_equal" if same else "xproc_nonnative_differ")
            continue
        v.count("xproc_native_compared")
        if try_hash(ka)[1] is not None:
            continue
        if ce is not None or not same:
            mismatches.append((i, dict(value=M.pyrepr(a)[:500], key_here=repr(ka)[:300], key_there=repr(kc)[:300],
                                       hashseed=hs)))
        elif hash(ka) != hash(kc):
            v.bad("xproc-equal-keys-unequal-hash", "equal keys hash differently", value=M.pyrepr(a)[:500])
        if sample is None and i >= 5 and spec[0] in ("dict", "set", "nd"):
            sample = {"kind": "xproc", "hashseed_child": hs, "value": M.pyrepr(a)[:300], "key_parent": repr(ka)[:300],
                      "key_child": repr(kc)[:300]}
    if mismatches:
        idx = [i for i, _ in mismatches[:8]]
        tags = xproc_culprits(desc, hs, idx)
        for i, w in mismatches[:8]:
            v.bad(f"xproc-key-differs/{tags[i]}",
                  "key computed in a fresh interpreter (other PYTHONHASHSEED) differs from this process's key", **w)
    return v.result(keys=[], sample=sample if batch == 0 else None)


# ------------------------------------------------------------------------------------------------- memoize
def make_cache(kind, d):
    from pipefunc.cache import DiskCache, HybridCache, LRUCache, SimpleCache

    big = 10 ** 6
    if kind == "default":
        return None
    if kind == "simple":
        return SimpleCache()
    if kind == "lru":
        return LRUCache(max_size=big, shared=False)
    if kind == "lru_shared":
        return LRUCache(max_size=big, shared=True)
    if kind == "hybrid":
        return HybridCache(max_size=big, shared=False)
    if kind == "hybrid_shared":
        return HybridCache(max_size=big, shared=True)
    if kind == "disk":
        return DiskCache(d, lru_cache_size=16, lru_shared=False)
    if kind == "disk_nolru":
        return DiskCache(d, with_lru_cache=False)
    raise M.HarnessBug(kind)


def canon_call(args, kwargs):
    return ("A(" + ";".join(M.canon(x) for x in args) + ")K("
            + ";".join(f"{k}={M.canon(x)}" for k, x in sorted(kwargs.items())) + ")")


def run_memo(desc):
    from pipefunc.cache import memoize, to_hashable

    v = VV()
    cname = desc["cache"]
    probe_calls = []

    def probe(*args, **kwargs):
        probe_calls.append(1)
        return canon_call(args, kwargs)

    sample = None
    with tmpdir("c15m-") as d:
        cache = make_cache(cname, d)
        memo = memoize(cache=cache)(probe)
        seen = {}  # result string -> (group, label, value)
        for i in range(desc["n"]):
            rng = random.Random(f"c15/{desc['seed']}/memo/{desc['batch']}/{i}")
            spec = M.gen_top(rng)
            group = [("base", M.build(spec))]
            for _ in range(3):
                m = M.mutate(rng, spec)
                if m is not None:
                    group.append((m[0], M.build(m[2])))
            group.append(("copy:perm", M.build(spec, "perm")))
            group.append(("copy:deep", copy.deepcopy(group[0][1])))
            form = rng.choice(["pos", "pos", "kw", "pos2"])
            extra = rng.choice([0, 1, "a", None])
            for label, x in group:
                if form == "pos":
                    args, kwargs = (x,), {}
                elif form == "kw":
                    args, kwargs = (), {"x": x}
                else:
                    args, kwargs = (x, extra), {}
                expect = canon_call(args, kwargs)
                n0 = len(probe_calls)
                v.count(f"memo_calls:{cname}")
                try:
                    with warnings.catch_warnings():
                        warnings.simplefilter("ignore")
                        r = memo(*args, **kwargs)
                except Exception as e:  # noqa: BLE001
                    k, ke = get_key(to_hashable, x)
                    if ke is not None and type(ke) is type(e):
                        v.count("memo_raised_like_to_hashable")
                    elif ke is None and try_hash(k)[1] is not None and isinstance(e, TypeError):
                        v.count("memo_raised_unhashable_key")
                    else:
                        v.bad(exc_sig(e, "exc-memoize") + f"/{cname}", f"memoize'd call raised {exc_msg(e)}",
                              value=M.pyrepr(x)[:500], cache=cname)
                    continue
                hit = len(probe_calls) == n0
                if hit:
                    v.count(f"memo_hits:{cname}")
                v.count("memo_results_checked")
                if r != expect:
                    origin = seen.get(r)
                    if origin is None:
                        rel, ox = "unknown-origin", None
                    else:
                        og, ol, ox = origin
                        if og != i:
                            rel = "unrelated"
                        else:
                            kinds = sorted({ol, label} - {"base", "copy:perm", "copy:deep"})
                            rel = "~".join(kinds) or "copy"
                    cause = f"cache:{cname}"
                    if ox is not None:
                        k1, e1 = get_key(to_hashable, x)
                        k2, e2 = get_key(to_hashable, ox)
                        if e1 is None and e2 is None and keys_equal(k1, k2)[0]:
                            cause = "key-collision"
                    v.bad(f"stale-hit/{rel}/{cause}" if cause == "key-collision" else f"stale-hit/{cause}",
                          f"memoize ({cname}) returned the result stored for a different argument",
                          argument=M.pyrepr(x)[:500], stored_for=None if ox is None else M.pyrepr(ox)[:500],
                          returned=str(r)[:300], direct_result=expect[:300], cache=cname)
                else:
                    seen.setdefault(r, (i, label, x))
                if sample is None and hit and i > 3 and desc["batch"] == 0 and cname in ("lru_shared", "disk"):
                    sample = {"kind": "memo", "cache": cname, "argument": M.pyrepr(x)[:300], "label": label,
                              "result_from_cache": str(r)[:200], "direct_result": expect[:200]}
                # call-shape look-alikes: the same leaves arranged as different (args, kwargs); each distinct call
                # must get its own result (positional vs keyword, an argument that *looks like* an (args, kwargs) pair)
                x = group[0][1]
                shapes = [((x,), {}), ((), {"x": x}), (((x,), {}), {}), ((x,), {"a": extra}), (((x,), {"a": extra}), {}),
                          ((x, extra), {}), (((x, extra),), {}), ((x,), {"b": extra}), ((), {"a": extra, "x": x}),
                          (([x],), {}), ((x, {"a": extra}), {}), (((x,),), {}), ((), {"x": (x,)}), (((), {"x": x}), {})]
                rng.shuffle(shapes)
                for args, kwargs in shapes:
                    expect = canon_call(args, kwargs)
                    v.count("memo_shape_calls")
                    try:
                        with warnings.catch_warnings():
                            warnings.simplefilter("ignore")
                            r = memo(*args, **kwargs)
                    except Exception:  # noqa: BLE001  (judged above for the plain forms)
                        v.count("memo_shape_raised")
                        continue
                    if r != expect:
                        v.bad("stale-hit/call-shape",
                              f"memoize ({cname}) returned the result stored for a call with a different (args, kwargs) shape",
                              call=f"args={M.pyrepr(args)[:300]} kwargs={M.pyrepr(kwargs)[:200]}", returned=str(r)[:300],
                              direct_result=expect[:300], cache=cname)
        v.count(f"memo_probe_calls:{cname}", len(probe_calls))
    return v.result(keys=[], sample=sample)


def run_large(desc):
    """Values around plausible size thresholds (a fast path for "large" inputs must keep the key a function of the VALUE):
    for each large value an equal one built independently from fresh element objects (equal keys demanded) and one that
    differs in a single element (unequal keys demanded); also through memoize."""
    import numpy as np
    from pipefunc.cache import memoize, to_hashable

    v = VV()
    rng = random.Random(f"c15/{desc['seed']}/large/{desc['batch']}")
    sizes = [1000, 4096, 5000, 10000, 65536 + 3]
    n = sizes[desc["batch"] % len(sizes)] if desc["batch"] < len(sizes) else rng.choice(sizes)

    def fresh_elems(kind, k, salt=""):
        if kind == "str":
            return ["".join(["e", str(i), salt]) for i in range(k)]          # distinct objects every time
        if kind == "int":
            return [10 ** 6 + i for i in range(k)]                           # beyond the small-int cache
        if kind == "tuple":
            return [(i, "".join(["t", str(i % 7)])) for i in range(k)]
        if kind == "list":
            return [[i, i + 1] for i in range(k)]
        raise M.HarnessBug(kind)

    builders = []
    for ek in ("str", "int", "tuple", "list"):
        def obj_arr(ek=ek, change=None):
            e = fresh_elems(ek, n)
            if change is not None:
                e[change] = {"str": "CHANGED", "int": -5, "tuple": (-1, "x"), "list": [-1, -1]}[ek]
            a = np.empty(n, dtype=object)
            for i, x in enumerate(e):
                a[i] = x
            return a
        builders.append((f"ndarray-object[{ek}]", obj_arr))
        if ek in ("str", "int", "tuple"):
            def lst(ek=ek, change=None):
                e = fresh_elems(ek, n)
                if change is not None:
                    e[change] = {"str": "CHANGED", "int": -5, "tuple": (-1, "x")}[ek]
                return e
            builders.append((f"list[{ek}]", lst))
            builders.append((f"tuple[{ek}]", lambda ek=ek, change=None, lst=lst: tuple(lst(change=change))))
    for dt in ("int64", "float64", "uint8", "bool", "<U6"):
        def num(dt=dt, change=None):
            a = (np.arange(n) % 251).astype(dt) if dt != "<U6" else np.array([f"s{i % 97}" for i in range(n)], dtype=dt)
            if change is not None:
                a = a.copy()
                a[change] = (not a[change]) if dt == "bool" else ("zz" if dt == "<U6" else (a[change] + 1) % 250)
            return a
        builders.append((f"ndarray[{dt}]", num))
    builders.append(("str", lambda change=None: "".join(("x" if i != change else "y") for i in range(n))))
    builders.append(("bytes", lambda change=None: bytes((i % 251 if i != change else 255) for i in range(n))))
    builders.append(("dict", lambda change=None: {f"k{i}": (i if i != change else -1) for i in range(n)}))
    calls = []

    @memoize()
    def probe(x):
        calls.append(1)
        return len(calls)

    for name, build in builders:
        pos = rng.choice([0, n // 2, n - 1, rng.randrange(n)])
        w = dict(kind=name, size=n, changed_position=pos)
        try:
            with warnings.catch_warnings():
                warnings.simplefilter("ignore")
                a, b, c = build(), build(), build(change=pos)
                ka, kb, kc = to_hashable(a), to_hashable(b), to_hashable(c)
                hash(ka), hash(kb), hash(kc)
        except Exception as e:  # noqa: BLE001
            v.bad(exc_sig(e, f"large:{name.split('[')[0]}"), f"to_hashable of a large {name} raised {exc_msg(e)}", **w)
            continue
        v.count("large_values_compared")
        v.count(f"large:{name}")
        if not keys_equal(ka, kb)[0]:
            v.bad(f"unequal-keys-for-equal/large/{name}", f"two equal {name} of size {n} built independently get different keys", **w)
        if keys_equal(ka, kc)[0]:
            v.bad(f"equal-keys-for-unequal/large/{name}", f"{name} of size {n} differing in element {pos} get the same key", **w)
        if name.startswith(("ndarray-object", "list", "dict")):
            # in-place mutation of the SAME object: the key must follow the value
            try:
                if isinstance(a, dict):
                    a[f"k{pos}"] = -1
                elif name.startswith("ndarray-object[list]"):
                    a[pos].append(99)   # the element object itself changes
                    c = a
                else:
                    a[pos] = c[pos]
                k2 = to_hashable(a)
                v.count("large_in_place_mutations")
                if keys_equal(ka, k2)[0]:
                    v.bad(f"equal-keys-for-unequal/large-in-place/{name}", f"key of a {name} of size {n} unchanged after changing element {pos} in place", **w)
            except Exception as e:  # noqa: BLE001
                v.bad(exc_sig(e, f"large:{name.split('[')[0]}"), f"to_hashable of a large {name} raised {exc_msg(e)}", **w)
        try:
            with warnings.catch_warnings():
                warnings.simplefilter("ignore")
                x1, x2, x3 = build(), build(), build(change=pos)
                r1 = probe(x1); n1 = len(calls)
                r2 = probe(x2); n2 = len(calls)
                r3 = probe(x3); n3 = len(calls)
            v.count("large_memo_triples")
            if r3 == r1 or n3 == n2:
                v.bad(f"stale-hit/large/{name}", f"memoize returned the stored result for a {name} that differs in element {pos}", **w)
        except Exception:  # noqa: BLE001  (memoize raising is judged by the memo streams)
            pass
    return v.result(keys=[f"large|{n}|{name}" for name, _ in builders], evaluations=len(builders),
                    sample={"kind": "large", "size": n, "families": [b[0] for b in builders]} if desc["batch"] == 1 else None)


def run_alias(desc):
    """Object life cycles: (1) a READ-ONLY array that shares memory with a writeable one (a view, a broadcast) - the key of the
    same view object must follow the contents after the base was written to; (2) unhashable dataclass instances that differ
    only in the TYPE of something they hold (two dataclasses with equal field names, or a dict look-alike)."""
    import numpy as np
    from pipefunc.cache import memoize, to_hashable

    v = VV()
    rng = random.Random(f"c15/{desc['seed']}/alias/{desc['batch']}")
    def views(base):
        a = base.view(); a.setflags(write=False)
        yield "view", a
        b = base[:]; b.setflags(write=False)
        yield "full-slice", b
        yield "broadcast", np.broadcast_to(base, (2,) + base.shape)
        if base.ndim == 1 and base.size >= 4:
            c = base[::2]; c.setflags(write=False)
            yield "strided", c
        if base.ndim == 1 and base.size % 2 == 0:
            d = base.reshape(2, -1); d.setflags(write=False)
            yield "reshaped", d

    keys = []
    for _ in range(desc["n"]):
        dt = rng.choice(["int64", "float64", "uint8", "bool", "<U4", "int32"])
        n = rng.choice([2, 3, 4, 6, 8, 16, 1024, 4096])
        form = rng.randrange(5)
        base = (np.arange(n) % 5).astype(dt) if dt != "<U4" else np.array([f"s{i % 5}" for i in range(n)], dtype=dt)
        vs = list(views(base))
        name, view = vs[form % len(vs)]
        pos = 0  # (element 0 is part of every view form above)
        w = dict(dtype=dt, size=n, view=name)
        calls = []

        @memoize()
        def probe(x, calls=calls):  # (a memo of its own: equal contents of an earlier array would be a legitimate hit)
            calls.append(1)
            return len(calls)
        try:
            with warnings.catch_warnings():
                warnings.simplefilter("ignore")
                k1 = to_hashable(view)
                r1 = probe(view)
                base[pos] = (not base[pos]) if dt == "bool" else "zz" if dt == "<U4" else base[pos] + 1
                k2 = to_hashable(view)           # the SAME (still read-only) object, other contents
                kc = to_hashable(np.array(view))  # an independent writeable array with the current contents
                n_before = len(calls)
                r2 = probe(view)
        except Exception as e:  # noqa: BLE001
            v.bad(exc_sig(e, f"alias:{name}"), f"to_hashable / memoize of a read-only {name} raised {exc_msg(e)}", **w)
            continue
        v.count("readonly_views_rekeyed_after_base_write")
        v.count(f"readonly_view:{name}")
        keys.append(f"alias|{dt}|{n}|{name}")
        if not keys_equal(k2, kc)[0]:
            v.bad(f"unequal-keys-for-equal/read-only-{name}-after-base-write", f"read-only {name} of a written-to {dt} array and an equal independent "
                  "array get different keys", **w)
        if keys_equal(k1, k2)[0]:
            v.bad(f"equal-keys-for-unequal/read-only-{name}-after-base-write", f"key of a read-only {name} unchanged although the {dt} array it views "
                  f"was written to", **w)
        if r2 == r1 or len(calls) == n_before:
            v.bad(f"stale-hit/read-only-{name}-after-base-write", f"memoize returned the result stored for the OLD contents of a read-only {name}", **w)
    # (2) dataclasses
    payloads = [20.0, 3, (1, 2), 0, -1.5]
    for _ in range(desc["n"]):
        pay = rng.choice(payloads)
        wrap = rng.choice(["direct", "list", "tuple", "dict", "nested"])

        def hold(x, wrap=wrap):
            return {"direct": x, "list": [x], "tuple": (x, 1), "dict": {"k": x}, "nested": M.DOuter("in", x)}[wrap]
        variants = [("DCa", M.DOuter("s1", hold(M.DCa(pay)))), ("DCb", M.DOuter("s1", hold(M.DCb(pay)))),
                    ("dict", M.DOuter("s1", hold({"value": pay})))]
        w = dict(payload=repr(pay), held=wrap)
        try:
            with warnings.catch_warnings():
                warnings.simplefilter("ignore")
                ks = [(nm, to_hashable(x)) for nm, x in variants]
                k_again = to_hashable(M.DOuter("s1", hold(M.DCa(pay))))
                for _, k in ks:
                    hash(k)
        except Exception as e:  # noqa: BLE001
            v.bad(exc_sig(e, "alias:dataclass"), f"to_hashable of an unhashable dataclass raised {exc_msg(e)}", **w)
            continue
        v.count("dataclass_look_alike_triples")
        keys.append(f"alias|dataclass|{wrap}|{type(pay).__name__}")
        for x in range(3):
            for y in range(x + 1, 3):
                if keys_equal(ks[x][1], ks[y][1])[0]:
                    v.bad(f"equal-keys-for-unequal/dataclass-holding-{ks[x][0]}-vs-{ks[y][0]}", f"unequal dataclass instances (they hold a {ks[x][0]} / "
                          f"a {ks[y][0]} with equal fields, {wrap}) get the same key", **w)
        if not isinstance(pay, tuple) and not keys_equal(ks[0][1], k_again)[0]:
            v.bad("unequal-keys-for-equal/dataclass", "two equal dataclass instances built the same way get different keys", **w)
    # (4) DataFrames with REPEATED column labels: every column counts, not only the last one of a label
    import pandas as pd
    for _ in range(desc["n"] // 2):
        ncol = rng.randint(2, 4)
        nrow = rng.randint(1, 3)
        labels = [rng.choice(["x", "y"]) for _ in range(ncol)]
        if len(set(labels)) == ncol:
            labels[-1] = labels[0]
        cells = [[rng.randint(0, 5) for _ in range(ncol)] for _ in range(nrow)]
        dup_not_last = [j for j in range(ncol) if labels[j] in labels[j + 1:]]
        j = rng.choice(dup_not_last)
        other = [row[:] for row in cells]
        other[rng.randrange(nrow)][j] += 7
        wrap = rng.choice(["plain", "list", "dict"])
        hold = lambda x, wrap=wrap: {"plain": x, "list": [x, 1], "dict": {"df": x}}[wrap]  # noqa: E731
        w = dict(columns=labels, cells=cells, changed_column_position=j, held=wrap)
        try:
            with warnings.catch_warnings():
                warnings.simplefilter("ignore")
                ka = to_hashable(hold(pd.DataFrame(cells, columns=labels)))
                kb = to_hashable(hold(pd.DataFrame([row[:] for row in cells], columns=list(labels))))
                kc = to_hashable(hold(pd.DataFrame(other, columns=labels)))
                hash(ka), hash(kc)
        except Exception as e:  # noqa: BLE001
            v.bad(exc_sig(e, "alias:frame-with-repeated-labels"), f"to_hashable of a DataFrame with repeated column labels raised {exc_msg(e)}", **w)
            continue
        v.count("frames_with_repeated_column_labels")
        if not keys_equal(ka, kb)[0]:
            v.bad("unequal-keys-for-equal/frame-with-repeated-labels", "two equal DataFrames with repeated column labels get different keys", **w)
        if keys_equal(ka, kc)[0]:
            v.bad("equal-keys-for-unequal/frame-with-repeated-labels", f"DataFrames that differ in column position {j} (a label that occurs again "
                  "further right) get the same key", **w)
    # (3) a memoized function that changes its (mutable) argument in place: the result belongs to the arguments AS GIVEN
    from pipefunc.cache import HybridCache, LRUCache, SimpleCache
    for _ in range(desc["n"] // 2):
        cache = rng.choice([None, SimpleCache(), LRUCache(max_size=50, shared=False), HybridCache(max_size=50, shared=False)])
        kind = rng.choice(["list-pop", "dict-pop", "list-append"])
        n0 = rng.randint(3, 6)
        base = [rng.randint(0, 9) * 10 + j for j in range(n0)]
        count = []

        def mutating(x, count=count, kind=kind):
            count.append(1)
            if kind == "list-pop":
                return ("first", x.pop(0))
            if kind == "dict-pop":
                k = sorted(x)[0]
                return ("first", k, x.pop(k))
            x.append(len(x))
            return ("len-before", len(x) - 1)
        mem = memoize(cache=cache)(mutating) if cache is not None else memoize()(mutating)

        def make(vals):
            return {f"k{j}": val for j, val in enumerate(vals)} if kind == "dict-pop" else list(vals)
        after = base[1:] if kind != "list-append" else base + [len(base)]
        w = dict(function=kind, cache=type(cache).__name__ if cache is not None else "default", first_argument=repr(make(base)))
        try:
            with warnings.catch_warnings():
                warnings.simplefilter("ignore")
                r1 = mem(make(base))
                c1 = len(count)
                r2 = mem(make(after) if kind != "dict-pop" else {f"k{j + 1}": val for j, val in enumerate(after)})   # equals what the first argument BECAME
                c2 = len(count)
                r3 = mem(make(base))     # equals what the first argument WAS
                c3 = len(count)
        except Exception as e:  # noqa: BLE001
            v.bad(exc_sig(e, "alias:mutating-function"), f"memoized mutating function raised {exc_msg(e)}", **w)
            continue
        v.count("memoized_functions_that_mutate_their_argument")
        if c2 == c1 or r2 == r1:
            v.bad("stale-hit/argument-equal-to-what-an-earlier-argument-became", f"a call whose argument equals what an earlier call's argument became "
                  f"after that call mutated it was answered from the cache ({r2!r})", **w)
        if c3 != c2 or r3 != r1:
            v.bad("miss-for-equal/arguments-as-given-to-a-mutating-function", f"a repeated call with arguments equal to the first call's (as given) "
                  f"was {'re-executed' if c3 != c2 else 'answered with ' + repr(r3)} (first result {r1!r})", **w)
    return v.result(keys=keys, evaluations=2 * desc["n"], sample={"kind": "alias"} if desc["batch"] == 0 else None)


def run_case(desc):
    warnings.simplefilter("ignore")
    if desc["kind"] == "alias":
        return run_alias(desc)
    if desc["kind"] == "large":
        return run_large(desc)
    if desc["kind"] == "pairs":
        return run_pairs(desc)
    if desc["kind"] == "xproc":
        return run_xproc(desc)
    if desc["kind"] == "memo":
        return run_memo(desc)
    raise M.HarnessBug(desc["kind"])


def finalize(agg, tier, seed):
    floors = []
    c = agg.counters
    if c.get("large_values_compared", 0) < 40 or c.get("large:ndarray-object[str]", 0) < 3:
        floors.append(f"only {c.get('large_values_compared', 0)} large values compared (< 40)")
    q = tier == "quick"

    def need(k, n):
        if c.get(k, 0) < n:
            floors.append(f"{k}={c.get(k, 0)} (< {n})")

    need("readonly_views_rekeyed_after_base_write", 200 if q else 1200)
    need("dataclass_look_alike_triples", 200 if q else 1200)
    need("memoized_functions_that_mutate_their_argument", 100 if q else 600)
    need("frames_with_repeated_column_labels", 100 if q else 600)
    need("pairs_eq", 15000 if q else 300000)
    need("pairs_ne", 20000 if q else 450000)
    need("keys_hashed", 6000 if q else 100000)
    for variant in ("deepcopy", "fresh", "perm"):
        need(f"eqcopy:{variant}", 5000 if q else 100000)
    for k in FLOOR_KINDS:
        need(f"mut:{k}", 100 if q else 2000)
    for k in KFS:
        need(f"kf:{k}", 1500 if q else 25000)
    need("xproc_native_compared", 4000 if q else 25000)
    need("xproc_children", 8 if q else 30)
    if c.get("xproc_children_with_other_str_hash", 0) < c.get("xproc_children", 0):
        floors.append("some child interpreter had the same str hash as the parent (hash seed not varied)")
    for cn in CACHES:
        need(f"memo_calls:{cn}", 500 if q else 8000)
        need(f"memo_hits:{cn}", 100 if q else 1500)
    if len(agg.keys) < (4000 if q else 50000):
        floors.append(f"only {len(agg.keys)} distinct non-trivial base values")
    return floors, {}
