"""C13 - User-function failures surface unchanged, attributed and reproducible (DESIGN 4/C13).

Fault enumeration over (function, call) x exception type x execution mode: exactly one probe invocation
raises; the monitors look at the exception at the caller, its notes, the call log, the ErrorSnapshot API,
the run folder afterwards and a bounded-progress watchdog.
"""
from __future__ import annotations

import asyncio
import multiprocessing
import os
import zlib
import random
import traceback
from concurrent.futures import ProcessPoolExecutor, ThreadPoolExecutor

from vlib import daggen, mapgen, probes, sched
from vlib.util import Hang, V, deadline, exc_msg, quiet, tmpdir

PROPERTY = "C13"
LEVEL = "fault_enumeration"
DEADLINE = 900
CHUNK = 2
RULE = ("cases = MapSpec pipelines (vlib.mapgen) and call-DAGs (vlib.daggen) from VERIF_SEED; for each, every (function, "
        "expected invocation) - sampled down to 12 per case - is made the single failing invocation, for exception types "
        "ValueError(msg) / KeyError(k) / no-argument exception / importable two-argument custom class, under modes "
        "pipeline(...) / run / map sequential / thread pool / process pool / controlled executor (failing task at every "
        "position of the run order) / map_async; a case = (pipeline, failing invocation, exception type, mode); non-trivial "
        "= the injected exception really fired (observed in the call log)")
ASSUMPTIONS = ["'does not hang' is restated as bounded progress: tiny workloads must return within 60 s (re-run alone with 5x budget before reporting)",
               "ErrorSnapshot clauses are checked for in-process modes only, as the property states",
               "loadability after failure is checked for the file_array storage (memory storages persist only at the end of a run)"]
WATCHDOG = 60
EXC = [["ValueError", "injected msg"], ["KeyError", "injected-key"], ["Bare"], ["ProbeError", "pa", 7]]
MAP_MODES = ["seq", "thread", "process", "controlled", "async-thread", "async-controlled", "default-pool"]


def plan(tier, seed):
    n = 110 if tier == "quick" else 800
    ex = [0, 2, 3] if tier == "quick" else [0, 1, 2, 3]
    descs = []
    for i in range(n):
        descs.append({"kind": "map", "seed": seed, "i": i, "exc": [ex[(i + k) % len(ex)] for k in range(2 if tier == "quick" else 4)]})
        descs.append({"kind": "call", "seed": seed, "i": i, "exc": ex})
    return descs


def _same_exc(e, spec):
    want = probes.make_exc(spec)
    return type(e) is type(want) and e.args == want.args


def _gens(case):
    prod = {o: f["name"] for f in case["funcs"] for o in f["outs"]}
    gen = {}
    for f in case["funcs"]:
        gen[f["name"]] = 1 + max([gen[prod[p]] for p in f["params"] if p in prod and p not in f.get("bound", {})], default=0)
    return gen


def _note_ok(e, fname, kwargs_repr_items):
    """Some note names the function and, per argument, `key=` followed by the value's text (the repr of a
    numpy scalar string is np.str_('...'): only the value text and the key are demanded, not the exact repr)."""
    notes = getattr(e, "__notes__", None) or []
    for n in notes:
        if fname not in n:
            continue
        ok = True
        for item in kwargs_repr_items:
            key, _, val = item.partition("=")
            val = val.strip("'")
            if (key + "=") not in n or (val and val not in n):
                ok = False
        if ok:
            return True
    return False


def _check_exception(v, e, spec, fname, repr_items, mode, w, hang_ctx=None):
    if isinstance(e, Hang):
        return
    if not _same_exc(e, spec):
        v.bad(f"exception-changed/{mode}", f"caller saw {type(e).__name__}{e.args!r:.200}, injected {spec}", **w)
        return
    v.count("exceptions_compared")
    if not _note_ok(e, fname, repr_items):
        v.bad(f"note-missing/{mode}", f"no __notes__ entry names {fname} with all of {repr_items[:3]}; notes={getattr(e, '__notes__', None)!r:.400}", **w)


def _check_snapshot(v, pipeline, fname, spec, scratch, mode, w):
    from pipefunc import ErrorSnapshot

    snap = pipeline.error_snapshot
    fsnap = None
    for f in pipeline.functions:
        if f.__name__ == fname:
            fsnap = f.error_snapshot
    v.count("snapshots_checked")
    if fsnap is None or snap is None:
        v.bad(f"snapshot-missing/{mode}", f"error_snapshot not set (function={fsnap is not None}, pipeline={snap is not None})", **w)
        return
    for label, s in (("direct", fsnap), ("file", None)):
        if label == "file" and spec[0] == "Ctor":
            continue  # an exception that cannot be rebuilt from its args cannot be unpickled (Python, not pipefunc): direct form only
        try:
            if s is None:
                p = os.path.join(scratch, "snap.pkl")
                fsnap.save_to_file(p)
                s = ErrorSnapshot.load_from_file(p)
            with quiet():
                s.reproduce()
            v.bad(f"snapshot-reproduce-no-raise/{label}/{mode}", "reproduce() did not raise", **w)
        except Exception as e:  # noqa: BLE001
            if not _same_exc(e, spec):
                v.bad(f"snapshot-reproduce-differs/{label}/{mode}", f"reproduce() raised {type(e).__name__}{e.args!r:.200}, injected {spec}", **w)


# ------------------------------------------------------------------------------------------ map modes
def _run_map_mode(pipeline, case, mode, folder, pos_pick=None):
    kw = dict(run_folder=folder, internal_shapes=mapgen.internal_shapes_arg(case), storage="file_array")
    inputs = mapgen.make_inputs(case)
    ctx = multiprocessing.get_context("fork")
    ex = None
    try:
        if mode == "seq":
            return pipeline.map(inputs, parallel=False, **kw)
        if mode == "default-pool":  # executor=None, parallel=True: pipefunc creates (and shuts down) its own process pool
            return pipeline.map(inputs, parallel=True, **kw)
        if mode in ("thread", "async-thread"):
            ex = ThreadPoolExecutor(3)
        elif mode == "process":
            ex = ProcessPoolExecutor(2, mp_context=ctx)
        else:
            ex = sched.ControlledExecutor(pos_pick)
        if mode.startswith("async"):
            async def go():
                r = pipeline.map_async(inputs, executor=ex, **kw)
                return await r.task
            return asyncio.run(go())
        return pipeline.map(inputs, executor=ex, **kw)
    finally:
        if ex is not None:
            ex.shutdown(wait=True)


def inject_map(v, case, env, exp_calls, fname, ext_idx, term, spec, mode, scratch, tag, budget=WATCHDOG, variant=0,
               reuse=None, second=None):
    """One injected failure.  `reuse` = (pipeline, fault, log) of an earlier injection on the SAME pipeline object
    (the fault plan is mutated in place); `second` = (fname2, ext_idx2, term2, spec2) to inject afterwards on the
    same object (in-process modes): the snapshot must then describe the second failure."""
    from pipefunc.map import load_outputs

    w = dict(case=mapgen.describe(case), failing=[fname, term], exc=spec, mode=mode, second_failure_on_same_object=reuse is not None)
    folder = os.path.join(scratch, f"run-{tag}")
    if reuse is None:
        log = probes.new_log(scratch)
        fault = {f["name"]: {"raise": {}} for f in case["funcs"]}
        # (every fourth pipeline collects profiling statistics: the function then runs inside a profiler context)
        profiled = zlib.crc32(str(tag).encode()) % 4 == 0
        w["profile"] = profiled
        if profiled:
            v.count("failures_in_profiled_pipelines")
        with quiet():
            pipeline = mapgen.build_pipeline(case, log=log, fault=fault, pipeline_kwargs=({"profile": True} if profiled else {}))
    else:
        pipeline, fault, log = reuse
        probes.log_clear(log)
        v.count("second_failures_on_same_object")
    for d in fault.values():
        d["raise"].clear()
    fault[fname]["raise"][term] = spec
    n_total = len(exp_calls[fname])

    def pick(n, bno):
        # controlled executor: rotate the run order so that the failing task sits at position `variant`
        order = list(range(n))
        k = variant % n
        order = order[k:] + order[:k]
        return order, list(reversed(order))

    err = None
    try:
        with deadline(budget), quiet():
            _run_map_mode(pipeline, case, mode, folder, pick)
    except Hang as h:
        return "hang", "".join(traceback.format_tb(h.__traceback__))[-1500:]
    except BaseException as e:  # noqa: BLE001  (e.g. asyncio.CancelledError is not an Exception)
        if isinstance(e, (KeyboardInterrupt, SystemExit)):
            raise
        err = e
    v.count("injections")
    v.count(f"injections:{mode}:{spec[0]}")
    calls = probes.log_read(log)
    fired = [c for c in calls if c["f"] == fname and c["k"] == term and c["out"] == "raise"]
    if not fired:
        v.count("injection_not_reached")
        if err is not None:
            v.bad(f"unexpected-error/{mode}", f"run raised although the failing invocation never ran: {exc_msg(err)}", **w)
        return "noreach", None
    if err is None:
        v.bad(f"failure-swallowed/{mode}", "map returned normally although a user function raised", **w)
        return "done", None
    f = next(f for f in case["funcs"] if f["name"] == fname)
    # expected kwargs of the failing invocation: pipeline-level names, values as the probe received them
    kw = mapgen.call_kwargs(case, env, f, ext_idx)
    kwargs_items = [f"{p}={kw[p]!r}" if isinstance(kw[p], str) else p + "=" for p in f["params"]]
    v.count("note_items_exact", sum(1 for p in f["params"] if isinstance(kw[p], str)))
    _check_exception(v, err, spec, fname, kwargs_items, mode, w)
    # precise kwargs check: every scalar-string argument must appear as key='value'
    inputs = mapgen.make_inputs(case)
    gen = _gens(case)
    later = [c for c in calls if gen[c["f"]] > gen[fname]]
    v.count("later_generation_checks")
    if later:
        v.bad(f"later-generation-invoked/{mode}", f"{sorted({c['f'] for c in later})} invoked although {fname} (earlier generation) failed", **w)
    if mode == "seq":
        t_fail = fired[0]["t0"]
        after = [c for c in calls if c["t0"] > t_fail and gen[c["f"]] > gen[fname]]
        if after:
            v.bad("later-generation-invoked/seq-after", "call of a later generation after the failing one", **w)
    if mode in ("seq", "thread", "controlled", "async-thread", "async-controlled"):
        _check_snapshot(v, pipeline, fname, spec, scratch, mode, w)
    # results completed before the failure remain loadable (file_array)
    for g in case["funcs"]:
        if gen[g["name"]] < gen[fname]:
            for o in g["outs"]:
                try:
                    with quiet():
                        lo = probes.render(load_outputs(o, run_folder=folder))
                    v.count("loadable_after_failure")
                    if lo != probes.render(env[o]):
                        v.bad(f"earlier-output-wrong-after-failure/{mode}", f"load_outputs({o}) differs after failure", got=lo[:300], **w)
                except Exception as e:  # noqa: BLE001
                    v.bad(f"earlier-output-unloadable/{mode}:{type(e).__name__}", f"load_outputs({o}) raised {exc_msg(e)}", **w)
    is_map = f["mapspec"] is not None and any(isinstance(m, list) for m in f["modes"].values())
    if is_map:
        okcalls = {c["k"] for c in calls if c["f"] == fname and c["out"] == "ok"}
        ext = [a for a in f["out_axes"] if a not in f["internal"]]
        for oi, o in enumerate(f["outs"]):
            try:
                with quiet():
                    arr = load_outputs(o, run_folder=folder)
            except Exception as e:  # noqa: BLE001
                v.bad(f"failing-output-unloadable/{mode}:{type(e).__name__}", f"load_outputs({o}) raised {exc_msg(e)}", **w)
                continue
            import numpy as np
            exp = env[o]
            for eidx, t in exp_calls[fname]:
                key = tuple(eidx[ext.index(a)] if a in ext else slice(None) for a in f["out_axes"])
                try:
                    got = probes.render(arr[key])
                except Exception as e:  # noqa: BLE001
                    v.bad(f"failing-output-index/{mode}", f"cannot index loaded array: {exc_msg(e)}", **w)
                    break
                want = probes.render(exp[key])
                if t in okcalls:
                    v.count("completed_elements_checked")
                    if got != want:
                        v.bad(f"completed-element-lost/{mode}", f"element {eidx} of {o} completed before the failure but loads as {got[:120]}", **w)
                elif got != want and "<MASKED>" not in got:
                    v.bad(f"uncompleted-element-garbage/{mode}", f"element {eidx} of {o} never completed but loads as {got[:120]}", **w)
    if second is not None and mode in ("seq", "thread", "controlled", "async-thread", "async-controlled"):
        f2, e2, t2, s2 = second
        inject_map(v, case, env, exp_calls, f2, e2, t2, s2, mode, scratch, tag + "-2nd", budget=budget, variant=variant,
                   reuse=(pipeline, fault, log))
    return "done", None


def run_map_case(v, desc, scratch):
    case = mapgen.case_from_seed(desc["seed"], desc["i"], max_funcs=3, allow_bound=True, allow_renames=desc["i"] % 2 == 0, allow_picker=desc["i"] % 3 == 1)
    env, exp_calls = mapgen.oracle(case)
    if any(f.get("bound") for f in case["funcs"]):
        v.count("map_cases_with_bound_values")
    # only cases whose uninjected sequential run matches the oracle (C01's business otherwise)
    try:
        with quiet():
            p = mapgen.build_pipeline(case)
            r = p.map(mapgen.make_inputs(case), run_folder=os.path.join(scratch, "base"), parallel=False,
                      internal_shapes=mapgen.internal_shapes_arg(case), storage="file_array")
        if any(probes.render(r[o].output) != probes.render(env[o]) for f in case["funcs"] for o in f["outs"]):
            raise ValueError
    except Exception:  # noqa: BLE001
        v.count("skipped_baseline_refused")
        return []
    rng = random.Random(f"c13:{desc['seed']}:{desc['i']}")
    points = [(f["name"], eidx, t, k, len(exp_calls[f["name"]])) for f in case["funcs"] for k, (eidx, t) in enumerate(exp_calls[f["name"]])]
    if len(points) > 12:
        first_last = [p for p in points if p[3] in (0, p[4] - 1)]
        points = rng.sample(first_last, min(6, len(first_last))) + rng.sample(points, 6)
    keys = []
    n = 0
    m_it = -1
    for fname, eidx, term, k, tot in points:
        pos = "first" if k == 0 else ("last" if k == tot - 1 else "middle")
        for ei in desc["exc"][: 2]:
            spec = EXC[ei]
            modes = MAP_MODES if n % 3 == 0 else rng.sample(MAP_MODES, 3)
            m_it += 1
            if m_it % 5 == 2:
                # exception shapes with special behaviour: StopIteration (ends iterators silently; cannot cross asyncio futures, so
                # sync entry points only) and a class whose constructor signature differs from its args (in-process only)
                spec = [["StopIteration", "stop-msg"], ["Ctor", "x", "must not be negative"]][(m_it // 5) % 2]
                modes = ["seq", "thread", "controlled"] + (["process", "default-pool"] if spec[0] == "StopIteration" else [])
                v.count(f"special_exception_shapes:{spec[0]}")
            for mode in modes:
                n += 1
                second = None
                if n % 4 == 0 and len(points) > 1:
                    f2, e2, t2, _, _ = points[(n // 4) % len(points)]
                    if (f2, t2) != (fname, term):
                        second = (f2, e2, t2, EXC[(ei + 1) % len(EXC)])
                        if n % 8 == 4:
                            # both failures raise the SAME exception instance (a stored error that user code raises again):
                            # the second propagation must be attributed to the second invocation
                            spec = ["Same", f"stored error {desc['i']}-{n}"]
                            second = (f2, e2, t2, spec)
                            v.count("second_failures_raising_the_same_instance")
                st, info = inject_map(v, case, env, exp_calls, fname, eidx, term, spec, mode, scratch, f"{n}", variant=n, second=second)
                if st == "hang":
                    v.count("watchdog_fired")
                    st2, info2 = inject_map(v, case, env, exp_calls, fname, eidx, term, spec, mode, scratch, f"{n}b",
                                            budget=5 * WATCHDOG, variant=n)
                    if st2 == "hang":
                        blocked = info2 or ""
                        if "concurrent/futures" in blocked or "/pipefunc/" in blocked or "asyncio" in blocked:
                            v.bad(f"hang/{mode}", "call did not return within 5x the watchdog; main thread blocked in pipefunc/concurrent.futures",
                                  case=mapgen.describe(case), failing=[fname, term], stack=blocked)
                        else:
                            return None  # inconclusive
                if st == "done":
                    v.count(f"failing_index_{pos}")
                    keys.append(f"{mapgen.signature(case)}|{fname}|{term}|{spec[0]}|{mode}")
    return keys


# ------------------------------------------------------------------------------------------ call modes
def run_call_case(v, desc, scratch):
    case = daggen.case_from_seed(desc["seed"], desc["i"], max_funcs=4)
    rng = random.Random(f"c13c:{desc['seed']}:{desc['i']}")
    keys = []
    gen = _gens(case)
    for out in daggen.all_outputs(case):
        K = {r: f"v_{r}" for r in daggen.needed_roots(case, out)}
        if desc["i"] % 3 == 1:
            # argument values that are instances of a user dataclass (directly, or inside a list): the failing invocation and
            # its snapshot - also after a file round trip - must hold THOSE objects
            K = {r: (probes.Tag(x) if desc["i"] % 6 == 1 else [probes.Tag(x)]) for r, x in K.items()}
            v.count("failing_calls_with_dataclass_arguments")
        try:
            ref = daggen.ref_eval(case, out, K)
        except daggen.Missing:
            continue
        byn = {f["name"]: f for f in case["funcs"]}
        for fname in ref["calls"]:
            f = byn[fname]
            # term of the failing call
            args = {}
            for p in f["params"]:
                if p in f["bound"]:
                    args[p] = f["bound"][p]
                elif p in K:
                    args[p] = K[p]
                elif daggen.producer(case, p) is not None:
                    args[p] = ref["memo"][p]
                else:
                    args[p] = case["defaults"][p]
            term = daggen.call_term(f, args)
            for ei in list(desc["exc"]) + (["stop", "ctor"] if desc["i"] % 2 == 0 else []):
                spec = EXC[ei] if isinstance(ei, int) else {"stop": ["StopIteration", "stop-msg"], "ctor": ["Ctor", "x", "must not be negative"]}[ei]
                form = rng.choice(["call", "run", "full"])
                log = probes.new_log(scratch)
                fault_d = {fname: {"raise": {term: spec}}}
                profiled = rng.random() < 0.25
                if profiled:
                    v.count("failures_in_profiled_pipelines")
                with quiet():
                    pipeline = daggen.build_pipeline(case, log=log, fault=fault_d, pipeline_kwargs=({"profile": True} if profiled else {}))
                w = dict(case=daggen.describe(case), output=out, failing=[fname, term], exc=spec, mode=form, profile=profiled)
                err = None
                try:
                    with deadline(WATCHDOG), quiet():
                        if form == "call":
                            pipeline(out, **K)
                        else:
                            pipeline.run(out, full_output=(form == "full"), kwargs=dict(K))
                except Hang:
                    v.count("watchdog_fired")
                    v.bad(f"hang/{form}", "in-process call did not return within the watchdog", **w)
                    continue
                except Exception as e:  # noqa: BLE001
                    err = e
                v.count("injections")
                v.count(f"injections:{form}:{spec[0]}")
                if err is None:
                    v.bad(f"failure-swallowed/{form}", "call returned normally although a user function raised", **w)
                    continue
                items = [f"{p}={args[p]!r}" for p in f["params"]]
                _check_exception(v, err, spec, fname, items, form, w)
                calls = probes.log_read(log)
                t_fail = next((c["t0"] for c in calls if c["f"] == fname and c["out"] == "raise"), None)
                if t_fail is None:
                    v.bad(f"injection-not-reached/{form}", "failing invocation never ran but the call raised", **w)
                    continue
                after = [c["f"] for c in calls if c["t0"] > t_fail]
                v.count("later_generation_checks")
                if after:
                    v.bad(f"later-generation-invoked/{form}", f"{after} invoked after the failing call", **w)
                _check_snapshot(v, pipeline, fname, spec, scratch, form, w)
                keys.append(f"{daggen.signature(case)}|{out}|{fname}|{spec[0]}|{form}")
                # a second, different failure on the same pipeline object: the snapshot must describe it
                spec2 = EXC[((ei if isinstance(ei, int) else 0) + 1) % len(EXC)]
                fault_d[fname]["raise"][term] = spec2
                try:
                    with deadline(WATCHDOG), quiet():
                        pipeline(out, **K)
                    err2 = None
                except Hang:
                    continue
                except Exception as e:  # noqa: BLE001
                    err2 = e
                v.count("second_failures_on_same_object")
                if err2 is None:
                    v.bad(f"failure-swallowed/{form}", "second failing call returned normally", **w)
                else:
                    _check_exception(v, err2, spec2, fname, items, form + "/second-failure", w)
                    _check_snapshot(v, pipeline, fname, spec2, scratch, form + "/second-failure", w)
    return keys


def run_case(desc):
    v = V()
    with tmpdir("c13-") as scratch:
        if desc["kind"] == "map":
            keys = run_map_case(v, desc, scratch)
        else:
            keys = run_call_case(v, desc, scratch)
    if keys is None:
        r = v.result()
        r["status"] = "inconclusive"
        r["reason"] = "watchdog fired twice with the main thread outside pipefunc/concurrent.futures"
        return r
    return v.result(evaluations=v.counters.get("injections", 0), keys=keys, sample={"desc": desc, "injections": v.counters.get("injections", 0),
                                       "example": keys[0] if keys else None} if desc["i"] % 20 == 0 else None)


def finalize(agg, tier, seed):
    c = agg.counters
    floors = []
    for mode in MAP_MODES + ["call", "run", "full"]:
        for spec in ("ValueError", "ProbeError", "Bare"):
            if c.get(f"injections:{mode}:{spec}", 0) < (20 if spec == "Bare" else 50):
                floors.append(f"injections:{mode}:{spec} = {c.get(f'injections:{mode}:{spec}', 0)} (< 50)")
    for pos in ("first", "middle", "last"):
        if c.get(f"failing_index_{pos}", 0) < 200:
            floors.append(f"failing index {pos}: {c.get(f'failing_index_{pos}', 0)} (< 200)")
    if c.get("snapshots_checked", 0) < 500:
        floors.append("fewer than 500 snapshots checked")
    if c.get("map_cases_with_bound_values", 0) < 10:
        floors.append("fewer than 10 map cases with bound values")
    if c.get("second_failures_on_same_object", 0) < 200:
        floors.append("fewer than 200 second failures on the same pipeline object")
    if c.get("completed_elements_checked", 0) < 200:
        floors.append("fewer than 200 completed elements checked after a failure")
    return floors, {}
