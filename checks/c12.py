"""C12 - Ill-formed pipelines and inputs are rejected before any user code runs (DESIGN 4/C12).

Fault enumeration: every valid generated case is subjected to each single-fault mutation operator at every
applicable position.  Three monitors per fault: an exception is raised, the probe call log is empty, and the
content snapshot (names + sha256) of a run folder holding a valid completed run, opened with cleanup=False,
is unchanged.
"""
from __future__ import annotations

import copy
import os
import random
import shutil
from concurrent.futures import ThreadPoolExecutor

import numpy as np

from vlib import daggen, fsmon, mapgen, probes
from vlib.util import V, exc_msg, quiet, tmpdir

PROPERTY = "C12"
LEVEL = "fault_enumeration"
DEADLINE = 300
RULE = ("valid cases from vlib.mapgen / vlib.daggen (VERIF_SEED) x single-fault mutation operators {duplicate output, "
        "output named like own parameter, back edge (cycle), inconsistent defaults (at construction, and introduced later by updating one member function in place), MapSpec naming a non-parameter, MapSpec "
        "naming a wrong output, axis-name swap in one consumer, rank change in one consumer, dropped input, added input, "
        "resized zipped axis, changed input rank, scalar for a mapped input, unknown storage (string / per-output dict), "
        "executor with parallel=False, dropped / added keyword in pipeline(...) and run} at every applicable position; "
        "a case = (valid case, operator, position); non-trivial = all of them (each is a distinct ill-formed request)")
ASSUMPTIONS = ["'rejected' = any exception from construction or from the run/map call",
               "the run folder holds a completed valid run of the unmutated case written with the file_array storage"]
BATCH = 6


def plan(tier, seed):
    n = 300 if tier == "quick" else 5000
    descs = [{"kind": "map", "seed": seed, "start": s, "n": BATCH} for s in range(0, n, BATCH)]
    descs += [{"kind": "call", "seed": seed, "start": s, "n": 4 * BATCH} for s in range(0, n, 4 * BATCH)]
    return descs


# ----------------------------------------------------------------------------------- operators on map cases
def _prod(case, name):
    for f in case["funcs"]:
        if name in f["outs"]:
            return f
    return None


def _fix_ms(f):
    """Rebuild the MapSpec string of f from modes/out_axes."""
    if f["mapspec"] is None:
        return
    ins = ", ".join(f"{p}[{', '.join(':' if a is None else a for a in m)}]" for p, m in f["modes"].items() if isinstance(m, list)) or "..."
    outs = ", ".join(f"{o}[{', '.join(f['out_axes'])}]" for o in f["outs"])
    f["mapspec"] = f"{ins} -> {outs}"


def construct_faults(case, rng):
    """Yield (operator, position label, mutated case, extra build kwargs)."""
    fs = case["funcs"]
    outs = [o for f in fs for o in f["outs"]]
    for i, f in enumerate(fs):
        # duplicate output name
        for j, g in enumerate(fs):
            if j != i:
                c = copy.deepcopy(case)
                old = c["funcs"][i]["outs"][0]
                new = g["outs"][0]
                c["funcs"][i]["outs"][0] = new
                if c["funcs"][i]["mapspec"]:
                    c["funcs"][i]["mapspec"] = c["funcs"][i]["mapspec"].replace(f"{old}[", f"{new}[")
                yield "duplicate-output", f"f{i}<-f{j}", c, {}
                break
        # output named like one of its own parameters
        c = copy.deepcopy(case)
        p = f["params"][0]
        old = c["funcs"][i]["outs"][0]
        c["funcs"][i]["outs"][0] = p
        if c["funcs"][i]["mapspec"]:
            c["funcs"][i]["mapspec"] = c["funcs"][i]["mapspec"].replace(f"{old}[", f"{p}[")
        yield "output-named-like-own-parameter", f"f{i}", c, {}
        # cycle: the function additionally takes an output that (transitively) depends on it
        dependents = []
        seen = set(f["outs"])
        for g in fs[i + 1:]:
            if any(p in seen for p in g["params"]):
                seen.update(g["outs"])
                dependents.append(g["outs"][0])
        if dependents:
            c = copy.deepcopy(case)
            back = dependents[-1]
            c["funcs"][i]["params"] = c["funcs"][i]["params"] + [back]
            c["funcs"][i]["modes"][back] = "whole"
            yield "cycle", f"f{i}<-{back}", c, {}
        else:
            c = copy.deepcopy(case)
            own = f["outs"][0]
            # self-loop through a second function
            c["funcs"].append({"name": "fz", "params": [own], "outs": ["zz_loop"], "mapspec": None, "modes": {own: "whole"},
                               "out_axes": [], "internal": [], "internal_shape": [], "ret_list": False, "ishape_via": None})
            c["funcs"][i]["params"] = c["funcs"][i]["params"] + ["zz_loop"]
            c["funcs"][i]["modes"]["zz_loop"] = "whole"
            yield "cycle", f"f{i}<-zz_loop", c, {}
        if f["mapspec"] is not None:
            mapped = [p for p, m in f["modes"].items() if isinstance(m, list)]
            if mapped:
                c = copy.deepcopy(case)
                p = mapped[0]
                c["funcs"][i]["mapspec"] = c["funcs"][i]["mapspec"].replace(f"{p}[", "zz_nope[", 1)
                yield "mapspec-names-non-parameter", f"f{i}:{p}", c, {}
            c = copy.deepcopy(case)
            o = f["outs"][0]
            c["funcs"][i]["mapspec"] = c["funcs"][i]["mapspec"].replace(f"{o}[", "zz_wrong_out[")
            yield "mapspec-names-wrong-output", f"f{i}:{o}", c, {}
            # axis-name swap / rank change in one consumer of an array that has named axes elsewhere
            for p in mapped:
                m = f["modes"][p]
                named = [k for k, a in enumerate(m) if a is not None]
                if not named:
                    continue
                src = _prod(case, p)
                other_users = [g for g in fs if g is not f and isinstance(g["modes"].get(p), list)
                               and g["modes"][p][named[0]] is not None]
                if src is None and not other_users:
                    continue  # a root array named by this consumer only: any axis name is fine
                c = copy.deepcopy(case)
                g = c["funcs"][i]
                old = m[named[0]]
                new = "q9"
                g["modes"][p] = [new if (k == named[0]) else a for k, a in enumerate(m)]
                if old not in [a for pp, mm in g["modes"].items() if isinstance(mm, list) for a in mm if a]:
                    g["out_axes"] = [new if a == old else a for a in g["out_axes"]]
                else:
                    g["out_axes"] = g["out_axes"] + [new]
                _fix_ms(g)
                yield "axis-name-swap-in-consumer", f"f{i}:{p}", c, {}
                c = copy.deepcopy(case)
                g = c["funcs"][i]
                g["modes"][p] = list(m) + ["q8"]
                g["out_axes"] = g["out_axes"] + ["q8"]
                _fix_ms(g)
                yield "rank-change-in-consumer", f"f{i}:{p}", c, {}
                break
    # three extra consumers of one array of rank >= 2: one reduces position k (':'), two name it - differently.
    # The reducing one is declared first / in the middle / last (a check that compares with the first spec only, or
    # lets ':' match anything transitively, misses some of these).
    ax = mapgen.array_axes(case)
    wide = [n for n, a in ax.items() if len(a) >= 2 and (n in case["roots"] or (_prod(case, n) or {}).get("mapspec"))]
    if wide:
        x = rng.choice(sorted(wide))
        axes = list(ax[x])
        k = rng.randrange(len(axes))

        def consumer(name, m):
            out_axes = [a for a in m if a is not None]
            g = {"name": name, "params": [x], "outs": [f"{name}_o"], "mapspec": "x", "modes": {x: list(m)}, "out_axes": out_axes,
                 "internal": [], "internal_shape": [], "ret_list": False, "ishape_via": None}
            _fix_ms(g)
            return g
        # the reducing consumer is declared first / in the middle / last AND sorts first / in the middle / last by name
        # (whatever order the implementation visits the specs in, some variant puts the reduction in front)
        for npos, nm in (("name-first", ("za", "zb", "zc")), ("name-middle", ("zb", "za", "zc")), ("name-last", ("zc", "za", "zb"))):
            red = consumer(nm[0], [None if j == k else a for j, a in enumerate(axes)])
            same = consumer(nm[1], axes)
            other = consumer(nm[2], ["q9" if j == k else a for j, a in enumerate(axes)])
            for pos, order in (("first", [red, same, other]), ("middle", [same, red, other]), ("last", [same, other, red])):
                c = copy.deepcopy(case)
                # consumers of a root array may come before everything else; consumers of an output after its producer
                if x in case["roots"]:
                    c["funcs"] = copy.deepcopy(order) + c["funcs"]
                else:
                    c["funcs"] = c["funcs"] + copy.deepcopy(order)
                yield "axis-name-conflict-beside-reduction", f"{x}[{k}]:reduction-{pos}/{npos}", c, {}
    # inconsistent defaults on a shared root parameter
    users = {}
    for f in fs:
        for p in f["params"]:
            if p in case["roots"]:
                users.setdefault(p, []).append(f["name"])
    for p, us in users.items():
        if len(us) >= 2:
            yield "inconsistent-defaults", f"{p}:{us[0]},{us[1]}", copy.deepcopy(case), {
                "extra": {us[0]: {"defaults": {p: "D1"}}, us[1]: {"defaults": {p: "D2"}}}}
            # consistent at construction, made inconsistent afterwards by updating ONE member function in place
            second = next(f for f in fs if f["name"] == us[1])
            yield "inconsistent-defaults-after-member-update", f"{p}:{us[1]}", copy.deepcopy(case), {
                "extra": {us[0]: {"defaults": {p: "D1"}}, us[1]: {"defaults": {p: "D1"}}},
                "_post": (second["outs"][0], {p: "D2"})}
            break


def input_faults(case, inputs, rng):
    """Yield (operator, label, inputs', map kwargs')."""
    roots = list(case["roots"])
    for r in roots:
        d = dict(inputs)
        del d[r]
        yield "dropped-input", r, d, {}
    yield "added-input", "zz_extra", {**inputs, "zz_extra": "q"}, {}
    # surplus relative to the part of the pipeline that is actually requested: a root that only feeds functions outside
    # the selected outputs, or that is cut off by a supplied intermediate array
    prod = {o: f for f in case["funcs"] for o in f["outs"]}

    def needed_roots(targets, cut=()):
        seen, need, stack = set(), set(), list(targets)
        while stack:
            n = stack.pop()
            if n in seen or n in cut:
                continue
            seen.add(n)
            if n in prod:
                stack.extend(prod[n]["params"])
            else:
                need.add(n)
        return need
    all_outs = [o for f in case["funcs"] for o in f["outs"]]
    for o in all_outs:
        if len(prod[o]["outs"]) == 1 and needed_roots([o]) < set(roots):
            yield "added-input", f"root-outside-output_names={o}", dict(inputs), {"output_names": {o}}
            break
    env = None
    for y in all_outs:
        if len(prod[y]["outs"]) == 1 and any(y in g["params"] for g in case["funcs"]):
            rest = [o for o in all_outs if o != y]
            if needed_roots(rest, cut={y}) < set(roots):
                env = env or mapgen.oracle(case, inputs)[0]
                yield "added-input", f"root-cut-off-by-supplied-{y}", {**inputs, y: env[y]}, {"auto_subpipeline": True}
                break
    for f in case["funcs"]:
        if f["mapspec"] is None:
            continue
        named = {}
        for p, m in f["modes"].items():
            if isinstance(m, list):
                for k, a in enumerate(m):
                    if a is not None:
                        named.setdefault(a, []).append((p, k))
        for a, lst in named.items():
            # a ROOT array zipped with an INTERMEDIATE array that does not derive from it at all: resizing the root makes the
            # request ill-formed just as well (and it has to be noticed before the producers of the intermediate run)
            def anc(name, seen=None):
                seen = set() if seen is None else seen
                if name in case["roots"]:
                    return {name}
                out_ = set()
                for g_ in case["funcs"]:
                    if name in g_["outs"] and g_["name"] not in seen:
                        seen.add(g_["name"])
                        for q_ in g_["params"]:
                            out_ |= anc(q_, seen)
                return out_
            inter = [(q, k) for q, k in lst if q not in case["roots"]]
            for p_, k_ in lst:
                if p_ in case["roots"] and inter and all(p_ not in anc(q) for q, _ in inter):
                    arr = mapgen._obj(inputs[p_])
                    pad = np.concatenate([arr, np.take(arr, [0], axis=k_)], axis=k_)
                    d = dict(inputs)
                    d[p_] = pad.tolist() if case["roots"][p_]["kind"] == "list" else pad
                    yield "resized-axis-zipped-with-an-intermediate", f"{f['name']}:{p_}[{a}]", d, {}
                    break
            # the zip partners must be two different ROOT arrays (an array derived from the resized root would simply
            # be resized with it, which is a valid request)
            lst = [(p, k) for p, k in lst if p in case["roots"]]
            if len({p for p, _ in lst}) >= 2:
                for p, k in lst:
                    if p in case["roots"]:
                        arr = mapgen._obj(inputs[p])
                        pad = np.concatenate([arr, np.take(arr, [0], axis=k)], axis=k)
                        d = dict(inputs)
                        d[p] = pad.tolist() if case["roots"][p]["kind"] == "list" else pad
                        yield "resized-zipped-axis", f"{f['name']}:{p}[{a}]", d, {}
                        break
    for r in roots:
        m_users = [f for f in case["funcs"] if isinstance(f["modes"].get(r), list)]
        if not m_users or not case["roots"][r]["axes"]:
            continue
        arr = mapgen._obj(inputs[r])
        d = dict(inputs)
        d[r] = np.stack([arr, arr], axis=-1)
        yield "changed-input-rank", f"{r}+1", d, {}
        if arr.ndim >= 2:
            d = dict(inputs)
            d[r] = arr[..., 0]
            yield "changed-input-rank", f"{r}-1", d, {}
        d = dict(inputs)
        d[r] = 12345
        yield "scalar-for-mapped-input", r, d, {}
    yield "unknown-storage", "string", inputs, {"storage": "zz_no_such_storage"}
    o = case["funcs"][-1]["outs"]
    yield "unknown-storage", "per-output-dict", inputs, {"storage": {"": "file_array", (tuple(o) if len(o) > 1 else o[0]): "zz_no_such_storage"}}
    yield "executor-with-parallel-false", "thread", inputs, {"executor": "THREAD", "parallel": False}


def zip_with_intermediate_family(seed, i):
    """Directed family: a root array w zipped (same axis name) with an intermediate y that derives from OTHER roots only."""
    rng = random.Random(f"c12zip:{seed}:{i}")
    sizes = {a: rng.randint(2, 3) for a in mapgen.AX}
    a, b = rng.sample(mapgen.AX, 2)
    two = rng.random() < 0.4
    kd = lambda: rng.choice(["list", "ndarray"])  # noqa: E731
    roots = {"x": {"axes": [a], "kind": kd()}, "w": {"axes": [a], "kind": kd()}}
    if two:
        roots["u"] = {"axes": [b], "kind": kd()}

    def fn(name, outs, modes, out_axes):
        ins = ", ".join(f"{p}[{', '.join(':' if m_ is None else m_ for m_ in m)}]" for p, m in modes.items())
        return {"name": name, "params": list(modes), "outs": outs, "mapspec": f"{ins} -> " + ", ".join(f"{o}[{', '.join(out_axes)}]" for o in outs),
                "modes": modes, "out_axes": list(out_axes), "internal": [], "internal_shape": [], "ret_list": False, "ishape_via": None}
    if two:
        ax0 = [a, b] if rng.random() < 0.5 else [b, a]
        f0 = fn("f0", ["y0"], {"x": [a], "u": [b]}, ax0)
        m1 = {"y0": list(ax0), "w": [a]} if rng.random() < 0.5 else {"w": [a], "y0": list(ax0)}
        f1 = fn("f1", ["y1"], m1, ax0)
    else:
        if rng.random() < 0.6:
            roots["v"] = {"axes": [a], "kind": kd()}  # two ROOT arrays zipped as well
            f0 = fn("f0", ["y0"], {"x": [a], "v": [a]}, [a])
        else:
            f0 = fn("f0", ["y0"], {"x": [a]}, [a])
        m1 = {"y0": [a], "w": [a]} if rng.random() < 0.5 else {"w": [a], "y0": [a]}
        f1 = fn("f1", ["y1"], m1, [a])
    funcs = [f0, f1]
    if rng.random() < 0.4:
        funcs.append(fn("f2", ["y2"], {"y1": list(f1["out_axes"])}, f1["out_axes"]))
    return {"sizes": sizes, "roots": roots, "funcs": funcs}


def run_map_batch(v, desc, scratch):
    keys = []
    for i in range(desc["start"], desc["start"] + desc["n"]):
        case = zip_with_intermediate_family(desc["seed"], i) if i % 10 == 7 else mapgen.case_from_seed(desc["seed"], i, max_funcs=3)
        rng = random.Random(f"c12:{desc['seed']}:{i}")
        inputs = mapgen.make_inputs(case)
        folder = os.path.join(scratch, f"valid-{i}")
        ishapes = mapgen.internal_shapes_arg(case)
        try:
            with quiet():
                p0 = mapgen.build_pipeline(case)
                p0.map(inputs, run_folder=folder, internal_shapes=ishapes, parallel=False, storage="file_array")
        except Exception:  # noqa: BLE001
            v.count("skipped_valid_case_refused")
            continue
        snap0 = fsmon.snapshot(folder)
        pristine = folder + ".pristine"
        shutil.copytree(folder, pristine)

        def attempt(op, label, mcase, minputs, bkw, mkw):
            log = probes.new_log(scratch)
            ex = None
            w = dict(case=mapgen.describe(mcase), operator=op, position=label, map_kwargs={k: str(x) for k, x in mkw.items()})
            err = None
            bkw = dict(bkw)
            post = bkw.pop("_post", None)
            try:
                with quiet():
                    p = mapgen.build_pipeline(mcase, log=log, **bkw)
                    if post is not None:
                        p[post[0]].update_defaults(post[1])
                    kw = dict(run_folder=folder, internal_shapes=mapgen.internal_shapes_arg(mcase), parallel=False,
                              storage="file_array", cleanup=False)
                    kw.update(mkw)
                    if kw.get("executor") == "THREAD":
                        ex = kw["executor"] = ThreadPoolExecutor(1)
                    p.map(minputs, **kw)
            except Exception as e:  # noqa: BLE001
                err = e
            finally:
                if ex is not None:
                    ex.shutdown()
            v.count("faults_injected")
            v.count(f"op:{op}")
            calls = probes.log_read(log)
            os.unlink(log)
            if err is None:
                v.bad(f"accepted:{op}", f"ill-formed request ({op} at {label}) was accepted", **w)
            if calls:
                v.bad(f"user-code-ran:{op}" + ("" if err is None else ":" + type(err).__name__),
                      f"{len(calls)} user call(s) before the rejection ({exc_msg(err) if err else 'accepted'})", **w)
            snap1 = fsmon.snapshot(folder)
            v.count("snapshot_comparisons")
            if snap1 != snap0:
                v.bad(f"run-folder-altered:{op}" + ("" if err is None else ":" + type(err).__name__),
                      f"run folder changed: {fsmon.snapshot_diff(snap0, snap1)[:4]} ({exc_msg(err) if err else 'accepted'})", **w)
                shutil.rmtree(folder, ignore_errors=True)
                shutil.copytree(pristine, folder)
            keys.append(f"{mapgen.signature(case)}|{op}|{label}")

        for op, label, mcase, bkw in construct_faults(case, rng):
            attempt(op, label, mcase, mapgen.make_inputs(mcase) if set(mcase["roots"]) != set(case["roots"]) else inputs, bkw, {})
        for op, label, minputs, mkw in input_faults(case, inputs, rng):
            attempt(op, label, case, minputs, {}, mkw)
        # the same run-time faults against a folder that does not exist yet / is empty (cleanup=False): a rejected
        # request must not create or fill it
        fresh = [(op, label, case, minputs, {}, mkw) for op, label, minputs, mkw in input_faults(case, inputs, rng)]
        # construction faults as well: "rejected" by the comparison with the run stored in the folder would hide a
        # pipeline that was wrongly ACCEPTED at construction - against a folder without a previous run nothing hides it
        fresh += [(op, label, mcase, mapgen.make_inputs(mcase) if set(mcase["roots"]) != set(case["roots"]) else inputs, bkw, {})
                  for op, label, mcase, bkw in construct_faults(case, random.Random(f"c12f:{desc['seed']}:{i}"))]
        for op, label, fcase, minputs, bkw, mkw in fresh:
            for kind in ("absent", "empty"):
                if bkw or fcase is not case:
                    if kind == "empty":
                        continue
                    v.count("fresh_folder_construction_faults")
                f2 = os.path.join(scratch, f"fresh-{i}-{kind}")
                shutil.rmtree(f2, ignore_errors=True)
                if kind == "empty":
                    os.makedirs(f2)
                before = fsmon.snapshot(f2)
                log = probes.new_log(scratch)
                ex = None
                err = None
                try:
                    with quiet():
                        bkw2 = dict(bkw)
                        post = bkw2.pop("_post", None)
                        p = mapgen.build_pipeline(fcase, log=log, **bkw2)
                        if post is not None:
                            p[post[0]].update_defaults(post[1])
                        kw = dict(run_folder=f2, internal_shapes=mapgen.internal_shapes_arg(fcase), parallel=False, storage="file_array", cleanup=False)
                        kw.update(mkw)
                        if kw.get("executor") == "THREAD":
                            ex = kw["executor"] = ThreadPoolExecutor(1)
                        p.map(minputs, **kw)
                except Exception as e:  # noqa: BLE001
                    err = e
                finally:
                    if ex is not None:
                        ex.shutdown()
                calls = probes.log_read(log)
                os.unlink(log)
                after = fsmon.snapshot(f2)
                v.count("snapshot_comparisons")
                v.count("fresh_folder_faults")
                w = dict(case=mapgen.describe(fcase), operator=op, position=label, folder=kind)
                if err is None:
                    v.bad(f"accepted:{op}", f"ill-formed request ({op} at {label}) was accepted", **w)
                if calls:
                    v.bad(f"user-code-ran:{op}", f"{len(calls)} user call(s) before the rejection", **w)
                if after != before:
                    v.bad(f"run-folder-altered:{op}/{kind}-folder" + ("" if err is None else ":" + type(err).__name__),
                          f"a rejected request created / filled the {kind} run folder: {fsmon.snapshot_diff(before, after)[:4]}", **w)
                shutil.rmtree(f2, ignore_errors=True)
        shutil.rmtree(folder, ignore_errors=True)
        shutil.rmtree(pristine, ignore_errors=True)
    return keys


def run_call_batch(v, desc, scratch):
    keys = []
    for i in range(desc["start"], desc["start"] + desc["n"]):
        case = daggen.case_from_seed(desc["seed"], i)
        rng = random.Random(f"c12c:{desc['seed']}:{i}")
        log = probes.new_log(scratch)
        try:
            with quiet():
                p = daggen.build_pipeline(case, log=log)
        except Exception:  # noqa: BLE001
            continue
        for out in daggen.all_outputs(case):
            roots = daggen.needed_roots(case, out)
            full = {r: f"v_{r}" for r in roots}
            try:
                ref = daggen.ref_eval(case, out, full)
            except daggen.Missing:
                continue
            if len(ref["calls"]) < 2:
                continue
            faults = []
            for r in roots:
                if r not in case["defaults"]:
                    faults.append(("dropped-keyword", r, {k: x for k, x in full.items() if k != r}))
            faults.append(("added-keyword", "zz_extra", {**full, "zz_extra": "q"}))
            shared = [r for r in roots if r in case["defaults"] and sum(1 for f in case["funcs"] if r in f["defaults"] and r not in f["bound"]) >= 2]
            if shared:
                faults.append(("inconsistent-defaults-after-member-update", shared[0], {k: x for k, x in full.items() if k != shared[0]}))
            # a back edge introduced AFTER construction, through a member function: an upstream function's root parameter is
            # renamed to the name of this (downstream) output - the pipeline is cyclic now, every call must be refused
            byn_ = {f["name"]: f for f in case["funcs"]}
            ups = [byn_[n] for n in dict.fromkeys(ref["calls"]) if out not in byn_[n]["outs"]]
            cyc = [(f, r) for f in ups for r in f["params"] if r in case["roots"] and r not in f["bound"]]
            if cyc and i % 2 == 0:
                f_up, r_up = cyc[i % len(cyc)]
                elsewhere = any(r_up in g["params"] and r_up not in g["bound"] for g in (byn_[n] for n in set(ref["calls"])) if g is not f_up)
                faults.append(("cycle-after-member-rename", (f_up["outs"][0], r_up), full if elsewhere else {k: x for k, x in full.items() if k != r_up}))
            # the same surplus / missing keywords given through the NESTED form of a scope that all functions share
            if i % 3 == 0:
                faults.append(("added-keyword-in-scope-dict", "zz_extra", {"sc": {**full, "zz_extra": "q"}}))
                for r in roots:
                    if r not in case["defaults"]:
                        faults.append(("dropped-keyword-in-scope-dict", r, {"sc": {k: x for k, x in full.items() if k != r}}))
                        break
            for op, label, K in faults:
                for form in ("call", "run"):
                    pp = p
                    if op.endswith("-in-scope-dict"):
                        with quiet():
                            pp = daggen.build_pipeline(case, log=log)
                            pp.update_scope("sc", "*", "*")
                        # a valid nested call must work (otherwise the scenario says nothing)
                        try:
                            with quiet():
                                pp(f"sc.{out}", sc=dict(full))
                        except Exception:  # noqa: BLE001
                            v.count("scoped_valid_call_refused")
                            continue
                    if op == "cycle-after-member-rename":
                        try:
                            with quiet():
                                pp = daggen.build_pipeline(case, log=log)
                                pp[label[0]].update_renames({label[1]: out})
                        except Exception:  # noqa: BLE001  (refusing the rename itself is fine as well)
                            v.count("cycle_refused_at_the_rename")
                            continue
                    if op == "inconsistent-defaults-after-member-update":
                        with quiet():
                            pp = daggen.build_pipeline(case, log=log)
                            tgt = next(f for f in case["funcs"] if label in f["defaults"] and label not in f["bound"])
                            pp[tgt["outs"][0]].update_defaults({label: "OTHER"})
                    # other outputs called first with the SAME keyword names (those calls may be valid): a memo of
                    # "validated" keyword names must not leak from one output to another
                    for o2 in daggen.all_outputs(case):
                        if o2 != out and not op.endswith("-in-scope-dict"):
                            try:
                                with quiet():
                                    pp(o2, **K)
                                v.count("warm_up_calls_accepted")
                            except Exception:  # noqa: BLE001
                                pass
                    probes.log_clear(log)
                    err = None
                    try:
                        with quiet():
                            tgt_out = f"sc.{out}" if op.endswith("-in-scope-dict") else out
                            if form == "call":
                                pp(tgt_out, **K)
                            else:
                                pp.run(tgt_out, kwargs=dict(K), full_output=rng.random() < 0.5)
                    except Exception as e:  # noqa: BLE001
                        err = e
                    calls = probes.log_read(log)
                    v.count("faults_injected")
                    v.count(f"op:{op}")
                    w = dict(case=daggen.describe(case), output=out, kwargs=K, operator=op, form=form)
                    if err is None:
                        v.bad(f"accepted:{op}/{form}", f"ill-formed call ({op} {label}) was accepted", **w)
                    if calls:
                        v.bad(f"user-code-ran:{op}/pipeline-call", f"{[c['f'] for c in calls]} ran before the rejection ({exc_msg(err) if err else 'accepted'})", **w)
                    keys.append(f"{daggen.signature(case)}|{out}|{op}|{label}|{form}")
    return keys


def run_case(desc):
    v = V()
    with tmpdir("c12-") as scratch:
        keys = run_map_batch(v, desc, scratch) if desc["kind"] == "map" else run_call_batch(v, desc, scratch)
    return v.result(evaluations=v.counters.get("faults_injected", 0), keys=keys, sample={"desc": desc, "faults": v.counters.get("faults_injected", 0),
                                       "example": keys[:3]} if desc["start"] % 120 == 0 else None)


OPS = ["duplicate-output", "output-named-like-own-parameter", "cycle", "cycle-after-member-rename", "inconsistent-defaults", "inconsistent-defaults-after-member-update", "mapspec-names-non-parameter",
       "mapspec-names-wrong-output", "axis-name-swap-in-consumer", "axis-name-conflict-beside-reduction", "rank-change-in-consumer", "dropped-input", "added-input",
       "resized-zipped-axis", "resized-axis-zipped-with-an-intermediate", "changed-input-rank", "scalar-for-mapped-input", "unknown-storage", "executor-with-parallel-false",
       "dropped-keyword", "added-keyword", "added-keyword-in-scope-dict"]


def finalize(agg, tier, seed):
    floors = []
    for op in OPS:
        need = 30 if op in ("inconsistent-defaults", "inconsistent-defaults-after-member-update", "resized-zipped-axis", "resized-axis-zipped-with-an-intermediate", "axis-name-swap-in-consumer", "rank-change-in-consumer") else 100
        if agg.counters.get(f"op:{op}", 0) < need:
            floors.append(f"operator {op} applied {agg.counters.get(f'op:{op}', 0)} times (< {need})")
    if agg.counters.get("fresh_folder_faults", 0) < 500:
        floors.append("fewer than 500 faults against an absent / empty run folder")
    if agg.counters.get("warm_up_calls_accepted", 0) < 200:
        floors.append("fewer than 200 accepted warm-up calls before a faulty call")
    if agg.counters.get("snapshot_comparisons", 0) < 1000:
        floors.append("fewer than 1000 run-folder snapshot comparisons")
    return floors, {}
