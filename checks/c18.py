"""C18 - Lazy pipelines evaluate to the eager result, at most once per node (DESIGN 4/C18)."""
from __future__ import annotations

import random

from vlib import daggen, probes
from vlib.util import V, exc_msg, exc_sig, multiset_diff, quiet, tmpdir

PROPERTY = "C18"
LEVEL = "exploration"
DEADLINE = 180
RULE = ("cases = call-DAG descriptions from vlib.daggen (diamonds, tuple-output nodes, shared parameters, bound "
        "values, defaults, renames) from VERIF_SEED; each output is requested from a lazy=True pipeline with root-only "
        "and intermediate-supplying keyword sets, with and without an active construct_dag(); monitors: zero probe "
        "calls before evaluate(), value == eager twin == reference, exactly-once call multiset after three evaluate() "
        "calls, recorded task graph acyclic with edge set == producer/consumer pairs read off the deferred objects and "
        "(picker nodes contracted) == reference DAG restricted to the needed functions; non-trivial = output depends "
        "on >=2 functions; distinct = (structural signature, output)")
ASSUMPTIONS = ["reference evaluator vlib.daggen.ref_eval", "deferred objects are inspected only through .func/.args/.kwargs/.evaluate()"]
BATCH = 25


def plan(tier, seed):
    n = 1500 if tier == "quick" else 30000
    return [{"seed": seed, "start": s, "n": BATCH} for s in range(0, n, BATCH)]


def _lazy_children(lf):
    out = []
    for a in list(lf.args) + list(lf.kwargs.values()):
        if hasattr(a, "evaluate") and hasattr(a, "kwargs"):
            out.append(a)
        elif isinstance(a, (list, tuple, set)):
            out += [x for x in a if hasattr(x, "evaluate") and hasattr(x, "kwargs")]
    return out


class _Boom(Exception):
    pass


def check_output(v, case, lazy_p, eager_p, llog, elog, out, K, ctx, use_dag, prefix="", cached=False):
    from pipefunc import PipeFunc
    from pipefunc.lazy import construct_dag
    import networkx as nx

    w = dict(case=daggen.describe(case), output=out, kwargs=K, ctx=ctx, construct_dag=use_dag)
    bad = v.bad if ctx != "after-raised-context" else (lambda sig, msg, **k: v.bad(sig + "/after-raised-context", msg, **k))
    if "/cache=" in ctx:
        bad = lambda sig, msg, **k: v.bad(sig + "/" + ctx.split("/", 1)[1], msg, **k)  # noqa: E731
    try:
        exp = daggen.ref_eval(case, out, K, prefix=prefix)
    except daggen.Missing:
        return
    if set(K) - exp["used"]:
        return
    probes.log_clear(llog)
    probes.log_clear(elog)
    dag = None
    strip = lambda n: n[len(prefix):] if prefix and n.startswith(prefix) else n  # noqa: E731
    try:
        with quiet():
            if use_dag:
                with construct_dag() as dag:
                    r = lazy_p(out, **K)
            else:
                r = lazy_p(out, **K)
    except Exception as e:  # noqa: BLE001
        bad(exc_sig(e, "lazy-call"), f"lazy call raised: {exc_msg(e)}", **w)
        return
    v.count("lazy_calls")
    before = probes.log_read(llog)
    if before:
        bad("invoked-before-evaluate", f"{[c['f'] for c in before]} invoked before evaluate()", **w)
    if not hasattr(r, "evaluate"):
        bad("not-deferred", f"lazy pipeline returned {type(r).__name__} without evaluate()", **w)
        return
    try:
        with quiet():
            got = r.evaluate()
            got2 = r.evaluate()
            got3 = r.evaluate()
            eager = eager_p(out, **K)
    except Exception as e:  # noqa: BLE001
        bad(exc_sig(e, "evaluate"), f"evaluate()/eager call raised: {exc_msg(e)}", **w)
        return
    norm = lambda x: (tuple(x) if isinstance(x, (list, tuple)) else  # noqa: E731
                      tuple(x.get(n) for n in out) if isinstance(x, dict) and isinstance(out, tuple) else x)
    if norm(got) != norm(exp["value"]) or norm(got) != norm(eager):
        bad("value", f"evaluate()={got!r:.200} eager={eager!r:.200} reference={exp['value']!r:.200}", **w)
    if norm(got2) != norm(got) or norm(got3) != norm(got):
        bad("value:repeat-evaluate", "repeated evaluate() returned a different value", **w)
    calls = [strip(c["f"]) for c in probes.log_read(llog)]
    extra, miss = multiset_diff(calls, exp["calls"])
    v.count("evaluations_compared")
    if cached:
        miss = []  # a pipeline with a cache may answer from it: only calls beyond the reference are judged
    if extra or miss:
        kind = "duplicate-call" if extra and not miss and set(extra) <= set(exp["calls"]) else "calls"
        bad(f"{kind}", f"after 3x evaluate(): extra={extra} missing={miss}", **w)
    if dag is None:
        return
    v.count("task_graphs_checked")
    g = dag.graph
    if not nx.is_directed_acyclic_graph(g):
        bad("dag:cycle", "recorded task graph has a cycle", **w)
        return
    # (1) edges == producer->consumer pairs read off the deferred objects themselves
    ids = {id(lf): nid for nid, lf in dag.mapping.items()}
    want = set()
    for nid, lf in dag.mapping.items():
        for ch in _lazy_children(lf):
            if id(ch) in ids:
                want.add((ids[id(ch)], nid))
            else:
                bad("dag:unregistered-node", "a deferred argument is not a node of the task graph", **w)
    if set(g.edges) != want:
        bad("dag:edges-vs-deferred-objects", f"edges {sorted(g.edges)} != dependencies of deferred objects {sorted(want)}", **w)
    if set(g.nodes) != set(dag.mapping):
        bad("dag:nodes-vs-mapping", "graph nodes differ from mapping keys", **w)
    # (2) contract picker nodes; compare with the reference DAG restricted to needed functions
    label = {}
    for nid, lf in dag.mapping.items():
        if isinstance(lf.func, PipeFunc):
            label[nid] = strip(lf.func.__name__)
    for nid, lf in dag.mapping.items():
        if nid not in label:
            preds = [p for p in g.predecessors(nid)]
            if len(preds) == 1 and preds[0] in label:
                label[nid] = label[preds[0]]
            else:
                bad("dag:unknown-node", f"node {nid} ({lf!r:.80}) is neither a function nor a picker of one", **w)
                return
    got_edges = {(label[a], label[b]) for a, b in g.edges if label[a] != label[b]}
    names = [label[n] for n, lf in dag.mapping.items() if isinstance(lf.func, PipeFunc)]
    byn = {f["name"]: f for f in case["funcs"]}
    ref_edges = set()
    for n in exp["calls"]:
        f = byn[n]
        for p in f["params"]:
            pr = daggen.producer(case, p)
            if pr is not None and p not in f["bound"] and p not in K:
                ref_edges.add((pr["name"], n))
    v.count("dag_edges_compared", len(ref_edges))
    if got_edges != ref_edges:
        bad("dag:edges-vs-reference", f"contracted edges {sorted(got_edges)} != reference {sorted(ref_edges)}", **w)
    extra, miss = multiset_diff(names, exp["calls"])
    if extra or miss:
        bad("dag:nodes-vs-reference", f"function nodes: extra={extra} missing={miss}", **w)


def detached_evaluate(v, case, scratch, rng, explicit_defaults):
    import gc

    import cloudpickle

    outs = [o for o in daggen.all_outputs(case)]
    out = rng.choice(outs)
    K = {r: f"v_{r}" for r in daggen.needed_roots(case, out)}
    try:
        exp = daggen.ref_eval(case, out, K, prefix="W")
    except daggen.Missing:
        return
    norm = lambda x: tuple(x) if isinstance(x, (list, tuple)) else x  # noqa: E731
    for how in ("pipeline-dropped", "pickled-before-evaluate"):
        w = dict(case=daggen.describe(case), output=out, kwargs=K, how=how)
        log = probes.new_log(scratch, f"lazyW{how}")

        def make():
            lp = daggen.build_pipeline(case, log=log, prefix="W", pipeline_kwargs={"lazy": True}, explicit_defaults=explicit_defaults)
            return lp(out, **K)
        try:
            with quiet():
                r = make()
                gc.collect()
                if how == "pickled-before-evaluate":
                    r = cloudpickle.loads(cloudpickle.dumps(r))
                got = r.evaluate()
        except Exception as e:  # noqa: BLE001
            v.bad(exc_sig(e, f"detached-evaluate/{how}"), f"evaluate() of a deferred result ({how}) raised {exc_msg(e)}", **w)
            continue
        v.count(f"detached_evaluations:{how}")
        if norm(got) != norm(exp["value"]):
            v.bad(f"value/detached-evaluate/{how}", f"evaluate()={got!r:.200}, eager value {exp['value']!r:.200}", **w)


def two_requests(v, case, scratch, rng, explicit_defaults, mode):
    """Two lazy requests with the same inputs while ONE node cache is active (one construct_dag() block, or a pipeline cache
    with cache=True functions): first an interior output, then an output downstream of it. The second deferred object shares
    the nodes of the first: evaluating it invokes every needed function exactly once, and evaluating the first one afterwards
    invokes nothing further."""
    from pipefunc.lazy import construct_dag

    cands = [o for o in daggen.all_outputs(case) if daggen.interior_names(case, o)]
    if not cands:
        return
    out_b = rng.choice(cands)
    out_a = rng.choice(sorted(daggen.interior_names(case, out_b)))
    Kb = {r: f"v_{r}" for r in daggen.needed_roots(case, out_b)}
    Ka = {r: Kb[r] for r in daggen.needed_roots(case, out_a) if r in Kb}
    try:
        exp_a = daggen.ref_eval(case, out_a, Ka, prefix="T")
        exp_b = daggen.ref_eval(case, out_b, Kb, prefix="T")
    except daggen.Missing:
        return
    if set(Ka) - exp_a["used"] or set(Kb) - exp_b["used"]:
        return
    w = dict(case=daggen.describe(case), first=[out_a, Ka], second=[out_b, Kb], node_cache=mode)
    log = probes.new_log(scratch, f"lazyT{mode}")
    strip = lambda n: n[1:] if n.startswith("T") else n  # noqa: E731
    norm = lambda x: tuple(x) if isinstance(x, (list, tuple)) else x  # noqa: E731
    try:
        with quiet():
            kw = {"lazy": True} if mode == "dag" else {"lazy": True, "cache_type": mode}
            lp = daggen.build_pipeline(case, log=log, prefix="T", pipeline_kwargs=kw, explicit_defaults=explicit_defaults,
                                       cache=(None if mode == "dag" else {f["name"] for f in case["funcs"]}))
            if mode == "dag":
                with construct_dag():
                    ra = lp(out_a, **Ka)
                    rb = lp(out_b, **Kb)
            else:
                ra = lp(out_a, **Ka)
                rb = lp(out_b, **Kb)
            early = probes.log_read(log)
            got_b = rb.evaluate()
            calls_b = [strip(c["f"]) for c in probes.log_read(log)]
            got_a = ra.evaluate()
            calls_ab = [strip(c["f"]) for c in probes.log_read(log)]
    except Exception as e:  # noqa: BLE001
        v.bad(exc_sig(e, f"two-requests/{mode}"), f"two lazy requests sharing a node cache raised {exc_msg(e)}", **w)
        return
    v.count(f"two_requests_sharing_nodes:{mode}")
    if early:
        v.bad(f"invoked-before-evaluate/two-requests/{mode}", f"{[c['f'] for c in early]} invoked before evaluate()", **w)
    if norm(got_b) != norm(exp_b["value"]) or norm(got_a) != norm(exp_a["value"]):
        v.bad(f"value/two-requests/{mode}", f"second={got_b!r:.160} (reference {exp_b['value']!r:.160}), first={got_a!r:.160} (reference {exp_a['value']!r:.160})", **w)
    extra, miss = multiset_diff(calls_b, [strip(c) for c in exp_b["calls"]])
    if extra or miss:
        v.bad(f"duplicate-call/two-requests/{mode}" if extra and not miss else f"calls/two-requests/{mode}",
              f"evaluate() of the second request: extra={extra} missing={miss}", **w)
    elif len(calls_ab) != len(calls_b):
        v.bad(f"duplicate-call/two-requests/{mode}/first-evaluated-afterwards", f"evaluating the first request afterwards invoked {calls_ab[len(calls_b):]} again", **w)


def after_failed_evaluate(v, case, scratch, rng, explicit_defaults):
    outs = [o for o in daggen.all_outputs(case)]
    out = rng.choice(outs)
    K = {r: f"v_{r}" for r in daggen.needed_roots(case, out)}
    try:
        exp = daggen.ref_eval(case, out, K, prefix="Y")
    except daggen.Missing:
        return
    if not exp["calls"]:
        return
    victim = rng.choice(sorted(set(exp["calls"])))
    for mode in ("transient", "permanent"):
        spec = ["ValueError", f"boom-{mode}"]
        fault = {victim: ({"raise_nth": [1, spec]} if mode == "transient" else {"raise_always": spec})}
        log = probes.new_log(scratch, f"lazyY{mode}")
        w = dict(case=daggen.describe(case), output=out, kwargs=K, failing_function=victim, fault=mode)
        try:
            with quiet():
                lp = daggen.build_pipeline(case, log=log, prefix="Y", fault=fault, pipeline_kwargs={"lazy": True}, explicit_defaults=explicit_defaults)
                r = lp(out, **K)
        except Exception as e:  # noqa: BLE001
            v.bad(exc_sig(e, "lazy-call") + "/after-failed-evaluate", f"lazy call raised: {exc_msg(e)}", **w)
            continue
        outcomes = []
        for attempt in range(3):
            try:
                with quiet():
                    outcomes.append(("ok", r.evaluate()))
            except Exception as e:  # noqa: BLE001
                outcomes.append(("raised" if "boom-" in str(e) else "other", f"{type(e).__name__}: {e}"[:100]))
        v.count(f"failed_evaluate_retries:{mode}")
        norm = lambda x: tuple(x) if isinstance(x, (list, tuple)) else x  # noqa: E731
        if mode == "transient":
            if outcomes[0][0] != "raised":
                v.bad("failed-evaluate:first-attempt-did-not-raise", f"outcomes {outcomes}", **w)
            for k in (1, 2):
                if outcomes[k][0] != "ok" or norm(outcomes[k][1]) != norm(exp["value"]):
                    v.bad("failed-evaluate:retry-differs-from-eager", f"evaluate() #{k + 1} after a transient failure gave {outcomes[k]!r:.200}, "
                          f"the eager result is {exp['value']!r:.200}", **w)
                    break
        else:
            if any(o[0] != "raised" for o in outcomes):
                v.bad("failed-evaluate:permanent-failure-not-raised-again", f"outcomes of three evaluate() calls: {outcomes!r:.300}", **w)


def after_raised_context(v, case, lazy_p, llog, elog, scratch, rng, explicit_defaults):
    from pipefunc.lazy import construct_dag

    outs = [o for o in daggen.all_outputs(case) if daggen.needed_roots(case, o)]
    if not outs:
        return
    out = rng.choice(outs)
    K = {r: f"v_{r}" for r in daggen.needed_roots(case, out)}
    how = rng.choice(["body-raises-after-call", "call-raises-missing-argument"])
    try:
        with quiet():
            with construct_dag():
                lazy_p(out, **K)
                if how == "body-raises-after-call":
                    raise _Boom
                lazy_p(out)
                raise _Boom
    except Exception:  # noqa: BLE001  (leaving the block by an exception is the point)
        pass
    zl, ze = probes.new_log(scratch, "lazyZ"), probes.new_log(scratch, "eagerZ")
    try:
        with quiet():
            lazy_z = daggen.build_pipeline(case, log=zl, prefix="Z", pipeline_kwargs={"lazy": True}, explicit_defaults=explicit_defaults)
            eager_z = daggen.build_pipeline(case, log=ze, prefix="Z", explicit_defaults=explicit_defaults)
    except Exception as e:  # noqa: BLE001
        v.bad(exc_sig(e, "refused-construct"), f"valid DAG refused: {exc_msg(e)}", case=daggen.describe(case))
        return
    v.count("after_raised_context:" + how)
    for use_dag in (False, True, False):
        check_output(v, case, lazy_z, eager_z, zl, ze, out, K, "after-raised-context", use_dag, prefix="Z")


def cross_context(v, case, lazy_p, llog, out1, K1, out2, K2, root, first_in_dag):
    """A deferred result built earlier (outside any construct_dag(), or inside an earlier one) is passed as an INPUT
    VALUE to a lazy call inside a new construct_dag(): the new graph must stay acyclic, have exactly one edge per
    producer-consumer dependency (the earlier deferred object counts as a producer) and evaluate to the reference."""
    import networkx as nx

    from pipefunc.lazy import construct_dag

    w = dict(case=daggen.describe(case), first=[out1, K1], second=[out2, K2], via_root=root, first_inside_a_dag=first_in_dag)
    try:
        ref1 = daggen.ref_eval(case, out1, K1)
        ref2 = daggen.ref_eval(case, out2, {**K2, root: ref1["value"]})
    except daggen.Missing:
        return
    if isinstance(ref1["value"], tuple) or (set(K2) | {root}) - ref2["used"]:
        return
    probes.log_clear(llog)
    try:
        with quiet():
            if first_in_dag:
                with construct_dag():
                    r1 = lazy_p(out1, **K1)
            else:
                r1 = lazy_p(out1, **K1)
            with construct_dag() as dag2:
                r2 = lazy_p(out2, **{**K2, root: r1})
            got = r2.evaluate()
    except Exception as e:  # noqa: BLE001
        v.bad(exc_sig(e, "cross-context"), f"lazy call with an earlier deferred object as input raised {exc_msg(e)}", **w)
        return
    v.count("cross_context_graphs")
    if got != ref2["value"]:
        v.bad("cross-context:value", f"evaluate()={got!r:.200}, reference {ref2['value']!r:.200}", **w)
    g = dag2.graph
    if not nx.is_directed_acyclic_graph(g):
        v.bad("cross-context:cycle", f"task graph with an earlier deferred object as input is cyclic: edges={sorted(g.edges)}", **w)
        return
    ndeps = sum(len(_lazy_children(lf)) for lf in dag2.mapping.values())
    if g.number_of_edges() != ndeps:
        v.bad("cross-context:edge-count", f"{g.number_of_edges()} edges recorded for {ndeps} producer-consumer dependencies: {sorted(g.edges)}", **w)
    # ids of registered nodes must be distinct from the id the earlier object is known by (no aliasing): every node
    # with an outgoing edge that is not in the mapping must be exactly one external producer
    external = {a for a, b in g.edges if a not in dag2.mapping}
    if len(external) != 1:
        v.bad("cross-context:external-producer", f"expected exactly one producer outside this graph's mapping, found {sorted(external)}", **w)


def run_case(desc):
    v = V()
    keys, sample = [], None
    with tmpdir("c18-") as scratch:
        for i in range(desc["start"], desc["start"] + desc["n"]):
            case = daggen.case_from_seed(desc["seed"], i, p_falsy=0.15 if i % 2 else 0.0, p_picker=0.5 if i % 3 == 2 else 0.0)
            rng = random.Random(f"c18:{desc['seed']}:{i}")
            llog, elog = probes.new_log(scratch, "lazy"), probes.new_log(scratch, "eager")
            # every fourth case: the lazy pipeline has a cache of its own (cache=True on every function) - a task graph must
            # still be complete for EVERY construct_dag() block, also when the same request was made in an earlier block
            cached = i % 4 == 1
            ctype = ["lru", "simple", "lru", "lru"][(i // 4) % 4] if cached else None
            try:
                with quiet():
                    lazy_p = daggen.build_pipeline(case, log=llog, pipeline_kwargs={"lazy": True, **({"cache_type": ctype} if cached else {})},
                                                   explicit_defaults=(i % 4 == 2), cache=({f["name"] for f in case["funcs"]} if cached else None))
                    eager_p = daggen.build_pipeline(case, log=elog, explicit_defaults=(i % 4 == 2))
            except Exception as e:  # noqa: BLE001
                v.bad(exc_sig(e, "refused-construct"), f"valid DAG refused: {exc_msg(e)}", case=daggen.describe(case))
                continue
            v.hit(daggen.classes(case))
            outs = list(daggen.all_outputs(case)) + [tuple(f["outs"]) for f in case["funcs"] if len(f["outs"]) > 1]
            for out in outs:
                roots = daggen.needed_roots(case, out)
                K = {r: f"v_{r}" for r in roots if not (r in case["defaults"] and rng.random() < 0.5)}
                if i % 5 == 3:
                    # input values that are namedtuples (container subclasses): evaluate() hands the functions equal values
                    K = {r: probes.PointNT(x, 1) for r, x in K.items()}
                    v.count("requests_with_namedtuple_inputs")
                for use_dag in ((False, True, True, False) if cached else (False, True)):
                    check_output(v, case, lazy_p, eager_p, llog, elog, out, K, "roots" + (f"/cache={ctype}" if cached else ""), use_dag, cached=cached)
                if cached:
                    v.count(f"cached_lazy_requests:{ctype}")
                inter = daggen.interior_names(case, out) if isinstance(out, str) else []
                if inter:
                    c = rng.choice(inter)
                    K2 = {**{r: f"v_{r}" for r in daggen.needed_roots(case, out, {c})}, c: f"s_{c}"}
                    check_output(v, case, lazy_p, eager_p, llog, elog, out, K2, "intermediate", rng.random() < 0.5, cached=cached)
                if isinstance(out, str) and len(daggen.needed_funcs(case, [out])) >= 2:
                    keys.append(daggen.signature(case) + "|" + out)
            # the deferred result outlives the pipeline object that produced it (a helper returns only the result), or is
            # pickled before its first evaluation: evaluate() must still give the eager value
            if i % 3 == 2:
                detached_evaluate(v, case, scratch, rng, explicit_defaults=(i % 4 == 2))
            two_requests(v, case, scratch, rng, explicit_defaults=(i % 4 == 2), mode=["dag", "simple", "dag", "lru"][i % 4])
            # a node whose function raised is not "evaluated": a second evaluate() of the same deferred object after a
            # transient fault must give the eager value, after a permanent fault it must raise again
            if i % 3 == 1:
                after_failed_evaluate(v, case, scratch, rng, explicit_defaults=(i % 4 == 2))
            # a construct_dag() block left by an exception must not influence later lazy calls: a twin pipeline
            # (same structure and output names, other functions) called afterwards with the same arguments, outside
            # any context and inside a new one, must still evaluate to ITS eager result with exactly-once calls
            if i % 3 == 0:
                after_raised_context(v, case, lazy_p, llog, elog, scratch, rng, explicit_defaults=(i % 4 == 2))
            # an earlier deferred result as input value of a later lazy call
            singles = [o for o in daggen.all_outputs(case)]
            for _ in range(2):
                out1, out2 = rng.choice(singles), rng.choice(singles)
                r2 = sorted(daggen.needed_roots(case, out2))
                if not r2:
                    continue
                root = rng.choice(r2)
                K1 = {r: f"v_{r}" for r in daggen.needed_roots(case, out1)}
                K2 = {r: f"w_{r}" for r in r2 if r != root}
                # the root must really be consumed as a keyword (not shadowed by a bound value everywhere)
                cross_context(v, case, lazy_p, llog, out1, K1, out2, K2, root, first_in_dag=rng.random() < 0.5)
            if sample is None and len(case["funcs"]) >= 3 and i % 100 == 0:
                o = daggen.all_outputs(case)[-1]
                sample = {"case": daggen.describe(case), "output": o,
                          "needed_functions": daggen.needed_funcs(case, [o])}
    return v.result(evaluations=v.counters.get("lazy_calls", 0), keys=keys, sample=sample)


def finalize(agg, tier, seed):
    floors = []
    if agg.classes.get("shared_node_fanout>=2", 0) < 300:
        floors.append(f"only {agg.classes.get('shared_node_fanout>=2', 0)} DAGs with a shared node of fan-out >= 2 (< 300)")
    if agg.classes.get("tuple_interior", 0) < 300:
        floors.append(f"only {agg.classes.get('tuple_interior', 0)} DAGs with a tuple-output interior node (< 300)")
    if agg.counters.get("cross_context_graphs", 0) < 300:
        floors.append("fewer than 300 cross-context task graphs checked")
    for m in ("dag", "simple", "lru"):
        if agg.counters.get(f"two_requests_sharing_nodes:{m}", 0) < 50:
            floors.append(f"only {agg.counters.get(f'two_requests_sharing_nodes:{m}', 0)} pairs of requests sharing nodes through {m} (< 50)")
    if agg.counters.get("task_graphs_checked", 0) < 1000:
        floors.append("fewer than 1000 task graphs checked")
    return floors, {}
