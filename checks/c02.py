"""C02 - Calling a pipeline equals composing its functions along the DAG (DESIGN 4/C02)."""
from __future__ import annotations

import itertools
import random

from vlib import daggen, probes
from vlib.util import V, exc_msg, exc_sig, multiset_diff, quiet, tmpdir

PROPERTY = "C02"
LEVEL = "exploration"
DEADLINE = 180
RULE = ("cases = call-DAG descriptions from vlib.daggen (<=6 probe functions; nullary and tuple-output functions, "
        "shared roots, consistent defaults, functions returning None / 0 / False / '' / [] (falsy intermediates), bound values incl. on parameters naming an upstream output, parameter "
        "renames) from VERIF_SEED, plus all 3-node DAGs over a 4-name alphabet in thorough; for every output and "
        "several keyword sets (root-only, defaults omitted, intermediates supplied, every arg_combinations cut) the "
        "four call forms are compared with the reference evaluator (value, call multiset, call order, full_output "
        "memo, surplus-keyword rejection) and the function list is re-ordered; non-trivial = >=2 functions on the "
        "dependency path of some output; distinct = distinct structural signature")
ASSUMPTIONS = ["reference evaluator vlib.daggen.ref_eval (bound > keyword > upstream > default); never imports pipefunc",
               "probes return term strings: value equality = equality of the whole call tree"]
BATCH = 25


def plan(tier, seed):
    n = 2000 if tier == "quick" else 40000
    descs = [{"kind": "gen", "seed": seed, "start": s, "n": BATCH} for s in range(0, n, BATCH)]
    if tier == "thorough":
        tot = len(_three_node())
        descs += [{"kind": "exh3", "start": s, "n": 200} for s in range(0, tot, 200)]
    return descs


_EX3 = None


def _three_node():
    """All DAGs of 3 single-output functions over the alphabet {r0, r1} + earlier outputs, 0..2 params each."""
    global _EX3
    if _EX3 is None:
        out = []
        base = ["r0", "r1"]
        opts = []
        for i in range(3):
            names = base + [f"o{k}" for k in range(i)]
            ch = [()]
            for r in (1, 2):
                ch += list(itertools.combinations(names, r))
            opts.append(ch)
        for combo in itertools.product(*opts):
            funcs = [{"name": f"f{i}", "params": list(ps), "iparams": list(ps), "outs": [f"o{i}"], "defaults": {}, "bound": {}}
                     for i, ps in enumerate(combo)]
            used = {p for f in funcs for p in f["params"]}
            out.append({"roots": [r for r in base if r in used], "defaults": {}, "funcs": funcs})
        _EX3 = out
    return _EX3


def cases_of(desc):
    if desc["kind"] == "gen":
        return [(i, daggen.case_from_seed(desc["seed"], i, p_falsy=0.3 if i % 2 else 0.0, p_picker=0.5 if i % 3 == 2 else 0.0)) for i in range(desc["start"], desc["start"] + desc["n"])]
    if desc["kind"] == "literal":
        return [(0, desc["case"])]
    ex = _three_node()
    return [(i, ex[i]) for i in range(desc["start"], min(len(ex), desc["start"] + desc["n"]))]


def _sc(n):
    return tuple(f"sc.{x}" for x in n) if isinstance(n, tuple) else f"sc.{n}"


def _unsc(n):
    return tuple(x[3:] if x.startswith("sc.") else x for x in n) if isinstance(n, tuple) else (n[3:] if isinstance(n, str) and n.startswith("sc.") else n)


def _call(form, pipeline, out, K):
    if getattr(pipeline, "_verif_scoped", False):
        # every name lives in the scope "sc"; keywords are given in the NESTED form {"sc": {name: value}}
        so, kw = _sc(out), ({"sc": dict(K)} if K else {})
        if form == "call":
            return pipeline(so, **kw)
        if form == "run":
            return pipeline.run(so, kwargs=kw)
        if form == "func":
            return pipeline.func(so)(**kw)
        if form == "func-dict":
            return pipeline.func(so).call_with_dict(kw)
        if form == "full":
            r = pipeline.run(so, full_output=True, kwargs=kw)
            return {_unsc(k): x for k, x in r.items()}
        raise AssertionError(form)
    if form == "call":
        return pipeline(out, **K)
    if form == "run":
        return pipeline.run(out, kwargs=dict(K))
    if form == "func":
        return pipeline.func(out)(**K)
    if form == "full":
        return pipeline.run(out, full_output=True, kwargs=dict(K))
    if form == "func-dict":
        return pipeline.func(out).call_with_dict(dict(K))
    if form in ("func-pickled", "func-deepcopied"):
        # the wrapper travels (to a worker, into a closure) before it is called: it must stay the function of the WHOLE
        # pipeline (e.g. a default declared only by a function that this output does not need still applies)
        import copy as _copy

        import cloudpickle as _cp
        fo = pipeline.func(out)
        fo = _cp.loads(_cp.dumps(fo)) if form == "func-pickled" else _copy.deepcopy(fo)
        return fo(**K)
    if form == "func-full":
        return pipeline.func(out).call_full_output(**K)
    if form in ("positional", "positional-mixed"):
        fo = pipeline.func(out)
        order = list(fo.root_args)
        if form == "positional":
            return fo.call_with_root_args(*[K[r] for r in order])
        return fo.call_with_root_args(*[K[r] for r in order[:1]], **{r: K[r] for r in order[1:]})
    raise AssertionError(form)


def check_call(v, case, pipeline, log, out, K, form, ctx, expect=None):
    """One call compared with the reference evaluator."""
    try:
        exp = expect or daggen.ref_eval(case, out, K)
        missing = None
    except daggen.Missing as m:
        exp, missing = None, str(m)
    surplus = set(K) - exp["used"] if exp else set()
    probes.log_clear(log)
    try:
        with quiet():
            got = _call(form, pipeline, out, K)
        err = None
    except Exception as e:  # noqa: BLE001
        got, err = None, e
    calls = probes.log_read(log)
    v.count("calls_compared")
    v.count(f"form_{form}")
    w = dict(case=daggen.describe(case), output=out, kwargs=K, form=form, ctx=ctx)
    if exp and surplus:
        # A keyword that names a parameter of an executed function but is shadowed by that function's bound
        # value is not "surplus" in the strict sense: no expectation either way about rejection.
        byn = {f["name"]: f for f in case["funcs"]}
        touched = {p for n in exp["calls"] for p in byn[n]["params"]}
        strict = surplus - touched
        if not strict:
            v.count("shadowed_keyword_calls")
            if err is not None:
                return None
            surplus = set()
        else:
            surplus = strict
    if missing is not None or surplus:
        v.count("expected_rejections")
        if err is None:
            what = "missing-arg" if missing is not None else "surplus-keyword"
            v.bad(f"accepted:{what}/{form}", f"call with {what} ({missing or sorted(surplus)}) was accepted", **w)
        return None
    if err is not None:
        v.bad(exc_sig(err, f"rejected-valid-call/{ctx}"), f"valid call rejected: {exc_msg(err)}", **w)
        return None
    val = got[out] if form == "full" else got
    if form == "full" and out not in got:
        v.bad("full_output:requested-missing", "requested output absent from full_output dict", **w)
        return None
    if isinstance(val, dict) and isinstance(out, tuple):  # a function with a custom output_picker returns {name: value}
        val = tuple(val.get(n) for n in out)
    if val != exp["value"] and not (isinstance(val, (tuple, list)) and tuple(val) == exp["value"]):
        v.bad(f"value/{ctx}/{form}", f"value differs: got {str(val)[:300]} expected {str(exp['value'])[:300]}", **w)
    got_calls = [c["f"] for c in calls]
    extra, miss = multiset_diff(got_calls, exp["calls"])
    if extra or miss:
        v.bad(f"calls/{ctx}/{form}", f"call multiset differs: extra={extra} missing={miss}", **w)
    # ordering: a consumer starts after every producer it consumes ended
    end = {c["f"]: c["t1"] for c in calls}
    byname = {f["name"]: f for f in case["funcs"]}
    for c in calls:
        f = byname.get(c["f"])
        if not f:
            continue
        for p in f["params"]:
            pr = daggen.producer(case, p)
            if pr and p not in f["bound"] and p not in K and pr["name"] in end:
                v.count("order_pairs")
                if end[pr["name"]] is None or end[pr["name"]] > c["t0"]:
                    v.bad(f"order/{form}", f"{c['f']} started before its dependency {pr['name']} finished", **w)
    if form == "full":
        for name, val in exp["memo"].items():
            v.count("full_output_values")
            ok = name in got and got[name] == val
            if not ok:
                pr = daggen.producer(case, name)
                key = tuple(pr["outs"])
                if len(key) > 1 and key in got:
                    try:
                        ok = (got[key][name] if isinstance(got[key], dict) else got[key][pr["outs"].index(name)]) == val
                    except Exception:  # noqa: BLE001
                        ok = False
            if not ok:
                v.bad("full_output:intermediate-missing", f"intermediate {name} absent/wrong in full_output", **w)
    return exp


def keyword_sets(case, out, rng):
    """Yield (ctx, K) keyword sets for output `out`."""
    roots = daggen.needed_roots(case, out)
    full = {r: f"v_{r}" for r in roots}
    yield "roots", full
    dflt = [r for r in roots if r in case["defaults"]]
    if dflt:
        yield "defaults-omitted", {k: v for k, v in full.items() if k not in dflt}
        if len(dflt) > 1:
            d = rng.choice(dflt)
            yield "defaults-omitted", {k: v for k, v in full.items() if k != d}
    inter = daggen.interior_names(case, out) if isinstance(out, str) else []
    for _ in range(min(3, len(inter))):
        cut = set(rng.sample(inter, rng.randint(1, min(2, len(inter)))))
        # drop cut members that the rest of the cut makes unnecessary -> exact cut
        K = {c: f"s_{c}" for c in cut}
        try:
            ex = daggen.ref_eval(case, out, {**{r: f"v_{r}" for r in daggen.needed_roots(case, out, cut)}, **K})
        except daggen.Missing:
            continue
        K = {c: s for c, s in K.items() if c in ex["used"]}
        need = daggen.needed_roots(case, out, set(K))
        yield "intermediates", {**{r: f"v_{r}" for r in need}, **K}
    nonroot = [r for r in roots if r not in case["defaults"]]
    if nonroot:
        drop = rng.choice(nonroot)
        yield "missing-root", {k: v for k, v in full.items() if k != drop}
    yield "surplus", {**full, "zz_unknown": "q"}
    others = [o for o in daggen.all_outputs(case) if o not in inter and o != out and not (isinstance(out, tuple) and o in out)]
    if others:
        o2 = rng.choice(others)
        # an output the request does not depend on: surplus as well
        yield "surplus-unrelated-output", {**full, o2: "q"}


class _MyList(list):
    def total(self):
        return sum(self)


def typed_values(v):
    """Argument values (and upstream results) that are instances of container SUBCLASSES reach the functions as they are."""
    import collections

    from pipefunc import PipeFunc, Pipeline

    Point = collections.namedtuple("Point", "x y")  # noqa: PYI024

    def f(a):
        return a

    def g(b, c):
        return (type(b).__name__, type(c).__name__, repr(b), repr(c))

    dd = collections.defaultdict(list)
    dd["k"].append(1)
    vals = [Point(1, 2), collections.Counter(a=2, b=1), collections.OrderedDict(z=1, a=2), dd, _MyList([1, 2, 3]),
            collections.deque([1, 2], maxlen=5), [Point(0, 1), Point(2, 3)], {"p": Point(4, 5)}, (collections.Counter(x=1),)]
    try:
        with quiet():
            p = Pipeline([PipeFunc(f, "b"), PipeFunc(g, "d")])
    except Exception as e:  # noqa: BLE001
        v.bad(exc_sig(e, "typed-values:construct"), exc_msg(e))
        return
    for n, a in enumerate(vals):
        c = vals[(n + 3) % len(vals)]
        want = g(f(a), c)
        for form, call in (("call", lambda: p("d", a=a, c=c)), ("run", lambda: p.run("d", kwargs={"a": a, "c": c})),
                           ("func", lambda: p.func("d")(a=a, c=c)), ("intermediate", lambda: p("d", b=a, c=c)),
                           ("full", lambda: p.run("d", full_output=True, kwargs={"a": a, "c": c})["d"])):
            v.count("typed_value_calls")
            try:
                with quiet():
                    got = call()
            except Exception as e:  # noqa: BLE001
                v.bad(exc_sig(e, f"typed-values:raised/{form}"), f"call with a {type(a).__name__} / {type(c).__name__} argument raised {exc_msg(e)}")
                continue
            if got != want:
                v.bad(f"typed-values:argument-type-changed/{form}", f"functions saw {got[:2]}, the arguments were {want[:2]}: {got!r:.200} vs {want!r:.200}")


def run_one(v, idx, case, scratch, rng):
    log = probes.new_log(scratch)
    try:
        with quiet():
            if idx % 3 == 0:
                # a SIBLING pipeline built from the same PipeFunc objects (other listing order) whose defaults and bound
                # values are then changed: the pipeline under test must keep computing what its own definition says
                from pipefunc import Pipeline
                fs = daggen.build_funcs(case, log=log, explicit_defaults=(idx % 4 == 1))
                pipeline = Pipeline(list(fs))
                sib = Pipeline(list(reversed(fs)))
                for r in case["defaults"]:
                    try:
                        sib.update_defaults({r: "SIBLING-DEFAULT"})
                    except Exception:  # noqa: BLE001  (not settable in this pipeline: not our subject)
                        pass
                for f in case["funcs"]:
                    for prm in f["bound"]:
                        try:
                            sib[f["outs"][0]].update_bound({prm: "SIBLING-BOUND"})
                        except Exception:  # noqa: BLE001
                            pass
                v.count("cases_with_mutated_sibling_pipeline")
            else:
                pipeline = daggen.build_pipeline(case, log=log, explicit_defaults=(idx % 4 == 1))
            if idx % 5 == 4 and not any(f.get("picker") for f in case["funcs"]):  # (a dict-returning probe's picker knows the original names only)
                # the whole pipeline in one scope, called with nested keyword dicts (a scope shared by all functions)
                pipeline.update_scope("sc", "*", "*")
                pipeline._verif_scoped = True
                v.count("cases_called_through_a_nested_scope_dict")
    except Exception as e:  # noqa: BLE001
        v.bad(exc_sig(e, "refused-construct"), f"valid DAG refused: {exc_msg(e)}", case=daggen.describe(case))
        return
    v.hit(daggen.classes(case))
    outs = list(daggen.all_outputs(case)) + [tuple(f["outs"]) for f in case["funcs"] if len(f["outs"]) > 1]
    for out in outs:
        for ctx, K in keyword_sets(case, out, rng):
            forms = ["call", "run", "full"]
            if ctx in ("roots", "defaults-omitted"):
                forms += ["func", "func-dict"]
                if not getattr(pipeline, "_verif_scoped", False) and idx % 2 == 0:
                    forms += ["func-pickled", "func-deepcopied"]
            if ctx == "roots" and not getattr(pipeline, "_verif_scoped", False):
                # positional call forms take every root argument of the output, in the order the wrapper itself reports
                try:
                    ra = set(pipeline.func(out).root_args)
                except Exception:  # noqa: BLE001
                    ra = None
                if ra is not None and ra == set(K) and K:
                    forms += ["positional", "positional-mixed"]
            for form in forms:
                check_call(v, case, pipeline, log, out, K, form, ctx)
        # precedence probe: every parameter of the producing function supplied as keyword while bound/default/upstream
        # alternatives exist is covered by the keyword sets above (intermediates + defaults + bound in the generator)
    # arg_combinations
    scoped = getattr(pipeline, "_verif_scoped", False)
    for f in case["funcs"]:
        out = f["outs"][0]
        try:
            with quiet():
                combos = sorted(pipeline.arg_combinations(_sc(out) if scoped else out))
                if scoped:
                    combos = sorted(tuple(sorted(_unsc(tuple(c)))) for c in combos)
        except Exception as e:  # noqa: BLE001
            v.bad(exc_sig(e, "arg_combinations"), f"arg_combinations raised: {exc_msg(e)}", case=daggen.describe(case))
            continue
        roots = daggen.needed_roots(case, out)
        if tuple(sorted(roots)) not in combos:
            v.count("diag_root_cut_not_listed")  # diagnostic only: the property does not demand that it is listed
        for combo in combos[:12]:
            K = {n: f"w_{n}" for n in combo}
            v.count("arg_combinations_exercised")
            try:
                exp = daggen.ref_eval(case, out, K)
            except daggen.Missing as m:
                v.bad("arg_combinations:insufficient-cut", f"listed combination {combo} lacks {m}", case=daggen.describe(case), output=out)
                continue
            surplus = sorted(set(K) - exp["used"])
            probes.log_clear(log)
            try:
                with quiet():
                    got = _call("call", pipeline, out, K)
            except Exception as e:  # noqa: BLE001
                sib = [s for s in surplus if (p := daggen.producer(case, s)) is not None and len(p["outs"]) > 1
                       and any(o in exp["used"] for o in p["outs"] if o != s)]
                sig = "arg_combinations:rejected"
                if surplus and len(sib) == len(surplus):
                    sig += ":superfluous-sibling-of-tuple-output"
                elif surplus:
                    sig += ":superfluous-name"
                v.bad(sig + f":{type(e).__name__}", f"listed combination {combo} for {out} rejected: {exc_msg(e)}",
                      case=daggen.describe(case), output=out, surplus=surplus)
                continue
            if got != exp["value"]:
                v.bad("arg_combinations:value", f"combination {combo}: got {got} expected {exp['value']}",
                      case=daggen.describe(case), output=out)
    # listing order independence
    n = len(case["funcs"])
    if n >= 2:
        perms = list(itertools.permutations(range(n))) if n <= 4 else [tuple(rng.sample(range(n), n)) for _ in range(8)]
        if len(perms) > 8:
            perms = rng.sample(perms, 8)
        for order in perms:
            if list(order) == list(range(n)):
                continue
            log2 = probes.new_log(scratch)
            try:
                with quiet():
                    p2 = daggen.build_pipeline(case, log=log2, order=order, explicit_defaults=(idx % 4 == 1))
            except Exception as e:  # noqa: BLE001
                v.bad(exc_sig(e, "refused-construct-reordered"), f"re-ordered function list refused: {exc_msg(e)}",
                      case=daggen.describe(case), order=order)
                continue
            v.count("orders_tried")
            for out in daggen.all_outputs(case):
                K = {r: f"v_{r}" for r in daggen.needed_roots(case, out)}
                check_call(v, case, p2, log2, out, K, "call", "reordered")


@__import__("dataclasses").dataclass
class _Cfg:
    """A dataclass used AS a pipeline function: its fields are the parameters, field defaults are parameter defaults."""

    scale: object = "cfg-scale-default"
    offset: object = "cfg-offset-default"


def _use(x, cfg, scale="use-scale-default"):
    return ("use", x, scale, cfg.scale, cfg.offset)


def _use_nodefault(x, cfg, scale):
    return ("use", x, scale, cfg.scale, cfg.offset)


def dataclass_scenario(v, rng):
    """A dataclass (or any class) as pipeline function: a field BOUND there plays no role anywhere else - another function's
    free parameter of the same name takes that function's own default, or is missing; in every listing order and call form."""
    from pipefunc import PipeFunc, Pipeline

    for own_default in (True, False):
        for order in (0, 1):
            for bind in ("scale", "offset"):
                if bind == "offset" and own_default:
                    continue  # `scale` free in both with two different defaults: rightly refused at construction
                fs = [PipeFunc(_Cfg, "cfg", bound={bind: "BOUND"}), PipeFunc(_use if own_default else _use_nodefault, "y")]
                if order:
                    fs.reverse()
                w = dict(functions=[f"PipeFunc(dataclass Cfg(scale=<default>, offset=<default>), 'cfg', bound={{{bind!r}: 'BOUND'}})",
                                    f"PipeFunc(use(x, cfg, scale{'=<default>' if own_default else ''}), 'y')"], listing_order=order)
                try:
                    with quiet():
                        p = Pipeline(fs)
                except Exception as e:  # noqa: BLE001
                    v.bad(exc_sig(e, "dataclass-function:refused-construct"), f"valid pipeline refused: {exc_msg(e)}", **w)
                    continue
                for given in ({}, {"scale": "S"}, {"offset": "O"}, {"scale": "S", "offset": "O"}):
                    K = {"x": "X", **given}
                    # reference: the two parameters named `scale` are the same pipeline argument unless bound in Cfg
                    if bind == "scale":
                        cfg_scale = "BOUND"
                        use_scale = given.get("scale", "use-scale-default" if own_default else None)
                        cfg_offset = given.get("offset", "cfg-offset-default")
                    else:
                        cfg_offset = "BOUND"
                        # (scale is free in both: one pipeline argument; its default is declared by Cfg - and by use, if it has one)
                        use_scale = given.get("scale", "cfg-scale-default")
                        cfg_scale = use_scale
                        if "offset" in given:
                            continue  # offset is bound: a keyword for it is surplus (C12)
                    expect = None if use_scale is None else ("use", "X", use_scale, cfg_scale, cfg_offset)
                    for form, call in (("call", lambda: p("y", **K)), ("run", lambda: p.run("y", kwargs=dict(K))),
                                       ("func", lambda: p.func("y")(**K)), ("full", lambda: p.run("y", full_output=True, kwargs=dict(K))["y"])):
                        v.count("dataclass_function_calls")
                        try:
                            with quiet():
                                got = call()
                        except Exception as e:  # noqa: BLE001
                            if expect is not None:
                                v.bad(exc_sig(e, f"dataclass-function:rejected-valid-call/{form}"), f"call with {K} raised {exc_msg(e)}", bound_field=bind, **w)
                            continue
                        if expect is None:
                            v.bad(f"dataclass-function:accepted-call-with-missing-argument/{form}", f"call with {K} returned {got!r:.200} although `scale` of "
                                  "`use` has no value (the field of that name is bound in the dataclass only)", bound_field=bind, **w)
                        elif tuple(got) != expect:
                            v.bad(f"dataclass-function:value/{form}", f"call with {K} returned {got!r:.200}, expected {expect!r:.200}", bound_field=bind, **w)


def run_case(desc):
    v = V()
    if desc.get("start", 1) == 0:
        typed_values(v)
        dataclass_scenario(v, random.Random(0))
    keys = []
    sample = None
    with tmpdir("c02-") as scratch:
        for idx, case in cases_of(desc):
            rng = random.Random(f"c02:{desc.get('seed', 0)}:{idx}")
            run_one(v, idx, case, scratch, rng)
            depth = max((len(daggen.needed_funcs(case, [o])) for o in daggen.all_outputs(case)), default=0)
            if depth >= 2:
                keys.append(daggen.signature(case))
            if sample is None and depth >= 3:
                o = daggen.all_outputs(case)[-1]
                K = {r: f"v_{r}" for r in daggen.needed_roots(case, o)}
                try:
                    sample = {"case": daggen.describe(case), "output": o, "kwargs": K,
                              "reference_value": daggen.ref_eval(case, o, K)["value"]}
                except daggen.Missing:
                    pass
    return v.result(evaluations=v.counters.get("calls_compared", 0), keys=keys, sample=sample if desc["start"] % 500 == 0 else None)


def finalize(agg, tier, seed):
    floors = []
    c = agg.counters
    if c.get("calls_compared", 0) < 10000:
        floors.append(f"only {c.get('calls_compared', 0)} calls compared (< 10000)")
    for cl in ["tuple_out", "bound_over_output", "nullary", "renames", "shared_node_fanout>=2", "falsy_result_shared"]:
        if agg.classes.get(cl, 0) < (50 if cl == "falsy_result_shared" else 100):
            floors.append(f"class {cl} in only {agg.classes.get(cl, 0)} cases (< 100)")
    if c.get("arg_combinations_exercised", 0) < 1000:
        floors.append("fewer than 1000 arg_combinations exercised")
    if c.get("expected_rejections", 0) < 500:
        floors.append("fewer than 500 expected rejections exercised")
    return floors, {}
