"""C05 - An interrupted map resumes to the uninterrupted result, redoing no stored work (DESIGN 4/C05).

Fault enumeration: every logical file-system event of a recorded run is used as a crash point (process
death before the event; torn writes at several offsets inside each data event), every probe call as a
raise point; then the same map is re-run with cleanup=False and compared with the denotation.
"""
from __future__ import annotations

import contextlib
import io
import json
import os
import random
import signal
import sys
import traceback

import numpy as np

from vlib import fsmon, mapgen, probes
from vlib.util import V, tmpdir

PROPERTY = "C05"
LEVEL = "fault_enumeration"
DEADLINE = 300
CHUNK = 4
RULE = ("workloads = fixed structural MapSpec pipelines (3-element map + reduction, tuple output, internal axis, "
        "generator with internal_shapes passed to map, 2-D outer product + partial reduction, functions without "
        "MapSpec) x persisting storages (file_array, dict, shared_memory_dict) x {sequential, thread executor}; for each "
        "the logical fs-event trace of a complete run is recorded and EVERY event is used as a crash point (os._exit "
        "before the event), every data event additionally torn at offsets {0,1,len/2,len-1}, every probe call index as a "
        "raise point; thorough adds second crashes inside the resumed run and crashes while an older run in the same "
        "folder is being cleaned up; a case = (workload, storage, mode, crash point); all are distinct; non-trivial = the "
        "crashed child really died at the planned point (exit status 77) or raised at the planned call")
ASSUMPTIONS = ["process death is modelled as loss of userspace buffers (os._exit inside the python-level interposer); "
               "power loss / reordering of completed writes by the file system is out of scope",
               "the interposer sees every create/rename/unlink under the run folder (audited with strace in the thorough tier)",
               "oracle = vlib.mapgen.oracle"]


def _f(name, params, outs, mapspec, modes, out_axes, internal=(), ishape=(), via=None, ret_list=False):
    return {"name": name, "params": params, "outs": outs, "mapspec": mapspec, "modes": modes,
            "out_axes": list(out_axes), "internal": list(internal), "internal_shape": list(ishape),
            "ret_list": ret_list, "ishape_via": via}


SZ = {"i": 3, "j": 2, "k": 2, "l": 2}
WORKLOADS = {
    "map3+reduce": {"sizes": SZ, "roots": {"x0": {"axes": ["i"], "kind": "list"}}, "funcs": [
        _f("f0", ["x0"], ["y0"], "x0[i] -> y0[i]", {"x0": ["i"]}, ["i"]),
        _f("f1", ["y0"], ["y1"], None, {"y0": "whole"}, [])]},
    "tuple-out": {"sizes": SZ, "roots": {"x0": {"axes": ["i"], "kind": "ndarray"}}, "funcs": [
        _f("f0", ["x0"], ["a", "b"], "x0[i] -> a[i], b[i]", {"x0": ["i"]}, ["i"]),
        _f("f1", ["a", "b"], ["c"], "a[i], b[i] -> c[i]", {"a": ["i"], "b": ["i"]}, ["i"])]},
    "internal-axis": {"sizes": SZ, "roots": {"x0": {"axes": ["i"], "kind": "list"}}, "funcs": [
        _f("f0", ["x0"], ["y0"], "x0[i] -> y0[i, j]", {"x0": ["i"]}, ["i", "j"], ["j"], [2], "pipefunc"),
        _f("f1", ["y0"], ["s"], "y0[i, :] -> s[i]", {"y0": ["i", None]}, ["i"])]},
    "generator-ishape-via-map": {"sizes": SZ, "roots": {"x0": {"axes": [], "kind": "scalar"}}, "funcs": [
        _f("f0", ["x0"], ["v"], "... -> v[j]", {"x0": "whole"}, ["j"], ["j"], [2], "map", True),
        _f("f1", ["v"], ["w"], "v[j] -> w[j]", {"v": ["j"]}, ["j"])]},
    "outer+partial": {"sizes": SZ, "roots": {"x0": {"axes": ["i"], "kind": "list"}, "x1": {"axes": ["j"], "kind": "ndarray"}}, "funcs": [
        _f("f0", ["x0", "x1"], ["z"], "x0[i], x1[j] -> z[i, j]", {"x0": ["i"], "x1": ["j"]}, ["i", "j"]),
        _f("f1", ["z"], ["r"], "z[i, :] -> r[i]", {"z": ["i", None]}, ["i"])]},
    "no-mapspec-chain": {"sizes": SZ, "roots": {"x0": {"axes": [], "kind": "scalar"}}, "funcs": [
        _f("f0", ["x0"], ["a"], None, {"x0": "whole"}, []),
        _f("f1", ["a"], ["b0", "b1"], None, {"a": "whole"}, []),
        _f("f2", ["b1", "x0"], ["c"], None, {"b1": "whole", "x0": "whole"}, [])]},
    # a multi-output function without MapSpec that returns {name: value} and carries a custom output_picker
    "no-mapspec-picker": {"sizes": SZ, "roots": {"x0": {"axes": [], "kind": "scalar"}}, "funcs": [
        _f("f0", ["x0"], ["a"], None, {"x0": "whole"}, []),
        {**_f("f1", ["a"], ["b0", "b1"], None, {"a": "whole"}, []), "picker": True},
        _f("f2", ["b1", "x0"], ["c"], None, {"b1": "whole", "x0": "whole"}, [])]},
    # a function without MapSpec whose result IS None (a side-effect step: "upload", "report"): stored None is stored
    "no-mapspec-none": {"sizes": SZ, "roots": {"x0": {"axes": [], "kind": "scalar"}}, "funcs": [
        {**_f("f0", ["x0"], ["a"], None, {"x0": "whole"}, []), "always_none": True},
        _f("f1", ["a", "x0"], ["b"], None, {"a": "whole", "x0": "whole"}, []),
        {**_f("f2", ["b"], ["c"], None, {"b": "whole"}, []), "always_none": True},
        _f("f3", ["c", "b"], ["d"], None, {"c": "whole", "b": "whole"}, [])]},
    # whole-array inputs of complex / object dtype that contain NaN
    "nan-inputs": {"sizes": SZ, "nan_inputs": True,
                   "roots": {"x0": {"axes": ["i"], "kind": "list"}, "x1": {"axes": [], "kind": "scalar"}, "x2": {"axes": [], "kind": "scalar"}}, "funcs": [
        _f("f0", ["x0", "x1"], ["y0"], "x0[i] -> y0[i]", {"x0": ["i"], "x1": "whole"}, ["i"]),
        _f("f1", ["y0", "x2"], ["y1"], None, {"y0": "whole", "x2": "whole"}, [])]},
    # long enough for holes in the set of missing elements to matter (every second element fails in the first run)
    "long-map": {"sizes": {**SZ, "i": 14}, "roots": {"x0": {"axes": ["i"], "kind": "list"}}, "funcs": [
        _f("f0", ["x0"], ["y0"], "x0[i] -> y0[i]", {"x0": ["i"]}, ["i"]),
        _f("f1", ["y0"], ["y1"], None, {"y0": "whole"}, [])]},
    "internal-first": {"sizes": SZ, "roots": {"x0": {"axes": ["i"], "kind": "ndarray"}}, "funcs": [
        _f("f0", ["x0"], ["y0"], "x0[i] -> y0[j, i]", {"x0": ["i"]}, ["j", "i"], ["j"], [2], "pipefunc", True),
        _f("f1", ["y0"], ["t"], "y0[:, i] -> t[i]", {"y0": [None, "i"]}, ["i"])]},
}
QUICK_W = ["map3+reduce", "tuple-out", "internal-axis", "no-mapspec-picker", "no-mapspec-none", "nan-inputs"]
STORAGES = ["file_array", "dict", "shared_memory_dict"]


def _st(case, storage):
    """'mix-up-dict': the outputs of the FIRST function live in a dict storage (persisted only when a map ends), everything
    downstream in file arrays (each element written at once)."""
    if storage != "mix-up-dict":
        return storage
    f0 = case["funcs"][0]
    return {"": "file_array", (tuple(f0["outs"]) if len(f0["outs"]) > 1 else f0["outs"][0]): "dict"}


# ----------------------------------------------------------------------------- child processes
def _child(fn):
    """Run fn in a forked child (own process group); returns exit code."""
    sys.stdout.flush()
    sys.stderr.flush()
    pid = os.fork()
    if pid == 0:
        code = 1
        try:
            os.setpgid(0, 0)
            with contextlib.redirect_stdout(io.StringIO()), contextlib.redirect_stderr(io.StringIO()):
                code = fn() or 0
        except BaseException:  # noqa: BLE001
            code = 1
        finally:
            os._exit(code)
    _, st = os.waitpid(pid, 0)
    try:
        os.killpg(pid, signal.SIGKILL)
    except (ProcessLookupError, PermissionError):
        pass
    return os.waitstatus_to_exitcode(st)


def _map_child(case, storage, mode, root, log, cleanup, out, crash_at=None, tear=None, trace=None, fault=None,
               inputs=None, crash_children=False, prelude_fault=None):
    def fn():
        from pipefunc.map import load_outputs

        fsmon.FsMon(root, crash_at, tear, trace, crash_children=crash_children).install()
        res = {}
        if prelude_fault is not None:
            # THIS process first attempts the map with the default process pool; a pool worker dies inside one user call
            # (os._exit).  The attempt fails; the judged map below then runs in the same process.
            def _hung(signum, frame):  # the attempt with the dying worker never came back (CPython's pool, not our subject)
                os._exit(97)
            signal.signal(signal.SIGALRM, _hung)
            signal.alarm(60)
            try:
                p0 = mapgen.build_pipeline(case, log=log + ".prelude", fault=prelude_fault)
                p0.map(inputs if inputs is not None else _inputs(case), run_folder=root,
                       internal_shapes=mapgen.internal_shapes_arg(case), storage=_st(case, storage), cleanup=True, parallel=True)
                res["prelude"] = "returned"
            except BaseException as e:  # noqa: BLE001
                res["prelude"] = type(e).__name__
            finally:
                signal.alarm(0)
        if crash_children:
            # a pool worker is about to die: CPython's pool occasionally never reports that (not our subject) - give up then
            signal.signal(signal.SIGALRM, lambda signum, frame: os._exit(97))
            signal.alarm(120)
        try:
            pipeline = mapgen.build_pipeline(case, log=log, fault=fault)
            kw = {"parallel": False}
            ex = None
            if mode == "default":
                kw = {"parallel": True}
            if mode == "thread":
                from concurrent.futures import ThreadPoolExecutor

                ex = ThreadPoolExecutor(2)
                kw = {"executor": ex}
            elif mode in ("process", "process1"):
                import multiprocessing
                from concurrent.futures import ProcessPoolExecutor

                ex = ProcessPoolExecutor(2 if mode == "process" else 1, mp_context=multiprocessing.get_context("fork"))
                kw = {"executor": ex}
            try:
                r = pipeline.map(inputs if inputs is not None else _inputs(case), run_folder=root,
                                 internal_shapes=mapgen.internal_shapes_arg(case), storage=_st(case, storage), cleanup=cleanup, **kw)
            finally:
                if ex is not None:
                    ex.shutdown(wait=True)
            res["outputs"] = {k: probes.render(v.output) for k, v in r.items()}
            res["loaded"] = {}
            for f in case["funcs"]:
                for o in f["outs"]:
                    try:
                        res["loaded"][o] = probes.render(load_outputs(o, run_folder=root))
                    except Exception as e:  # noqa: BLE001
                        res["loaded"][o] = f"EXC {type(e).__name__}: {e}"[:300]
            code = 0
        except Exception as e:  # noqa: BLE001
            tb = traceback.extract_tb(e.__traceback__)
            where = "?"
            for fr in tb:
                if "/pipefunc/" in fr.filename:
                    where = f"{os.path.basename(fr.filename)}:{fr.name}"
            # (the head AND the tail of the message: pipefunc's refusal to continue on another run's folder ends with
            #  "cannot use `cleanup=False`" after a rendering of both input sets, which can be long)
            m_ = str(e)
            res["exc"] = {"type": type(e).__name__, "msg": m_ if len(m_) <= 600 else m_[:300] + " ... " + m_[-300:], "where": where}
            code = 1
        if out:
            with open(out, "w") as f:
                json.dump(res, f)
        return code

    return _child(fn)


def _inputs(case):
    """The inputs of a workload; 'nan_inputs' replaces whole-array arguments by a complex and an object array that contain
    NaN (NaN != NaN: the comparison of a resumed run's inputs with the recorded ones must still find them equal)."""
    inp = mapgen.make_inputs(case)
    if case.get("nan_inputs"):
        inp["x1"] = np.array([1 + 2j, complex(float("nan"), 0.0), 3j])
        o = np.empty(3, dtype=object)
        o[:] = ["p", float("nan"), 2.5]
        inp["x2"] = o
    return inp


def _inputs_variant(case, tagv):
    inp = _inputs(case)

    def ren(x):
        if isinstance(x, str):
            return x + tagv
        if isinstance(x, list):
            return [ren(y) for y in x]
        if not isinstance(x, np.ndarray):
            return x
        a = np.empty(x.shape, dtype=object)
        for idx in np.ndindex(*x.shape):
            a[idx] = ren(x[idx])
        return a

    return {k: ren(v) for k, v in inp.items()}


# ----------------------------------------------------------------------------- planning
def record(case, storage, mode, base):
    root = os.path.join(base, "rec")
    trace = os.path.join(base, "rec.trace")
    log = os.path.join(base, "rec.log")
    out = os.path.join(base, "rec.out")
    rc = _map_child(case, storage, mode, root, log, True, out, trace=trace)
    ev = fsmon.read_trace(trace)
    ncalls = len(probes.log_read(log))
    return rc, ev, ncalls


def plan(tier, seed):
    import shutil
    import tempfile

    from vlib import boot

    wl = QUICK_W if tier == "quick" else list(WORKLOADS)
    modes = ["seq"] if tier == "quick" else ["seq", "thread"]
    descs = []
    rng = random.Random(f"c05:{seed}")
    # every second element of a long map fails under a one-worker process pool: the others get stored, the resume (same pool
    # type) must compute exactly the missing ones
    for st in ("file_array", "shared_memory_dict"):
        for pmode in ("process1", "thread"):
            descs.append({"w": "long-map", "st": st, "mode": pmode, "kind": "raise-many", "every": 2})
            descs.append({"w": "long-map", "st": st, "mode": pmode, "kind": "raise-many", "every": 3})
    # a dict-stored upstream array (lost by the interruption) below file-array outputs (kept): raise at every call
    for w in ("tuple-out", "internal-axis"):
        _, exp_c = mapgen.oracle(WORKLOADS[w])
        ncalls_w = sum(len(x) for x in exp_c.values())
        for pmode in ("seq", "thread"):
            for c in range(1, ncalls_w + 1):
                descs.append({"w": w, "st": "mix-up-dict", "mode": pmode, "kind": "raise", "call": c})
    for w in wl:
        for st in STORAGES:
            for mode in modes:
                base = tempfile.mkdtemp(prefix="c05plan-", dir=boot.scratch())
                rc, ev, ncalls = record(WORKLOADS[w], st, mode, base)
                shutil.rmtree(base, ignore_errors=True)
                if rc != 0:
                    descs.append({"w": w, "st": st, "mode": mode, "kind": "record-failed"})
                    continue
                pts = []
                for e in ev:
                    pts.append((e[0], None))
                    if e[1] == "data" and e[3]:
                        for off in sorted({0, 1, e[3] // 2, e[3] - 1}):
                            if 0 <= off < e[3]:
                                pts.append((e[0], off))
                if mode == "thread":
                    pts = [p for p in pts if p[1] is None or p[1] == 1]
                if tier == "quick" and st == "shared_memory_dict":
                    pts = [p for p in pts if p[1] is None or p[1] == 1]
                for k, tear in pts:
                    descs.append({"w": w, "st": st, "mode": mode, "kind": "fs", "k": k, "tear": tear,
                                  "evkind": ev[k - 1][1], "evpath": ev[k - 1][2]})
                if mode == "seq":
                    for c in range(1, ncalls + 1):
                        descs.append({"w": w, "st": st, "mode": mode, "kind": "raise", "call": c})
                    # the same under pools: the elements AFTER the failing one are computed and stored by other workers, so
                    # the folder is left with a hole before its end (a state no sequential interruption produces)
                    if st != "dict":
                        mapped_calls = sum(len(exp) for f_, exp in zip(WORKLOADS[w]["funcs"], [mapgen.oracle(WORKLOADS[w])[1][f_["name"]] for f_ in WORKLOADS[w]["funcs"]])
                                           if f_["mapspec"] and any(isinstance(m, list) for m in f_["modes"].values()))
                        k_ = 0
                        for f_ in WORKLOADS[w]["funcs"]:
                            n_ = len(mapgen.oracle(WORKLOADS[w])[1][f_["name"]])
                            if f_["mapspec"] and any(isinstance(m, list) for m in f_["modes"].values()):
                                for c in range(k_ + 1, k_ + n_ + 1):
                                    descs.append({"w": w, "st": st, "mode": "default", "kind": "same-process", "call": c})
                            k_ += n_
                    if w in ("map3+reduce", "tuple-out") or tier == "thorough":
                        for pmode in (["thread", "process"] if st != "dict" else ["thread"]):
                            for c in range(1, ncalls + 1):
                                descs.append({"w": w, "st": st, "mode": pmode, "kind": "raise", "call": c})
                if tier == "quick" and mode == "seq" and w == "map3+reduce" and st in ("file_array", "dict"):
                    # an older complete run with other inputs lives in the folder; the new run (cleanup=True) dies at event k
                    for k in list(range(1, 16)) + list(range(16, len(ev) + 8, 2)):
                        descs.append({"w": w, "st": st, "mode": mode, "kind": "stale", "k": k})
                if tier == "thorough" and mode == "seq":
                    for k, tear in rng.sample(pts, min(len(pts), 25)):
                        descs.append({"w": w, "st": st, "mode": mode, "kind": "double", "k": k, "tear": tear,
                                      "k2": rng.randint(1, max(2, len(ev))), "evkind": ev[k - 1][1], "evpath": ev[k - 1][2]})
                    if st in ("file_array", "shared_memory_dict"):  # storages whose elements are written by the worker
                        for k in range(1, len(ev) + 1, 2):
                            descs.append({"w": w, "st": st, "mode": "seq", "kind": "worker", "k": k})
                    comparable = all(r["kind"] != "ndarray" for r in WORKLOADS[w]["roots"].values())
                    if comparable:  # pipefunc cannot compare object-dtype ndarray inputs of two runs ("hoping for the best")
                        for k in range(1, 2 * len(ev) + 8):
                            descs.append({"w": w, "st": st, "mode": mode, "kind": "stale", "k": k})
    rng.shuffle(descs)
    return descs


# ----------------------------------------------------------------------------- one crash + resume
def _bucket(path):
    p = path.replace("\\", "/")
    base = os.path.basename(p)
    if base.startswith("."):
        base = base.lstrip(".")
    if "run_info.json" in base:
        return "run_info.json"
    if p.startswith("inputs"):
        return "input-file"
    if p.startswith("defaults"):
        return "defaults-file"
    if "dict_array.cloudpickle" in base:
        return "dict_array.cloudpickle"
    if "__" in base and ".pickle" in base:
        return "element-file"
    if p.startswith("outputs") and ".cloudpickle" in base:
        return "single-output-file"
    return "dir:" + (p.split("/")[0] if p != "." else "root")


def _stored_calls(case, storage, done, exp_calls):
    """Set of (function name, term) whose results were completely stored, judged from complete files."""
    stored = set()
    for f in case["funcs"]:
        calls = exp_calls[f["name"]]
        ext = [a for a in f["out_axes"] if a not in f["internal"]]
        is_map = f["mapspec"] is not None and any(isinstance(m, list) for m in f["modes"].values())
        if not is_map:
            if all(f"outputs/{o}.cloudpickle" in done for o in f["outs"]):
                stored.update((f["name"], t) for _, t in calls)
            continue
        shape = tuple(case["sizes"][a] for a in ext)
        for ext_idx, t in calls:
            lin = int(np.ravel_multi_index(ext_idx, shape)) if shape else 0
            ok = True
            for o in f["outs"]:
                if f"outputs/{o}/__{lin}__.pickle" in done:
                    continue
                if f"outputs/{o}/dict_array.cloudpickle" in done:
                    continue
                ok = False
            if ok:
                stored.add((f["name"], t))
    return stored


def check_resume(v, desc, case, env, exp_calls, root, scratch, done, tagname, sigctx, prelude_fault=None):
    """Resume in `root` with cleanup=False and compare with the oracle."""
    log2 = os.path.join(scratch, f"{tagname}.log")
    out2 = os.path.join(scratch, f"{tagname}.out")
    rc = _map_child(case, desc["st"], desc["mode"], root, log2, False, out2, prelude_fault=prelude_fault)
    if rc == 97:
        v.count("prelude_attempt_hung_not_judged")
        return True
    v.count("resumes")
    w = dict(workload=desc["w"], storage=desc["st"], mode=desc["mode"], crash=sigctx, desc=desc)
    try:
        with open(out2) as f:
            res = json.load(f)
    except Exception:  # noqa: BLE001
        res = {}
    if rc != 0 or "exc" in res:
        exc = res.get("exc", {"type": f"exit{rc}", "where": "?", "msg": ""})
        if sigctx.startswith("stale") and exc["type"] == "ValueError" and "cannot use `cleanup=False`" in exc["msg"]:
            # the interrupted run had not (completely) replaced an older run with other inputs: refusing to
            # continue on that folder is the safe outcome; what must never happen is a stale value as a result
            v.count("stale_refusals")
            return True
        v.bad(f"resume-raises:{exc['type']}@{exc['where']}/{sigctx}", f"resumed run raised {exc['type']}: {exc['msg']}", **w)
        return False
    ok = True
    for f in case["funcs"]:
        for o in f["outs"]:
            exp = probes.render(env[o])
            v.count("outputs_compared")
            if res["outputs"].get(o) != exp:
                v.bad(f"resume-wrong-result/{sigctx}", f"resumed run returned a wrong value for {o}", got=str(res["outputs"].get(o))[:500],
                      expected=exp[:500], **w)
                ok = False
            if res["loaded"].get(o) != exp:
                v.bad(f"resume-wrong-stored/{sigctx}", f"load_outputs({o}) after resume differs", got=str(res["loaded"].get(o))[:500],
                      expected=exp[:500], **w)
                ok = False
    calls = probes.log_read(log2)
    stored = _stored_calls(case, desc["st"], done, exp_calls)
    v.count("stored_elements_at_crash", len(stored))
    redo = [(c["f"], c["k"]) for c in calls if (c["f"], c["k"]) in stored]
    if redo:
        v.bad(f"recomputed-stored/{sigctx}", f"{len(redo)} completely stored element(s) recomputed, e.g. {redo[0]}", **w)
        ok = False
    # nothing outside the expected call set, nothing twice
    expset = {(n, t) for n, cs in exp_calls.items() for _, t in cs}
    seen = set()
    for c in calls:
        key = (c["f"], c["k"])
        if key not in expset:
            v.bad(f"resume-unexpected-call/{sigctx}", f"resumed run made an unexpected call {key}", **w)
            ok = False
        if key in seen:
            v.bad(f"resume-duplicate-call/{sigctx}", f"resumed run called {key} twice", **w)
            ok = False
        seen.add(key)
    return ok


def run_case(desc):
    v = V()
    if desc["kind"] == "record-failed":
        v.bad("record-run-failed", "uninterrupted recording run failed", desc=desc)
        return v.result(evaluations=v.counters.get("resumes", 0), )
    case = WORKLOADS[desc["w"]]
    env, exp_calls = mapgen.oracle(case, _inputs(case))
    with tmpdir("c05-") as scratch:
        root = os.path.join(scratch, "run")
        trace = os.path.join(scratch, "crash.trace")
        log1 = os.path.join(scratch, "crash.log")
        if desc["kind"] in ("fs", "double"):
            rc = _map_child(case, desc["st"], desc["mode"], root, log1, True, None, crash_at=desc["k"], tear=desc["tear"], trace=trace)
            if rc != fsmon.EXIT_CRASH:
                v.count("crash_point_not_reached")
                return v.result(evaluations=v.counters.get("resumes", 0), )
            ev = fsmon.read_trace(trace)
            last = ev[-1]
            v.count("crashes")
            v.count(f"crash_at_{last[1]}" + ("_torn" if desc["tear"] is not None else ""))
            v.classes.add("crash-in:" + _bucket(last[2]))
            done = fsmon.complete_files(ev)
            sigctx = f"{last[1]}{'-torn' if desc['tear'] is not None else ''}:{_bucket(last[2])}"
            if desc["kind"] == "double":
                trace2 = os.path.join(scratch, "crash2.trace")
                rc2 = _map_child(case, desc["st"], desc["mode"], root, os.path.join(scratch, "c2.log"), False, None,
                                 crash_at=desc["k2"], trace=trace2)
                if rc2 == fsmon.EXIT_CRASH:
                    v.count("second_crashes")
                    ev2 = fsmon.read_trace(trace2)
                    done = fsmon.complete_files(ev + ev2) if True else done
                    # files complete after the first crash stay complete unless the second run touched them
                    done1 = fsmon.complete_files(ev)
                    touched = {e[2] for e in ev2 if e[1] in ("create", "unlink", "rename")} | {e[3] for e in ev2 if e[1] == "rename"}
                    done = {d for d in done1 if d not in touched} | fsmon.complete_files(ev2)
                    sigctx = "double:" + sigctx
                elif rc2 != 0:
                    v.bad(f"resume-raises:second-run-exit{rc2}/{sigctx}", "second (to be crashed) run failed by itself", desc=desc)
                    return v.result(evaluations=v.counters.get("resumes", 0), key=json.dumps(desc, sort_keys=True))
            check_resume(v, desc, case, env, exp_calls, root, scratch, done, "resume", sigctx)
        elif desc["kind"] == "worker":
            # a WORKER process of a process pool dies at its k-th fs event; the coordinating process sees a broken pool
            out1 = os.path.join(scratch, "crash.out")
            rc = _map_child(case, desc["st"], "process", root, log1, True, out1, crash_at=desc["k"], trace=trace, crash_children=True)
            if rc == 97:
                v.count("worker_death_attempt_hung_not_judged")
                return v.result(evaluations=v.counters.get("resumes", 0), )
            ev = fsmon.read_trace(trace)
            if not any(len(e) > 5 for e in ev):
                v.count("crash_point_not_reached")
                return v.result(evaluations=v.counters.get("resumes", 0), )
            v.count("crashes")
            v.count("worker_deaths")
            try:
                r1 = json.load(open(out1))
            except Exception:  # noqa: BLE001
                r1 = {}
            if rc == 0 and "exc" not in r1:
                v.bad("worker-death:map-returned-normally", "a pool worker died but map returned normally", desc=desc)
            last = next(e for e in ev if len(e) > 5)
            v.count(f"crash_at_{last[1]}_in_worker")
            done = fsmon.complete_files(ev)
            check_resume(v, desc, case, env, exp_calls, root, scratch, done, "resume", f"worker-death:{last[1]}:{_bucket(last[2])}")
        elif desc["kind"] == "same-process":
            # a pool worker dies inside the c-th user call of a map on the DEFAULT pool; the same process then resumes
            order = [(f["name"], t) for f in case["funcs"] for _, t in exp_calls[f["name"]]]
            fname, t = order[desc["call"] - 1]
            v.count("same_process_resumes_after_worker_death")
            check_resume(v, desc, case, env, exp_calls, root, scratch, set(), "resume", f"same-process-after-worker-death:{fname}",
                         prelude_fault={fname: {"kill": {t: 9}}})
        elif desc["kind"] == "raise-many":
            f0 = case["funcs"][0]
            terms = [t for _, t in exp_calls[f0["name"]]]
            failing = terms[::desc["every"]]
            fault = {f0["name"]: {"raise": {t: ["ValueError", "injected"] for t in failing}}}
            out1 = os.path.join(scratch, "crash.out")
            rc = _map_child(case, desc["st"], desc["mode"], root, log1, True, out1, trace=trace, fault=fault)
            try:
                r1 = json.load(open(out1))
            except Exception:  # noqa: BLE001
                r1 = {}
            if rc != 1 or r1.get("exc", {}).get("type") != "ValueError":
                v.bad("raise-point:not-propagated", f"injected ValueError did not surface (rc={rc}, {r1.get('exc')})", desc=desc)
                return v.result(evaluations=v.counters.get("resumes", 0), key=json.dumps(desc, sort_keys=True))
            v.count("raises")
            v.count("first_runs_with_several_failing_elements")
            ev = fsmon.read_trace(trace)
            done = fsmon.complete_files(ev + [[0, "end", ".", None, 0, "CRASH"]])
            check_resume(v, desc, case, env, exp_calls, root, scratch, done, "resume", f"raise-many:every-{desc['every']}")
        elif desc["kind"] == "raise":
            fname = None
            # the c-th probe call overall raises: translate to (function, term) using the recorded order = oracle order
            order = [(f["name"], t) for f in case["funcs"] for _, t in exp_calls[f["name"]]]
            fname, t = order[desc["call"] - 1]
            fault = {fname: {"raise": {t: ["ValueError", "injected"]}}}
            out1 = os.path.join(scratch, "crash.out")
            rc = _map_child(case, desc["st"], desc["mode"], root, log1, True, out1, trace=trace, fault=fault)
            try:
                r1 = json.load(open(out1))
            except Exception:  # noqa: BLE001
                r1 = {}
            if rc != 1 or r1.get("exc", {}).get("type") != "ValueError":
                v.bad("raise-point:not-propagated", f"injected ValueError did not surface (rc={rc}, {r1.get('exc')})", desc=desc)
                return v.result(evaluations=v.counters.get("resumes", 0), key=json.dumps(desc, sort_keys=True))
            v.count("raises")
            ev = fsmon.read_trace(trace)
            done = fsmon.complete_files(ev + [[0, "end", ".", None, 0, "CRASH"]])
            check_resume(v, desc, case, env, exp_calls, root, scratch, done, "resume", f"raise:{fname}")
        elif desc["kind"] == "stale":
            # an older complete run with different inputs lives in the folder; the new run (cleanup=True) dies at event k
            rc0 = _map_child(case, desc["st"], desc["mode"], root, os.path.join(scratch, "old.log"), True, None,
                             inputs=_inputs_variant(case, "~old"))
            if rc0 != 0:
                v.bad("stale:old-run-failed", "preparatory run failed", desc=desc)
                return v.result(evaluations=v.counters.get("resumes", 0), )
            rc = _map_child(case, desc["st"], desc["mode"], root, log1, True, None, crash_at=desc["k"], trace=trace)
            if rc != fsmon.EXIT_CRASH:
                v.count("crash_point_not_reached")
                return v.result(evaluations=v.counters.get("resumes", 0), )
            ev = fsmon.read_trace(trace)
            last = ev[-1]
            v.count("crashes")
            v.count("stale_crashes")
            v.count(f"crash_at_{last[1]}")
            phase = "during-cleanup" if not any(e[1] == "mkdir" for e in ev[:-1]) else "after-cleanup"
            v.classes.add("stale-crash-" + phase)
            check_resume(v, desc, case, env, exp_calls, root, scratch, set(), "resume", f"stale-{phase}:{last[1]}")
    return v.result(evaluations=v.counters.get("resumes", 0), key=json.dumps({k: desc[k] for k in desc if k not in ("evkind", "evpath")}, sort_keys=True),
                    sample={"desc": desc, "violations": len(v.violations)} if desc.get("k", 0) % 23 == 5 else None)


def finalize(agg, tier, seed):
    floors = []
    c = agg.counters
    for kind in ["mkdir", "create", "data", "data_torn", "close"]:
        if c.get(f"crash_at_{kind}", 0) < 5:
            floors.append(f"event kind {kind} used as crash point only {c.get(f'crash_at_{kind}', 0)} times")
    for b in ["crash-in:run_info.json", "crash-in:input-file", "crash-in:element-file", "crash-in:single-output-file",
              "crash-in:dict_array.cloudpickle"]:
        if agg.classes.get(b, 0) < 1:
            floors.append(f"no crash inside {b}")
    if c.get("raises", 0) < 10:
        floors.append("fewer than 10 raise points")
    if c.get("resumes", 0) < (300 if tier == "quick" else 3000):
        floors.append(f"only {c.get('resumes', 0)} crash-and-resume pairs")
    if c.get("stale_crashes", 0) < 20:
        floors.append("fewer than 20 crashes over an older run in the same folder")
    if c.get("stored_elements_at_crash", 0) < 100:
        floors.append("fewer than 100 stored elements observed at crash time (recompute monitor idle)")
    sp = agg.counters.get("same_process_resumes_after_worker_death", 0) - agg.counters.get("prelude_attempt_hung_not_judged", 0)
    if sp < 12:
        floors.append(f"only {sp} same-process resumes after a worker death were judged (< 12)")
    return floors, {"exhaustive_note": "every recorded logical fs event of every listed workload x storage is a crash point"}
