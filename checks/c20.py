"""C20 - Resource specifications combine monotonically and without side effects (DESIGN 4/C20)."""
from __future__ import annotations

import copy
import random

from vlib import models_c20 as M
from vlib.util import V, exc_msg, exc_sig

PROPERTY = "C20"
LEVEL = "exploration"
DEADLINE = 300
CHUNK = 2   # batches are heavy (hundreds..thousands of small cases each): small chunks balance the 16 workers
RULE = ("valid Resources generated from the harness's own grammar (cpus 1..16 | nodes 1..8 [+ cpus_per_node 1..8], gpus 0..4, "
        "memory '<int|fraction><B..PB>' in upper/lower/mixed case, time MM:SS / H:MM:SS / HH:MM:SS / D:HH:MM:SS / DD:HH:MM:SS with "
        "in-range fields, partition, extra_args incl. nested values, parallelization_mode): (single) an exhaustive grid of "
        "~3x10^4 single values -> from_dict(dict()) round trip + to_slurm_options mentions; (pairs) ALL ordered pairs of an "
        "n-value core (fixed structural values + values from VERIF_SEED) -> combine_max, with_defaults, maybe_with_defaults; "
        "(lists) sampled operand lists of 1..4 -> combine_max; (update) sampled update() calls with field / non-field / "
        "extra_args keywords; (invalid) exhaustive cpus x nodes x cpus_per_node x gpus combination grid and mutation operators "
        "applied to valid memory / time strings -> must raise at construction; (nested) NestedPipeFunc over 2..4 children (0..4 of them with resources). "
        "icontract snapshot/ensure contracts are attached to the real update / with_defaults / combine_max / "
        "maybe_with_defaults for the duration of each case; distinct = distinct canonical operand specs (+ keywords)")
ASSUMPTIONS = ["oracle = vlib.models_c20 (memory -> exact bytes, time -> seconds read right to left, own validity rules); never calls pipefunc",
               "memory sizes are compared under the decimal AND the binary unit convention; a result is accepted if it is large enough under either",
               "operand state is read through public attribute access (view) and through __dict__ (contract snapshot)",
               "only strings outside a deliberately permissive grammar (anything some scheduler convention could read) are demanded to be rejected",
               "combine_max is not required to keep nodes / cpus_per_node (the property lists cpus, gpus, memory, time); dropped ones are counted only",
               "with_defaults(None) / maybe_with_defaults(x, None) may return the operand itself (None is outside the quantifier)"]

_R = None


class VV(V):
    """One witness per mechanism signature and batch (a batch holds hundreds of small cases); every
    occurrence is still counted in the evidence (`viol:<sig>`)."""

    def bad(self, sig, msg, **witness):
        self.counters["viol:" + sig] += 1
        if any(x["sig"] == sig for x in self.violations) or len(self.violations) >= 40:
            return
        self.violations.append({"sig": sig, "msg": msg, "witness": witness})


def res_cls():
    global _R
    if _R is None:
        from pipefunc.resources import Resources
        _R = Resources
    return _R


# ---------------------------------------------------------------------------------------------------------
def plan(tier, seed):
    quick = tier == "quick"
    descs = []
    nsingle = 64
    for p in range(nsingle):
        descs.append({"kind": "single", "seed": seed, "part": p, "nparts": nsingle})
    ncore = 200 if quick else 800
    step = 5
    for lo in range(0, ncore, step):
        descs.append({"kind": "pairs", "seed": seed, "ncore": ncore, "lo": lo, "hi": min(ncore, lo + step)})
    for b in range(48 if quick else 600):
        descs.append({"kind": "lists", "seed": seed, "batch": b, "n": 500})
    for b in range(32 if quick else 400):
        descs.append({"kind": "update", "seed": seed, "batch": b, "n": 500})
    descs.append({"kind": "invalid_grid"})
    for b in range(16 if quick else 160):
        descs.append({"kind": "malformed", "seed": seed, "batch": b, "n": 600})
    for b in range(32 if quick else 320):
        descs.append({"kind": "nested", "seed": seed, "batch": b, "n": 25})
    return descs


# ---------------------------------------------------------------------------------------------------------
# helpers
# ---------------------------------------------------------------------------------------------------------
def build(v, spec, where):
    """Construct a valid spec; a refusal is a violation (the property quantifies over all valid values).
    Lower / mixed-case memory units are used 'if accepted': a refusal falls back to the upper-case spelling."""
    R = res_cls()
    try:
        return R(**copy.deepcopy(spec))
    except Exception as e:  # noqa: BLE001
        mem = spec.get("memory")
        if isinstance(mem, str) and mem != mem.upper():
            v.count("diag_mixed_case_memory_refused")
            spec["memory"] = mem.upper()
            return build(v, spec, where)
        v.bad(exc_sig(e, "refused-valid") + f"/{where}", f"valid Resources refused at construction: {exc_msg(e)}", spec=spec)
        return None


def unchanged(v, method, role, obj, spec, seen):
    """Direct (contract-independent) operand check through public attributes."""
    d = M.diff(M.full(spec), M.view(obj))
    for fld, kind in d:
        sig = f"side-effect:{method}/{role}.{fld}-{kind}"
        if sig not in seen:
            seen.add(sig)
            v.bad(sig, f"{method} changed its {role}: field {fld} {kind}", before=M.full(spec), after=M.view(obj))
    return not d


def breach(v, method, seen, **witness):
    """A contract raised SideEffectBreach: turn the recorded findings into mechanism signatures."""
    v.count(f"contract_breaches_{method}")
    for role, fld, kind in M.LAST.get("findings", [("?", "?", "?")]):
        sig = f"not-new:{method}/result-is-{kind}" if role == "result" else f"side-effect:{method}/{role}.{fld}-{kind}"
        if sig not in seen:
            seen.add(sig)
            v.bad(sig, f"icontract postcondition on Resources.{method} failed: {role} {fld} {kind}", **witness)


def check_max(v, method, specs, result_view, where):
    """result >= every operand in cpus, gpus, memory (size), time (duration).  `exact`: equality instead."""
    for q in ("cpus", "gpus"):
        vals = [s[q] for s in specs if s.get(q) is not None]
        if not vals:
            continue
        got = result_view[q]
        v.count(f"{where}_{q}_compared")
        if got is None:
            if q == "gpus" and max(vals) == 0:
                continue
            v.bad(f"{method}:{q}-unset-but-operand-set", f"{method} result has {q}=None, operands {vals}", operands=specs, result=result_view)
        elif got < max(vals):
            v.bad(f"{method}:{q}-below-operand", f"{method} result {q}={got} < operand {max(vals)}", operands=specs, result=result_view)
    mems = [s["memory"] for s in specs if s.get("memory") is not None]
    if mems:
        got = result_view["memory"]
        v.count(f"{where}_memory_compared")
        if got is None:
            if all(M.mem_bytes(m) == 0 for m in mems):
                v.count("diag_zero_memory_request_left_unset")  # 'no requirement' is accepted as >= 0 bytes
            else:
                v.bad(f"{method}:memory-unset-but-operand-set", f"{method} result has memory=None, operands {mems}", operands=specs, result=result_view)
        elif M.mem_bytes(got) is None:
            v.bad(f"{method}:memory-result-unparsable", f"{method} result memory {got!r} is not '<number><B..PB>'", operands=specs)
        elif not M.mem_max_ok(got, mems):
            units = {m.upper().lstrip("0123456789.") for m in mems}
            trig = "same-unit" if len(units) == 1 else "mixed-units"
            v.bad(f"{method}:memory-below-operand/{trig}", f"{method} result memory {got} is smaller than an operand of {mems}",
                  operands=specs, result=result_view)
    times = [s["time"] for s in specs if s.get("time") is not None]
    if times:
        got = result_view["time"]
        v.count(f"{where}_time_compared")
        want = max(M.time_seconds(t) for t in times)
        if got is None:
            v.bad(f"{method}:time-unset-but-operand-set", f"{method} result has time=None, operands {times}", operands=specs, result=result_view)
        elif M.time_seconds(got) is None:
            v.bad(f"{method}:time-result-unparsable", f"{method} result time {got!r} unparsable", operands=specs)
        elif M.time_seconds(got) < want:
            trig = "result-is-lexicographic-max" if got == max(times) else "other"
            v.bad(f"{method}:time-below-operand/{trig}",
                  f"{method} result time {got!r} ({M.time_seconds(got)} s) is shorter than operand "
                  f"{[t for t in times if M.time_seconds(t) == want][0]!r} ({want} s)", operands=specs, result=result_view)


def check_exact_max(v, specs, result_view):
    """NestedPipeFunc: resources equal the maximum of the children (by size / duration)."""
    for q in ("cpus", "gpus"):
        vals = [s[q] for s in specs if s.get(q) is not None]
        want = max(vals) if vals else None
        got = result_view[q]
        v.count("nested_quantities_compared")
        if got != want and not (q == "gpus" and (got or 0) == (want or 0)):
            v.bad(f"nested:{q}-not-max", f"NestedPipeFunc.resources.{q}={got}, maximum of children {want}", children=specs, result=result_view)
    mems = [s["memory"] for s in specs if s.get("memory") is not None]
    got = result_view["memory"]
    v.count("nested_quantities_compared")
    if got is None and mems and all(M.mem_bytes(m) == 0 for m in mems):
        v.count("diag_zero_memory_request_left_unset")
    elif (got is None) != (not mems) or (mems and not (M.mem_bytes(got) is not None and M.mem_is_max(got, mems) and M.mem_max_ok(got, mems))):
        v.bad("nested:memory-not-max", f"NestedPipeFunc.resources.memory={got!r}, children {mems}", children=specs, result=result_view)
    times = [s["time"] for s in specs if s.get("time") is not None]
    got = result_view["time"]
    v.count("nested_quantities_compared")
    if (got is None) != (not times) or (times and M.time_seconds(got) != max(M.time_seconds(t) for t in times)):
        trig = "result-is-lexicographic-max" if times and got == max(times) else "other"
        v.bad(f"nested:time-not-max/{trig}", f"NestedPipeFunc.resources.time={got!r}, children {times}", children=specs, result=result_view)


def digit_counts_differ(specs):
    ts = [s["time"] for s in specs if s.get("time") is not None]
    return len({M.digits(t) for t in ts}) > 1


def do_combine_max(v, specs, where, keys=None, alias=False):
    """combine_max over fresh objects built from `specs`; returns the result view or None."""
    R = res_cls()
    objs = [build(v, s, where) for s in specs]
    if any(o is None for o in objs):
        return None
    if alias and len(objs) >= 2 and specs[0] == specs[-1]:
        objs[-1] = objs[0]  # the same object twice in the list
    lst = list(objs)
    seen = set()
    res = None
    try:
        res = R.combine_max(lst)
    except M.SideEffectBreach:
        breach(v, "combine_max", seen, operands=specs)
    except Exception as e:  # noqa: BLE001
        v.bad(exc_sig(e, "exc") + "/combine_max", f"combine_max raised on valid operands: {exc_msg(e)}", operands=specs)
    v.count("ops_combine_max")
    v.count(f"ops_combine_max_len{len(specs)}")
    if len(lst) != len(objs) or any(a is not b for a, b in zip(lst, objs)):
        v.bad("side-effect:combine_max/list-changed", "combine_max changed the operand list", operands=specs)
    for o, s in zip(objs, specs):
        unchanged(v, "combine_max", "operand", o, s, seen)
    if digit_counts_differ(specs):
        v.count("lists_time_digit_count_differs")
    if res is None:
        return None
    if not isinstance(res, R):
        v.bad("combine_max:result-not-Resources", f"combine_max returned {type(res).__name__}", operands=specs)
        return None
    if any(res is o for o in objs) and "not-new:combine_max/result-is-operand" not in seen:
        v.bad("not-new:combine_max/result-is-operand", "combine_max returned one of its operands", operands=specs)
    rv = M.view(res)
    check_max(v, "combine_max", specs, rv, "combine_max")
    if any(s.get("nodes") is not None for s in specs) and rv["nodes"] is None:
        v.count("diag_combine_max_dropped_nodes")
    if keys is not None and len(specs) >= 2:
        keys.append("cm:" + M.key_of(specs))
    return rv


def do_with_defaults(v, a, b, where, via="with_defaults", keys=None):
    """a.with_defaults(b) (or maybe_with_defaults(a, b) / its delayed callable form)."""
    R = res_cls()
    A, B = build(v, a, where), build(v, b, where)
    if A is None or B is None:
        return None
    merged = M.merged_defaults(a, b)
    reason = M.invalid_reason(merged)
    seen = set()
    res, raised = None, None
    try:
        if via == "with_defaults":
            res = A.with_defaults(B)
        elif via == "maybe_with_defaults":
            res = R.maybe_with_defaults(A, B)
        else:  # callable resources: the combination is delayed
            def fn(kw, _A=A):
                return _A
            delayed = R.maybe_with_defaults(fn, B)
            res = delayed({"x": 1})
    except M.SideEffectBreach:
        breach(v, via if via != "delayed" else "with_defaults", seen, receiver=a, defaults=b)
        raised = "breach"
    except ValueError as e:
        raised = e
    except Exception as e:  # noqa: BLE001
        v.bad(exc_sig(e, "exc") + f"/{via}", f"{via} raised: {exc_msg(e)}", receiver=a, defaults=b)
        raised = "other"
    v.count(f"ops_{via}")
    unchanged(v, via, "receiver", A, a, seen)
    unchanged(v, via, "defaults", B, b, seen)
    if isinstance(raised, ValueError):
        if reason is None:
            v.bad(exc_sig(raised, "exc") + f"/{via}/merged-spec-valid", f"{via} raised although the combined spec is valid: {exc_msg(raised)}",
                  receiver=a, defaults=b, merged=merged)
        else:
            v.count("with_defaults_exclusive_valueerror")
        return "ValueError"
    if raised is not None:
        return None
    if not isinstance(res, R):
        v.bad(f"{via}:result-not-Resources", f"{via} returned {type(res).__name__}", receiver=a, defaults=b)
        return None
    if (res is A or res is B) and not any(s.startswith("not-new") for s in seen):
        v.bad(f"not-new:{via}/result-is-{'receiver' if res is A else 'defaults'}", f"{via} returned an operand", receiver=a, defaults=b)
    rv = M.view(res)
    fa, fb = M.full(a), M.full(b)
    for q in M.QUANT:
        v.count("with_defaults_quantities_compared")
        if fa[q] is not None:
            if rv[q] != fa[q]:
                v.bad(f"{via}:set-quantity-not-kept/{q}", f"{via}: receiver {q}={fa[q]!r} became {rv[q]!r}", receiver=a, defaults=b, result=rv)
        elif reason is None and rv[q] != fb[q]:
            kind = "not-filled" if rv[q] is None else "filled-with-other-value"
            v.bad(f"{via}:unset-quantity-{kind}/{q}", f"{via}: receiver has no {q}, defaults {fb[q]!r}, result {rv[q]!r}",
                  receiver=a, defaults=b, result=rv)
    for k, val in fa["extra_args"].items():
        if k not in rv["extra_args"] or rv["extra_args"][k] != val:
            v.bad(f"{via}:set-quantity-not-kept/extra_args", f"{via}: receiver extra_args[{k!r}] not kept", receiver=a, defaults=b, result=rv)
    if rv["parallelization_mode"] not in (fa["parallelization_mode"], fb["parallelization_mode"]) or \
            (fa["parallelization_mode"] != "external" and rv["parallelization_mode"] != fa["parallelization_mode"]):
        v.bad(f"{via}:set-quantity-not-kept/parallelization_mode", f"{via}: parallelization_mode {rv['parallelization_mode']!r}",
              receiver=a, defaults=b, result=rv)
    if M.invalid_reason({q: rv[q] for q in M.QUANT}) in ("cpus+nodes", "cpus_per_node-without-nodes"):
        v.bad(f"accepted-invalid:{via}/{M.invalid_reason({q: rv[q] for q in M.QUANT})}", f"{via} produced an exclusive combination",
              receiver=a, defaults=b, result=rv)
    if keys is not None:
        keys.append("wd:" + M.key_of([a, b]))
    return rv


def check_single(v, spec, keys):
    """Round trip + to_slurm_options on one valid value."""
    R = res_cls()
    r = build(v, spec, "single")
    if r is None:
        return None
    seen = set()
    try:
        d = r.dict()
        d_copy = copy.deepcopy(d)
        rt = R.from_dict(d)
        v.count("roundtrips")
        if not (rt == r):
            v.bad("roundtrip:from_dict(dict())-not-equal", f"from_dict(r.dict()) != r: {M.view(rt)}", spec=spec, dict=d_copy)
        elif M.diff(M.view(r), M.view(rt)):
            v.count("diag_roundtrip_equal_but_fields_differ")
        if d != d_copy:
            v.bad("side-effect:from_dict/argument-changed", "from_dict changed the dictionary it was given", spec=spec)
        if isinstance(d.get("extra_args"), dict) and d["extra_args"] is getattr(r, "extra_args", None):
            v.count("diag_dict_aliases_extra_args")
    except Exception as e:  # noqa: BLE001
        v.bad(exc_sig(e, "exc") + "/roundtrip", f"from_dict(r.dict()) raised: {exc_msg(e)}", spec=spec)
    unchanged(v, "dict", "receiver", r, spec, seen)
    opts = None
    try:
        opts = r.to_slurm_options()
        v.count("slurm_checks")
        missing = M.slurm_missing(spec, opts)
        v.count("slurm_quantities_checked", sum(1 for q in M.QUANT if M.full(spec)[q] is not None) + len(spec.get("extra_args", {})))
        for q in missing:
            qq = q.split("[")[0]
            v.bad(f"to_slurm_options:missing/{qq}", f"to_slurm_options() = {opts!r} does not mention {q}", spec=spec)
    except Exception as e:  # noqa: BLE001
        v.bad(exc_sig(e, "exc") + "/to_slurm_options", f"to_slurm_options raised: {exc_msg(e)}", spec=spec)
    unchanged(v, "to_slurm_options", "receiver", r, spec, seen)
    keys.append("s:" + M.key_of(spec))
    return opts


# ---------------------------------------------------------------------------------------------------------
# case kinds
# ---------------------------------------------------------------------------------------------------------
def run_single(v, desc, keys):
    grid = M.single_grid()
    part = grid[desc["part"]::desc["nparts"]]
    sample = None
    for i, spec in enumerate(part):
        opts = check_single(v, spec, keys)
        if i == 0 and desc["part"] % 16 == 0:
            sample = {"kind": "single", "spec": spec, "to_slurm_options": opts, "grid_size": len(grid)}
    # ... and random specifications (extra arguments of every generated spelling, incl. names of built-in flags)
    rng = random.Random(f"c20-single-{desc.get('seed', 0)}-{desc['part']}")
    for _ in range(40):
        check_single(v, M.gen_spec(rng), keys)
        v.count("random_single_specs")
    v.classes.add("single")
    return sample


def run_pairs(v, desc, keys):
    core = M.core_specs(desc["seed"], desc["ncore"])
    sample = None
    for i in range(desc["lo"], desc["hi"]):
        for j in range(len(core)):
            a, b = copy.deepcopy(core[i]), copy.deepcopy(core[j])
            cm = do_combine_max(v, [a, b], "pairs", keys)
            wd = do_with_defaults(v, a, b, "pairs", "with_defaults", keys)
            if (i + j) % 3 == 0:
                do_with_defaults(v, a, b, "pairs", "maybe_with_defaults")
            elif (i + j) % 11 == 1:
                do_with_defaults(v, a, b, "pairs", "delayed")
            v.count("pairs")
            if sample is None and i % 50 == 0 and j == 7:
                sample = {"kind": "pair", "a": a, "b": b, "combine_max": cm, "a.with_defaults(b)": wd}
    v.classes.add("pairs")
    return sample


def run_lists(v, desc, keys):
    rng = random.Random(f"c20-lists-{desc['seed']}-{desc['batch']}")
    core = M.core_specs(desc["seed"], 200)
    sample = None
    for n in range(desc["n"]):
        k = rng.choice([1, 2, 3, 3, 4, 4])
        specs = [copy.deepcopy(rng.choice(core)) if rng.random() < 0.3 else M.gen_spec(rng) for _ in range(k)]
        alias = False
        if k >= 2 and rng.random() < 0.1:
            specs[-1] = copy.deepcopy(specs[0])
            alias = True
        rv = do_combine_max(v, specs, "lists", keys, alias=alias)
        v.classes.add(f"list_len{k}")
        if n == 0 and desc["batch"] % 16 == 0:
            sample = {"kind": "list", "operands": specs, "combine_max": rv}
    # None operands of the defaults combinators (outside the quantifier: only 'nothing changes' is demanded)
    R = res_cls()
    for _ in range(20):
        s = M.gen_spec(rng)
        r = build(v, s, "lists")
        if r is None:
            continue
        seen = set()
        try:
            for res in (r.with_defaults(None), R.maybe_with_defaults(r, None), R.maybe_with_defaults(None, r)):
                v.count("ops_defaults_with_none")
                if not isinstance(res, R) or M.diff(M.full(s), M.view(res)):
                    v.bad("with_defaults:none-operand-result-differs", "combining with None changed the specification", spec=s)
        except M.SideEffectBreach:
            breach(v, "with_defaults", seen, spec=s)
        except Exception as e:  # noqa: BLE001
            v.bad(exc_sig(e, "exc") + "/with_defaults-none", f"with_defaults(None) raised: {exc_msg(e)}", spec=s)
        unchanged(v, "with_defaults", "receiver", r, s, seen)
    return sample


def gen_update_kwargs(rng, spec):
    """Keyword arguments for update(): field keys (valid values), non-field keys, extra_args dicts."""
    kw = {}
    kinds = set()
    for _ in range(rng.choice([1, 1, 2, 3])):
        c = rng.random()
        if c < 0.40:
            kw[rng.choice(M.NONFIELD_KEYS)] = rng.choice([1, 2, "v", "hi", [1, 2], {"k": "v"}])
            kinds.add("nonfield")
        elif c < 0.55:
            kw["extra_args"] = M.gen_extra(rng)
            kinds.add("extra_args")
        else:
            q = rng.choice(["cpus", "gpus", "memory", "time", "partition", "nodes", "cpus_per_node", "parallelization_mode"])
            kw[q] = {"cpus": rng.randint(1, 16), "gpus": rng.randint(0, 4), "memory": M.gen_memory(rng), "time": M.gen_time(rng),
                     "partition": rng.choice(M.PARTITIONS), "nodes": rng.randint(1, 8), "cpus_per_node": rng.randint(1, 8),
                     "parallelization_mode": rng.choice(["internal", "external"])}[q]
            kinds.add("field")
    return kw, kinds


def model_update(spec, kw):
    """Docstring model of update (used for validity of the outcome and as a diagnostic only)."""
    out = M.full(spec)
    for k, val in kw.items():
        if k == "extra_args":
            out["extra_args"] = {**out["extra_args"], **copy.deepcopy(val)}
        elif k in M.FIELDS:
            out[k] = copy.deepcopy(val)
        else:
            out["extra_args"][k] = copy.deepcopy(val)
    return out


def run_update(v, desc, keys):
    R = res_cls()
    rng = random.Random(f"c20-update-{desc['seed']}-{desc['batch']}")
    sample = None
    for n in range(desc["n"]):
        spec = M.gen_spec(rng)
        kw, kinds = gen_update_kwargs(rng, spec)
        r = build(v, spec, "update")
        if r is None:
            continue
        kw_live = copy.deepcopy(kw)
        expect = model_update(spec, kw)
        reason = M.invalid_reason({q: expect[q] for q in M.QUANT})
        seen = set()
        res, raised = None, None
        try:
            res = r.update(**kw_live)
        except M.SideEffectBreach:
            trig = "nonfield-keyword" if "nonfield" in kinds else "no-nonfield-keyword"
            breach(v, "update", seen, spec=spec, kwargs=kw, receiver_after=M.view(r), trigger=trig)
            raised = "breach"
        except ValueError as e:
            raised = e
        except Exception as e:  # noqa: BLE001
            v.bad(exc_sig(e, "exc") + "/update", f"update raised: {exc_msg(e)}", spec=spec, kwargs=kw)
            raised = "other"
        v.count("ops_update")
        for kd in kinds:
            v.count(f"update_{kd}_key")
        unchanged(v, "update", "receiver", r, spec, seen)
        if kw_live != kw and "side-effect:update/kwargs.value-changed" not in seen:
            v.bad("side-effect:update/kwargs.value-changed", "update changed a keyword argument value", spec=spec, kwargs=kw)
        if isinstance(raised, ValueError):
            if reason is None:
                v.bad(exc_sig(raised, "exc") + "/update/outcome-valid", f"update raised although the updated spec is valid: {exc_msg(raised)}",
                      spec=spec, kwargs=kw)
            else:
                v.count("update_invalid_outcome_valueerror")
        elif raised is None:
            if not isinstance(res, R):
                v.bad("update:result-not-Resources", f"update returned {type(res).__name__}", spec=spec, kwargs=kw)
            else:
                if res is r and not any(s.startswith("not-new") for s in seen):
                    v.bad("not-new:update/result-is-receiver", "update returned its receiver", spec=spec, kwargs=kw)
                rv = M.view(res)
                got_reason = M.invalid_reason({q: rv[q] for q in M.QUANT})
                if got_reason in ("cpus+nodes", "cpus_per_node-without-nodes"):
                    v.bad(f"accepted-invalid:update/{got_reason}", "update produced an exclusive field combination", spec=spec, kwargs=kw, result=rv)
                if M.diff(expect, rv):
                    v.count("diag_update_result_differs_from_docstring_model")
                if rv["extra_args"] and res.extra_args is r.extra_args:
                    v.count("diag_update_result_shares_extra_args_dict")
                # whatever the result holds (unknown keywords have become extra arguments - also ones spelled like a
                # built-in flag): its options mention every quantity that IS set on it
                try:
                    o2 = res.to_slurm_options()
                    v.count("slurm_checks_on_update_results")
                    for q in M.slurm_missing({k: rv[k] for k in M.FIELDS if k in rv and rv[k] is not None}, o2):
                        v.bad(f"to_slurm_options:missing/{q.split('[')[0]}/after-update", f"to_slurm_options() of the result of update = {o2!r} does not mention {q}",
                              spec=spec, kwargs=kw, result=rv)
                except Exception as e:  # noqa: BLE001
                    v.bad(exc_sig(e, "exc") + "/to_slurm_options/after-update", f"to_slurm_options raised: {exc_msg(e)}", spec=spec, kwargs=kw)
        keys.append("u:" + M.key_of([spec, kw]))
        if n == 0 and desc["batch"] % 16 == 0:
            sample = {"kind": "update", "spec": spec, "kwargs": kw, "receiver_after": M.view(r),
                      "result": M.view(res) if isinstance(res, R) else repr(raised)}
    v.classes.add("update")
    return sample


def expect_rejected(v, kwargs, sig, what):
    R = res_cls()
    for ctor, call in (("Resources", lambda: R(**copy.deepcopy(kwargs))), ("from_dict", lambda: R.from_dict(copy.deepcopy(kwargs)))):
        try:
            call()
        except Exception:  # noqa: BLE001   "rejected" = any exception
            v.count(f"rejected_{what}")
            continue
        v.bad(f"{sig}@{ctor}", f"{ctor}({kwargs}) was accepted", kwargs=kwargs)


def run_invalid_grid(v, desc, keys):
    """Exhaustive combination grid cpus x nodes x cpus_per_node x gpus (x a decoration)."""
    n = 0
    for cpus in (None, 1, 3, 16):
        for nodes in (None, 1, 2, 8):
            for cpn in (None, 1, 4):
                for gpus in (None, 0, 2):
                    for deco in ({}, {"memory": "2GB", "time": "1:00:00"}, {"partition": "gpu", "extra_args": {"qos": 1}}):
                        spec = {k: val for k, val in (("cpus", cpus), ("nodes", nodes), ("cpus_per_node", cpn), ("gpus", gpus)) if val is not None}
                        spec.update(copy.deepcopy(deco))
                        reason = M.invalid_reason(spec)
                        n += 1
                        if reason is None:
                            r = build(v, spec, "invalid_grid")
                            v.count("grid_valid_accepted", r is not None)
                            if r is not None and M.diff(M.full(spec), M.view(r)):
                                v.bad("construction:fields-differ-from-arguments", "constructed object differs from its arguments", spec=spec, got=M.view(r))
                        else:
                            expect_rejected(v, spec, f"accepted-invalid:{reason}", "invalid_combination")
                        keys.append("g:" + M.key_of(spec))
    v.classes.add("invalid_grid")
    return {"kind": "invalid_grid", "combinations": n}


def run_malformed(v, desc, keys):
    rng = random.Random(f"c20-malformed-{desc['seed']}-{desc['batch']}")
    tg, mg = M.time_grid(), M.memory_grid()
    sample = []
    for n in range(desc["n"]):
        if n % 2 == 0:
            base = rng.choice(mg) if rng.random() < 0.5 else M.gen_memory(rng)
            name, fn = M.MEMORY_MUTATORS[(n // 2 + desc["batch"]) % len(M.MEMORY_MUTATORS)]
            mut = fn(base, rng)
            if mut == base or not M.certainly_malformed_memory(mut):
                v.count("mutants_still_readable_skipped")
                continue
            kw = {"memory": mut}
            if rng.random() < 0.5:
                kw["cpus"] = rng.randint(1, 8)
            expect_rejected(v, kw, f"accepted-malformed:memory/{name}", "malformed_memory")
            v.classes.add(f"mem-mut:{name}")
        else:
            base = rng.choice(tg) if rng.random() < 0.5 else M.gen_time(rng)
            name, fn = M.TIME_MUTATORS[(n // 2 + desc["batch"]) % len(M.TIME_MUTATORS)]
            mut = fn(base, rng)
            if mut == base or not M.certainly_malformed_time(mut):
                v.count("mutants_still_readable_skipped")
                continue
            kw = {"time": mut}
            if rng.random() < 0.5:
                kw["memory"] = rng.choice(mg)
            expect_rejected(v, kw, f"accepted-malformed:time/{name}", "malformed_time")
            v.classes.add(f"time-mut:{name}")
        keys.append("m:" + M.key_of(kw))
        if len(sample) < 4:
            sample.append({"valid": base, "operator": name, "mutant": mut})
    return {"kind": "malformed", "examples": sample} if desc["batch"] % 8 == 0 else None


def run_nested(v, desc, keys):
    from pipefunc import NestedPipeFunc, PipeFunc

    R = res_cls()
    rng = random.Random(f"c20-nested-{desc['seed']}-{desc['batch']}")
    sample = None
    for n in range(desc["n"]):
        k = rng.choice([2, 2, 3, 3, 4])
        specs, funcs, objs = [], [], []
        for i in range(k):
            spec = None if rng.random() < 0.15 else M.gen_spec(rng)
            fn = eval(f"lambda a{i}: a{i}")  # noqa: S307  tiny chain a0 -> a1 -> ...
            fn.__name__ = f"f{i}"
            if spec is None:
                arg = None
            elif rng.random() < 0.3:
                arg = copy.deepcopy(spec)  # dict form
            else:
                arg = build(v, spec, "nested")
            try:
                funcs.append(PipeFunc(fn, output_name=f"a{i + 1}", resources=arg))
            except Exception as e:  # noqa: BLE001
                v.bad(exc_sig(e, "exc") + "/PipeFunc", f"PipeFunc(resources=...) raised: {exc_msg(e)}", spec=spec)
                funcs = None
                break
            specs.append(spec)
            objs.append(funcs[-1].resources)
        if not funcs:
            continue
        set_specs = [s for s in specs if s is not None]
        seen = set()
        before = dict(M.EVALS)
        v.count("nested_attempted")
        try:
            nested = NestedPipeFunc(funcs)
            res = nested.resources
        except M.SideEffectBreach:
            breach(v, "combine_max", seen, children=specs, via="NestedPipeFunc")
            continue
        except Exception as e:  # noqa: BLE001
            v.bad(exc_sig(e, "exc") + "/NestedPipeFunc", f"NestedPipeFunc raised: {exc_msg(e)}", children=specs)
            continue
        v.count("nested_built")
        v.count("nested_contract_evaluations", M.EVALS["post:combine_max"] - before.get("post:combine_max", 0))
        for o, s in zip(objs, specs):
            if s is not None:
                unchanged(v, "NestedPipeFunc", "child", o, s, seen)
        if not set_specs:
            if res is not None and any(getattr(res, q) is not None for q in M.QUANT):
                v.bad("nested:resources-without-children-resources", f"NestedPipeFunc.resources={res!r} though no child has any", children=specs)
        elif not isinstance(res, R):
            v.bad("nested:resources-missing", f"NestedPipeFunc.resources={res!r}", children=specs)
        else:
            check_exact_max(v, set_specs, M.view(res))
        if digit_counts_differ(set_specs):
            v.count("nested_time_digit_count_differs")
        v.classes.add(f"nested_children{k}")
        if len(set_specs) >= 2:
            keys.append("n:" + M.key_of(specs))
        if n == 0 and desc["batch"] % 16 == 0:
            sample = {"kind": "nested", "children": specs, "nested.resources": M.view(res) if isinstance(res, R) else repr(res)}
    return sample


KINDS = {"single": run_single, "pairs": run_pairs, "lists": run_lists, "update": run_update,
         "invalid_grid": run_invalid_grid, "malformed": run_malformed, "nested": run_nested}


def run_case(desc):
    v = VV()
    keys = []
    before = dict(M.EVALS)
    attached = M.attach()
    try:
        v.count("contract_methods_attached", len(attached))
        sample = KINDS[desc["kind"]](v, desc, keys)
    finally:
        M.detach()
    for k, n in M.EVALS.items():
        d = n - before.get(k, 0)
        if d:
            v.count("contract_" + k.replace(":", "_"), d)
    R = res_cls()
    if any(hasattr(getattr(R, m), "__postconditions__") for m in M.METHODS if hasattr(R, m)):
        raise RuntimeError("contracts still attached after detach()")
    return v.result(keys=keys, sample=sample)


def finalize(agg, tier, seed):
    floors = []
    c = agg.counters
    quick = tier == "quick"

    def need(name, n):
        if c.get(name, 0) < n:
            floors.append(f"{name}={c.get(name, 0)} (< {n})")

    need("lists_time_digit_count_differs", 1000)
    need("update_nonfield_key", 1000)
    need("roundtrips", 20000)
    need("slurm_checks", 20000)
    need("pairs", 40000 if quick else 640000)
    need("ops_combine_max", 50000)
    need("ops_with_defaults", 40000)
    need("ops_maybe_with_defaults", 10000)
    need("ops_delayed", 1000)
    need("ops_update", 10000)
    need("rejected_invalid_combination", 200)
    need("rejected_malformed_memory", 1000)
    need("rejected_malformed_time", 1000)
    need("nested_attempted", 500)
    need("nested_contract_evaluations", 100)
    need("with_defaults_exclusive_valueerror", 500)
    for m in ("update", "with_defaults", "combine_max", "maybe_with_defaults"):
        # zero evaluations = the contract never ran = inconclusive; and every call must have been under contract
        snaps, posts, breaches = c.get(f"contract_snapshot_{m}", 0), c.get(f"contract_post_{m}", 0), c.get(f"contract_breaches_{m}", 0)
        if snaps == 0 or posts == 0:
            floors.append(f"icontract contract on Resources.{m} was never evaluated (snapshots={snaps}, postconditions={posts})")
    direct = {"update": c.get("ops_update", 0), "combine_max": c.get("ops_combine_max", 0),
              "maybe_with_defaults": c.get("ops_maybe_with_defaults", 0) + c.get("ops_delayed", 0),
              "with_defaults": c.get("ops_with_defaults", 0)}
    for m, n in direct.items():
        if c.get(f"contract_snapshot_{m}", 0) < n:
            floors.append(f"only {c.get(f'contract_snapshot_{m}', 0)} contract snapshots for {n} harness calls of {m}")
    for k in ("list_len1", "list_len2", "list_len3", "list_len4"):
        if agg.classes.get(k, 0) < 5:
            floors.append(f"class {k} hit by only {agg.classes.get(k, 0)} batches")
    nm = sum(1 for k in agg.classes if k.startswith("mem-mut:"))
    nt = sum(1 for k in agg.classes if k.startswith("time-mut:"))
    if nm < 10 or nt < 10:
        floors.append(f"only {nm} memory / {nt} time mutation operators produced a certainly-malformed string (< 10)")
    if len(agg.keys) < (50000 if quick else 300000):
        floors.append(f"only {len(agg.keys)} distinct cases")
    extra = {"contract_evaluations": {k: n for k, n in sorted(c.items()) if k.startswith("contract_")},
             "diagnostics_not_verdicts": {k: n for k, n in sorted(c.items()) if k.startswith("diag_")}}
    return floors, extra
