"""C11 - Selecting outputs / supplying intermediates keeps values, runs only needed work (DESIGN 4/C11)."""
from __future__ import annotations

import itertools
import os
import random

from vlib import daggen, mapgen, probes
from vlib.util import V, exc_msg, exc_sig, multiset_diff, quiet, tmpdir

PROPERTY = "C11"
LEVEL = "exploration"
DEADLINE = 300
RULE = ("cases = call-DAGs (vlib.daggen: nullary functions, default-only and bound-only functions, tuple outputs) and MapSpec "
        "pipelines (vlib.mapgen) from VERIF_SEED; for every non-empty set S of outputs (all subsets for <= 4 outputs, sampled "
        "beyond) and every exact cut I (chosen intermediates + precisely the roots still needed; root-only, interior-only, "
        "mixed): subpipeline(I, S) then call, map(inputs, output_names=S) and map(inputs + intermediates, auto_subpipeline=True) "
        "must succeed, return the full pipeline's values with the substitution, and log exactly the needed functions; requests "
        "missing a needed root without default must raise naming a missing name; non-trivial = needed set has >= 2 functions or "
        "a cut removes a function; distinct = (case signature, S, I)")
ASSUMPTIONS = ["every function that takes a defaulted root argument declares that default itself (a subpipeline cannot know a default that only a dropped sibling function declares)",
               "needed set / computability computed by the harness (backward closure from S stopping at I; a tuple-output function is "
               "cut only if all its needed outputs are supplied)", "surplus inputs are never generated here (C12's business)"]
BATCH = 10


def plan(tier, seed):
    n = 1000 if tier == "quick" else 6000
    descs = [{"kind": "dag", "seed": seed, "start": s, "n": BATCH} for s in range(0, n, BATCH)]
    descs += [{"kind": "map", "seed": seed, "start": s, "n": BATCH} for s in range(0, n // 2, BATCH)]
    return descs


# --------------------------------------------------------------------------------- call-DAG part
def exact_cuts(case, S, rng, maxcuts=4):
    """Yield (label, I) with I = dict name -> value: exact cuts for the output set S."""
    inter = []
    for o in S:
        for n in daggen.interior_names(case, o):
            if n not in inter and n not in S:
                inter.append(n)
    cuts = [()]
    for _ in range(maxcuts):
        if inter:
            cuts.append(tuple(sorted(rng.sample(inter, rng.randint(1, min(2, len(inter)))))))
    seen = set()
    for cut in cuts:
        # tuple-output producers: supply all needed outputs of a cut producer, or none
        cut = set(cut)
        for c in list(cut):
            pr = daggen.producer(case, c)
            sib = [o for o in pr["outs"] if o != c]
            for s in sib:
                if s in S:
                    cut.discard(c)
                elif s in inter:
                    cut.add(s)
        # keep only members that are really consumed once the rest of the cut is applied
        need_f = daggen.needed_funcs(case, S, cut)
        byn = {f["name"]: f for f in case["funcs"]}
        consumed = {p for n in need_f for p in byn[n]["params"] if p not in byn[n]["bound"]}
        cut = {c for c in cut if c in consumed}
        # siblings again (a dropped member may leave its sibling alone: drop the pair)
        ok = True
        for c in cut:
            pr = daggen.producer(case, c)
            for s in pr["outs"]:
                if s != c and s in consumed and s not in cut:
                    ok = False
        if not ok:
            continue
        roots = set()
        for o in S:
            roots |= daggen.needed_roots(case, o, cut)
        key = (tuple(sorted(cut)), tuple(sorted(roots)))
        if key in seen:
            continue
        seen.add(key)
        I = {r: f"v_{r}" for r in roots if not (r in case["defaults"] and rng.random() < 0.4)}
        I.update({c: f"s_{c}" for c in cut})
        label = "root-only" if not cut else ("interior-only" if not [r for r in roots if r in I] else "mixed")
        yield label, I, cut
    # ONE member of a tuple output is supplied while its sibling is still needed: the producer runs (for the sibling), the
    # supplied member must nevertheless be the value its consumers see
    byn = {f["name"]: f for f in case["funcs"]}
    for f in case["funcs"]:
        if len(f["outs"]) < 2 or f["name"] not in daggen.needed_funcs(case, S):
            continue
        for c in f["outs"]:
            sibs = [o for o in f["outs"] if o != c]
            if c in S:
                continue
            cut = {c}
            need_f = daggen.needed_funcs(case, S, cut)
            consumed = {p for n in need_f for p in byn[n]["params"] if p not in byn[n]["bound"]}
            # (the sibling is needed by a consumer, not requested itself: subpipeline() treats a producer one of whose outputs is
            # supplied as an input node and cannot also deliver its other output as a requested one)
            if f["name"] not in need_f or c not in consumed or not any(s_ in consumed for s_ in sibs) or any(s_ in S for s_ in sibs):
                continue
            roots = set()
            for o in S:
                roots |= daggen.needed_roots(case, o, cut)
            key = (tuple(sorted(cut)), tuple(sorted(roots)))
            if key in seen:
                continue
            seen.add(key)
            I = {r: f"v_{r}" for r in roots if not (r in case["defaults"] and rng.random() < 0.4)}
            I[c] = f"s_{c}"
            yield "member-of-tuple", I, cut


def run_dag_case(v, case, rng, scratch, keys):
    outs = daggen.all_outputs(case)
    log = probes.new_log(scratch)
    try:
        with quiet():
            pipeline = daggen.build_pipeline(case, log=log, explicit_defaults=bool(rng.random() < 0.5))
    except Exception as e:  # noqa: BLE001
        v.bad(exc_sig(e, "refused-construct"), f"valid DAG refused: {exc_msg(e)}", case=daggen.describe(case))
        return
    v.hit(daggen.classes(case))
    # every third case: a copy whose OUTPUTS live in a scope of their own (the inputs do not) - a supplied intermediate is then
    # spelled as a nested dict {"calc": {name: value}} for a scope that holds no root argument
    scoped_p = None
    if rng.random() < 0.34:
        try:
            with quiet():
                scoped_p = pipeline.copy()
                scoped_p.update_scope("calc", inputs=None, outputs="*")
        except Exception:  # noqa: BLE001  (rewrites are C10's subject)
            scoped_p = None
    subsets = [c for r in range(1, len(outs) + 1) for c in itertools.combinations(outs, r)]
    if len(outs) > 4:
        subsets = [tuple(sorted(rng.sample(outs, rng.randint(1, min(3, len(outs)))))) for _ in range(10)]
    byn = {f["name"]: f for f in case["funcs"]}
    for S in subsets:
        for label, I, cut in exact_cuts(case, list(S), rng):
            need = daggen.needed_funcs(case, list(S), cut)
            try:
                ref = {o: daggen.ref_eval(case, o, {k: x for k, x in I.items()}) for o in S}
            except daggen.Missing:
                continue
            w = dict(case=daggen.describe(case), S=list(S), I=I)
            special = any((not byn[n]["params"]) or all(p in byn[n]["bound"] or p in case["defaults"] for p in byn[n]["params"]) for n in need)
            v.count("pairs")
            v.count(f"pairs:{label}")
            if special:
                v.count("pairs_with_nullary_or_default_only_needed")
            nt = len(need) >= 2 or bool(cut)
            if nt:
                keys.append(f"{daggen.signature(case)}|{S}|{sorted(I)}")
            # (a) subpipeline then call
            try:
                with quiet():
                    sub = pipeline.subpipeline(inputs=set(I), output_names=set(S))
            except Exception as e:  # noqa: BLE001
                sub = None
                v.bad(exc_sig(e, f"subpipeline-refused/{label}" + ("/input-independent-function" if special else "")),
                      f"subpipeline(inputs={sorted(I)}, output_names={list(S)}) refused a computable request: {exc_msg(e)}", **w)
            if sub is not None:
                for o in S:
                    # keywords the evaluation of o uses (an exact cut for S may be surplus for a single o)
                    Ko = {k: x for k, x in I.items() if k in ref[o]["used"]}
                    probes.log_clear(log)
                    try:
                        with quiet():
                            got = sub(o, **Ko)
                    except Exception as e:  # noqa: BLE001
                        v.bad(exc_sig(e, f"subpipeline-call/{label}"), f"subpipeline call for {o} raised {exc_msg(e)}", **w)
                        continue
                    v.count("values_compared")
                    r1 = daggen.ref_eval(case, o, Ko)
                    if got != r1["value"]:
                        v.bad(f"value/subpipeline/{label}", f"{o}: got {got!r:.200} expected {r1['value']!r:.200}", **w)
                    calls = [c["f"] for c in probes.log_read(log)]
                    extra, miss = multiset_diff(calls, r1["calls"])
                    if extra or miss:
                        v.bad(f"calls/subpipeline/{label}", f"{o}: extra={extra} missing={miss}", **w)
                fn = {f.__name__ for f in sub.functions}
                if fn != set(need):
                    v.count("diag_subpipeline_keeps_other_functions")  # diagnostic: only *invocations* are demanded (call log)
                # the sub-pipeline is an object of its own: changing ITS defaults / bound values afterwards must not reach the
                # pipeline it was cut from (every later request of this case is answered by that original object)
                try:
                    with quiet():
                        for r_ in case["defaults"]:
                            if r_ in sub.defaults:
                                sub.update_defaults({r_: "SUBPIPELINE-DEFAULT"})
                        for f_ in sub.functions:
                            if f_._bound:
                                f_.update_bound({next(iter(f_._bound)): "SUBPIPELINE-BOUND"})
                    v.count("subpipelines_mutated_afterwards")
                except Exception:  # noqa: BLE001
                    pass
            if scoped_p is not None and cut and label != "member-of-tuple":
                def nest(K):
                    d = {k: x for k, x in K.items() if k in case["roots"]}
                    inner = {k: x for k, x in K.items() if k not in case["roots"]}
                    if inner:
                        d["calc"] = inner
                    return d
                v.count("cuts_spelled_as_nested_scope_dict")
                for o in S:
                    Ko = {k: x for k, x in I.items() if k in ref[o]["used"]}
                    if not any(k not in case["roots"] for k in Ko):
                        continue
                    try:
                        with quiet():
                            got = scoped_p(f"calc.{o}", **nest(Ko))
                        if got != daggen.ref_eval(case, o, Ko)["value"]:
                            v.bad(f"value/nested-scope-dict/call/{label}", f"calc.{o}: got {got!r:.200}", **w)
                    except Exception as e:  # noqa: BLE001
                        v.bad(exc_sig(e, f"nested-scope-dict-call-refused/{label}"), f"call of calc.{o} with the supplied intermediate spelled "
                              f"{{'calc': {{...}}}} raised {exc_msg(e)}", **w)
                for how in ["output_names", "auto_subpipeline"]:
                    kw = {"output_names": {f"calc.{o}" for o in S}}
                    if how == "auto_subpipeline":
                        kw["auto_subpipeline"] = True
                    try:
                        with quiet():
                            res = scoped_p.map(nest(I), parallel=False, storage="dict", **kw)
                        for o in S:
                            if f"calc.{o}" not in res or res[f"calc.{o}"].output != ref[o]["value"]:
                                v.bad(f"value/nested-scope-dict/map-{how}/{label}", f"calc.{o} differs from the reference", **w)
                    except Exception as e:  # noqa: BLE001
                        v.bad(exc_sig(e, f"nested-scope-dict-map-{how}-refused/{label}"), f"map with the supplied intermediate spelled {{'calc': {{...}}}} "
                              f"raised {exc_msg(e)}", **w)
            # (b)/(c) map with output_names / auto_subpipeline
            for how in ["output_names", "auto_subpipeline"]:
                if label == "member-of-tuple":
                    # map stores one array per output name: a supplied member whose producer still runs (for the sibling) would
                    # have two values - map refuses such inputs by design; this cut is judged through subpipeline()/calls only
                    continue
                probes.log_clear(log)
                kw = {"output_names": set(S)}
                if how == "auto_subpipeline":
                    kw["auto_subpipeline"] = True
                try:
                    with quiet():
                        res = pipeline.map(dict(I), parallel=False, storage="dict", **kw)
                except Exception as e:  # noqa: BLE001
                    v.bad(exc_sig(e, f"map-{how}-refused/{label}" + ("/input-independent-function" if special else "")),
                          f"map(inputs={sorted(I)}, {how}, output_names={list(S)}) refused a computable request: {exc_msg(e)}", **w)
                    continue
                v.count(f"maps:{how}")
                # expected: evaluation of all of S under I, each needed function once
                memo = {}
                for o in S:
                    memo.update(daggen.ref_eval(case, o, I)["memo"])
                    memo[o] = ref[o]["value"]
                for o in S:
                    v.count("values_compared")
                    if o not in res or res[o].output != ref[o]["value"]:
                        v.bad(f"value/map-{how}/{label}", f"{o}: got {res[o].output if o in res else None!r:.200} expected {ref[o]['value']!r:.200}", **w)
                calls = [c["f"] for c in probes.log_read(log)]
                extra, miss = multiset_diff(calls, need)
                if extra or miss:
                    v.bad(f"calls/map-{how}/{label}", f"extra={extra} missing={miss}", **w)
            # rejection: drop a needed root that has no default
            hard = [r for r in I if r in case["roots"] and r not in case["defaults"]]
            if hard:
                r0 = rng.choice(hard)
                J = {k: x for k, x in I.items() if k != r0}
                probes.log_clear(log)
                err = None
                try:
                    with quiet():
                        pipeline.map(dict(J), parallel=False, storage="dict", output_names=set(S), auto_subpipeline=bool(cut))
                except Exception as e:  # noqa: BLE001
                    err = e
                v.count("rejections")
                if err is None:
                    v.bad(f"accepted-uncomputable/{label}", f"request without needed root {r0} was accepted", **w)
                else:
                    missing_names = set(case["roots"]) | set(daggen.all_outputs(case))
                    if not any(nm in str(err) for nm in missing_names if nm not in J):
                        v.bad(f"rejection-names-nothing/{label}", f"error does not name what is missing ({r0}): {exc_msg(err)}", **w)


# --------------------------------------------------------------------------------- MapSpec part
def run_map_case(v, case, rng, scratch, keys):
    env, exp_calls = mapgen.oracle(case)
    inputs = mapgen.make_inputs(case)
    ish = mapgen.internal_shapes_arg(case)
    log = probes.new_log(scratch)
    try:
        with quiet():
            pipeline = mapgen.build_pipeline(case, log=log)
            r = pipeline.map(inputs, run_folder=os.path.join(scratch, "base"), internal_shapes=ish, parallel=False, storage="dict")
        if any(probes.render(r[o].output) != probes.render(env[o]) for f in case["funcs"] for o in f["outs"]):
            raise ValueError
    except Exception:  # noqa: BLE001
        v.count("skipped_baseline_refused")
        return
    prod = {o: f for f in case["funcs"] for o in f["outs"]}
    outs = list(prod)
    subsets = [c for r in range(1, len(outs) + 1) for c in itertools.combinations(outs, r)]
    if len(subsets) > 12:
        subsets = rng.sample(subsets, 12)

    def needed(S, cut):
        seen = []

        def walk(n):
            if n in cut or n not in prod:
                return
            f = prod[n]
            if f["name"] in seen:
                return
            seen.append(f["name"])
            for p in f["params"]:
                walk(p)
        for o in S:
            walk(o)
        return seen

    for S in subsets:
        for cutmode in ("root-only", "interior"):
            cut = set()
            if cutmode == "interior":
                inter = [n for n in outs if n not in S and any(n in prod[o]["params"] for o in outs)]
                inter = [n for n in inter if any(prod[o]["name"] in needed(S, set()) and n in prod[o]["params"] for o in outs)]
                if not inter:
                    continue
                c = rng.choice(inter)
                cut = set(prod[c]["outs"]) - set(S)
                if len(cut) != len(prod[c]["outs"]):
                    continue
                consumed = {p for n in needed(S, cut) for f in case["funcs"] if f["name"] == n for p in f["params"]}
                cut = {c for c in cut if c in consumed}
                if not cut or any(s in consumed and s not in cut for c in cut for s in prod[c]["outs"]):
                    continue
            need = needed(S, cut)
            roots = {p for n in need for f in case["funcs"] if f["name"] == n for p in f["params"] if p in case["roots"]}
            I = {k: inputs[k] for k in roots}
            for c in cut:
                val = env[c]
                I[c] = val
            w = dict(case=mapgen.describe(case), S=list(S), I=sorted(I))
            # internal_shapes only for functions that remain
            ishapes = {k: x for k, x in (ish or {}).items() if prod[k]["name"] in need} or None
            v.count("pairs")
            v.count(f"pairs:map-{cutmode}")
            if len(need) >= 2 or cut:
                keys.append(f"{mapgen.signature(case)}|{S}|{sorted(I)}")
            if cut:
                # the same request, with OTHER values for the supplied intermediates, aimed at the folder that holds the complete
                # run (cleanup=False): it may be refused, but it must never be answered with what that run had stored
                try:
                    case2 = {**case, "roots": {**case["roots"], **{c: {"axes": list(prod[c]["out_axes"]), "kind": "ndarray"} for c in cut}},
                             "funcs": [f for f in case["funcs"] if not (set(f["outs"]) & cut)]}
                    I2 = {**I, **{c: mapgen.variant_inputs({c: env[c]}, "~sub")[c] for c in cut}}
                    env2, _ = mapgen.oracle(case2, {**inputs, **{c: I2[c] for c in cut}})
                    probes.log_clear(log)
                    try:
                        with quiet():
                            res2 = pipeline.map(dict(I2), run_folder=os.path.join(scratch, "base"), internal_shapes=ishapes, parallel=False,
                                                storage="dict", cleanup=False, output_names=set(S), auto_subpipeline=True)
                    except Exception:  # noqa: BLE001
                        v.count("resume_of_full_run_with_other_intermediates:refused")
                    else:
                        v.count("resume_of_full_run_with_other_intermediates:answered")
                        for o in S:
                            if o in env2 and (o not in res2 or probes.render(res2[o].output) != probes.render(env2[o])):
                                stale = o in res2 and probes.render(res2[o].output) == probes.render(env[o])
                                v.bad("value/mapspec/full-run-folder-reused" + ("/stale" if stale else ""),
                                      f"{o}: a request with other supplied intermediates into the folder of the complete run returned "
                                      f"{'the values stored by that run' if stale else 'a wrong value'}", got=probes.render(res2[o].output)[:300] if o in res2 else None,
                                      expected=probes.render(env2[o])[:300], **w)
                                break
                        # restore the folder for the following requests
                        with quiet():
                            pipeline.map(inputs, run_folder=os.path.join(scratch, "base"), internal_shapes=ish, parallel=False, storage="dict")
                except Exception:  # noqa: BLE001  (the harness could not build the substituted case: not judged)
                    v.count("resume_of_full_run_with_other_intermediates:not-built")
            forms = [{"output_names": set(S), "auto_subpipeline": True}, {"output_names": set(S)}] if cut else [{"output_names": set(S)}]
            for kw in forms:
                form = "auto" if kw.get("auto_subpipeline") else "plain"
                probes.log_clear(log)
                try:
                    with quiet():
                        res = pipeline.map(dict(I), run_folder=os.path.join(scratch, "sel"), internal_shapes=ishapes, parallel=False,
                                           storage="file_array", **kw)
                except Exception as e:  # noqa: BLE001
                    v.bad(exc_sig(e, f"map-refused/mapspec/{cutmode}/{form}"), f"map(output_names={list(S)}, inputs={sorted(I)}, {form}) refused: {exc_msg(e)}", **w)
                    continue
                v.count("maps:mapspec")
                v.count(f"maps:mapspec:{cutmode}:{form}")
                for o in S:
                    v.count("values_compared")
                    if o not in res or probes.render(res[o].output) != probes.render(env[o]):
                        v.bad(f"value/mapspec/{cutmode}", f"{o} differs from the full pipeline's value", got=probes.render(res[o].output)[:300] if o in res else None,
                              expected=probes.render(env[o])[:300], **w)
                calls = probes.log_read(log)
                for f in case["funcs"]:
                    got = [c["k"] for c in calls if c["f"] == f["name"]]
                    want = [t for _, t in exp_calls[f["name"]]] if f["name"] in need else []
                    extra, miss = multiset_diff(got, want)
                    if extra or miss:
                        v.bad(f"calls/mapspec/{cutmode}", f"{f['name']}: extra={extra[:2]} missing={miss[:2]}", **w)


def run_case(desc):
    v = V()
    keys = []
    sample = None
    with tmpdir("c11-") as scratch:
        for i in range(desc["start"], desc["start"] + desc["n"]):
            rng = random.Random(f"c11:{desc['kind']}:{desc['seed']}:{i}")
            if desc["kind"] == "dag":
                case = daggen.case_from_seed(desc["seed"], i, max_funcs=5, p_nullary=0.2, p_default=0.45, p_decl=1.0, p_ign=0.0)
                run_dag_case(v, case, rng, scratch, keys)
                if sample is None and len(case["funcs"]) >= 3:
                    sample = {"case": daggen.describe(case)}
            else:
                case = mapgen.case_from_seed(desc["seed"], i)
                run_map_case(v, case, rng, scratch, keys)
    return v.result(evaluations=v.counters.get("pairs", 0), keys=keys, sample=sample if desc["start"] % 100 == 0 else None)


def finalize(agg, tier, seed):
    c = agg.counters
    floors = []
    if c.get("pairs_with_nullary_or_default_only_needed", 0) < 300:
        floors.append(f"only {c.get('pairs_with_nullary_or_default_only_needed', 0)} pairs whose needed set has a nullary/default-only function (< 300)")
    for k in ("pairs:root-only", "pairs:interior-only", "pairs:mixed"):
        if c.get(k, 0) < 500:
            floors.append(f"{k} = {c.get(k, 0)} (< 500)")
    if c.get("pairs:map-interior", 0) < 50:
        floors.append(f"pairs:map-interior = {c.get('pairs:map-interior', 0)} (< 50)")
    if c.get("rejections", 0) < 200:
        floors.append("fewer than 200 rejection requests")
    return floors, {}
