"""C14 - Cache containers conform to their replacement-policy model (DESIGN 4/C14).

Monitor 1: every operation sequence (up to renaming of keys) to a bounded depth is replayed on a
fresh real cache next to a naive model (vlib.models_c14); every transition is checked.
Monitor 2: the same step checker over manager-backed (shared=True) instances in one process, and
multi-process stress with optional sys.monitoring LINE yield injection inside pipefunc/cache.py.
"""
from __future__ import annotations

import gc
import json
import os
import pickle
import random
import select
import shutil
import sys
import time

from vlib import models_c14 as M
from vlib.util import V, exc_msg, exc_sig, tmpdir

PROPERTY = "C14"
LEVEL = "exploration"
DEADLINE = 300
CHUNK = 1
RULE = ("Monitor 1: all operation sequences over put(k, fresh unique value[, duration])/get(k)/clear (+ reopen for "
        "DiskCache) up to renaming of a 3-4 key alphabet (actual key objects 'a', 7, ('t', 2), 2.5 rotated per "
        "descriptor), max_size 1..3 (Disk also None), depth <=7 LRU/Simple, <=5 Hybrid, <=5 Disk, each replayed on a "
        "fresh real cache beside the model; after every transition `k in c` for every key and len(c) are compared "
        "(in 'sparse' descriptors only where the model needs them), every path ends with get of every key; plus "
        "random histories of length 30-60 with isolated in/len ops. Monitor 2: the same checker over shared=True "
        "instances in one process (instance reused after clear()), and forked-worker stress (3-4 workers x 300 ops, "
        "3 keys, max_size 2, quiescent barriers every 100 ops, optional yield injection). non-trivial = every "
        "transition; distinct = distinct (class, config, model state) reached")
ASSUMPTIONS = [
    "oracle = vlib.models_c14 (LRU: get and put, also of a resident key, refresh; Hybrid: argmin of "
    "aw*count/sum(counts)+dw*duration/sum(durations), any argmin within 1e-9, initial count 0 or 1 and re-put count "
    "reset/kept/incremented all accepted, re-put into a full cache may or may not evict; Disk: evicted files must not "
    "be newer (harness-observed st_ctime_ns) than surviving ones, exactly len-max_size files evicted per put; "
    "Simple: never evicts)",
    "keys are interchangeable up to renaming (canonical enumeration); the key objects are rotated per descriptor",
    "DiskCache with the in-memory layer: a key whose file was evicted may still be reported present provided "
    "`in` and `get` agree and the value is the latest put",
    "after reopening a DiskCache with a smaller max_size, len <= max_size is demanded from the next put on",
    "the icontract invariant on LRUCache (queue and dict hold the same keys) is diagnostic only",
    "stress workers are multiprocessing fork-context processes; yield injection = sys.monitoring LINE events in "
    "pipefunc/cache.py code objects only",
]

KEYS = ["a", 7, ("t", 2), 2.5]
CLASSNAME = {"LRU": "LRUCache", "Hybrid": "HybridCache", "Simple": "SimpleCache", "Disk": "DiskCache"}


# =========================================================================== diagnostics (icontract)
DIAG = {"installed": False, "evals": 0, "fails": 0, "first": None, "skipped": 0, "saved": None}


def _diag_cond(self):
    DIAG["evals"] += 1
    try:
        q = list(self._cache_queue)
        d = list(self._cache_dict.keys())
    except Exception:  # noqa: BLE001  internal names gone after a refactor: diagnostic skipped
        DIAG["skipped"] += 1
        return True
    if sorted(map(repr, q)) != sorted(map(repr, d)):
        DIAG["fails"] += 1
        if DIAG["first"] is None:
            DIAG["first"] = f"queue={q!r} dict_keys={d!r}"
    return True  # never raises: a diagnostic produces no verdict


def diag_install():
    if DIAG["installed"]:
        return True
    try:
        import icontract
        from pipefunc.cache import LRUCache

        saved = dict(vars(LRUCache))
        icontract.invariant(_diag_cond)(LRUCache)
        DIAG["saved"] = (LRUCache, saved)
        DIAG["installed"] = True
        return True
    except Exception:  # noqa: BLE001
        DIAG["skipped"] += 1
        return False


def diag_remove():
    if not DIAG["installed"]:
        return
    cls, saved = DIAG["saved"]
    for name in list(vars(cls)):
        if name not in saved:
            try:
                delattr(cls, name)
            except Exception:  # noqa: BLE001
                pass
    for name, val in saved.items():
        if vars(cls).get(name) is not val:
            try:
                setattr(cls, name, val)
            except Exception:  # noqa: BLE001
                pass
    DIAG["installed"] = False
    DIAG["saved"] = None


# =========================================================================== real objects
def make_real(cfg, dirpath=None):
    from pipefunc import cache as pc

    c = cfg["cls"]
    if c == "LRU":
        return pc.LRUCache(max_size=cfg["max_size"], shared=cfg.get("shared", False))
    if c == "Hybrid":
        return pc.HybridCache(max_size=cfg["max_size"], access_weight=cfg["aw"], duration_weight=cfg["dw"],
                              shared=cfg.get("shared", False))
    if c == "Simple":
        return pc.SimpleCache()
    return pc.DiskCache(dirpath, max_size=cfg["max_size"], with_lru_cache=cfg.get("with_lru", True),
                        lru_cache_size=cfg.get("lru_size", 128), lru_shared=cfg.get("shared", False),
                        use_cloudpickle=cfg.get("cloudpickle", True))


def make_model(cfg):
    c = cfg["cls"]
    if c == "LRU":
        return M.LRUModel(cfg["max_size"])
    if c == "Hybrid":
        return M.HybridModel(cfg["max_size"], cfg["aw"], cfg["dw"])
    if c == "Simple":
        return M.SimpleModel()
    return M.DiskModel(cfg["max_size"], cfg.get("with_lru", True))


def ls_pkl(d):
    out = {}
    with os.scandir(d) as it:
        for e in it:
            if e.name.endswith(".pkl"):
                out[e.name] = e.stat().st_ctime_ns
    return out


def _children():
    import multiprocessing as mp

    return set(mp.active_children())


def reap_children(before):
    """Shut down manager servers created since `before` (a Manager process per shared cache)."""
    gc.collect()
    for p in _children() - before:
        try:
            p.terminate()
            p.join(2)
            if p.is_alive():
                p.kill()
                p.join(1)
        except Exception:  # noqa: BLE001
            pass


def op_str(op, keys):
    if op[0] == "put":
        return f"put({keys[op[1]]!r})" if op[2] is None else f"put({keys[op[1]]!r}, duration={op[2]})"
    if op[0] in ("get", "in"):
        return f"{op[0]}({keys[op[1]]!r})"
    if op[0] == "reopen":
        return f"reopen({op[1]})"
    return f"{op[0]}()"


# =========================================================================== the step checker
class Stats:
    def __init__(self):
        self.fails = {}   # sig -> (path length, msg, witness)
        self.states = set()


class Run:
    """One real cache beside its model; apply(op) performs the op on both and checks the transition."""

    def __init__(self, cfg, v, stats, scratch=None):
        self.cfg = dict(cfg)
        self.v = v
        self.stats = stats
        self.scratch = scratch
        self.cls = cfg["cls"]
        self.C = CLASSNAME[self.cls]
        self.K = cfg["K"]
        r = cfg.get("perm", 0) % len(KEYS)
        self.keys = (KEYS[r:] + KEYS[:r])[: self.K]
        self.sparse = bool(cfg.get("sparse"))
        self.mode = "/shared" if cfg.get("shared") else ""
        self.real = None
        self.dir = None
        self.serial = 0
        self.npath = 0
        self.reused = 0
        self.skey = f"{self.cls}/m{cfg['max_size']}/K{self.K}" + (
            f"/w{cfg['aw']},{cfg['dw']}" if self.cls == "Hybrid" else "") + (
            f"/lru{int(cfg.get('with_lru', True))}.{cfg.get('lru_size', 128)}" if self.cls == "Disk" else "") + self.mode

    # ---- life cycle
    def start(self):
        self.close()
        self.path = []
        self.reput = False
        self.max_size = self.cfg["max_size"]
        self.model = make_model(self.cfg)
        self.rot = 0
        self.reused = 0
        DIAG["first"] = None
        self.diag_fails0 = DIAG["fails"]
        if self.cls == "Disk":
            self.npath += 1
            self.dir = os.path.join(self.scratch, f"d{self.npath}")
        try:
            self.real = make_real(self.cfg, self.dir)
        except Exception as e:  # noqa: BLE001
            return self.fail(exc_sig(e, f"raise:{self.C}.__init__") + self.mode, f"constructor raised: {exc_msg(e)}")
        return True

    def restart(self):
        """Reuse the instance (shared caches: one Manager process each): clear() and a fresh model."""
        self.path = []
        self.reused += 1
        DIAG["first"] = None
        self.diag_fails0 = DIAG["fails"]
        return self.apply(("clear",))

    def close(self):
        self.real = None
        if self.dir is not None:
            shutil.rmtree(self.dir, ignore_errors=True)
            self.dir = None

    # ---- bookkeeping
    def fail(self, sig, msg):
        self.v.count("violating_transitions")
        cur = self.stats.fails.get(sig)
        if cur is None or len(self.path) < cur[0]:
            wit = {"config": {k: x for k, x in self.cfg.items()}, "keys": [repr(k) for k in self.keys],
                   "ops": [op_str(o, self.keys) for o in self.path[-80:]], "failed_at_step": len(self.path),
                   "model_before_or_at": self.model.describe() if self.model else None}
            if self.reused:
                wit["instance_reused_after_clear"] = self.reused
            if DIAG["installed"]:
                wit["diag_first_queue_dict_divergence"] = DIAG["first"]
            self.stats.fails[sig] = (len(self.path), msg, wit)
        return False

    def after_reput(self):
        return "/after-reput" if self.reput else ""

    # ---- observations
    def _in(self, k):
        try:
            return bool(k in self.real), True
        except Exception as e:  # noqa: BLE001
            self.fail(exc_sig(e, f"raise:{self.C}.__contains__") + self.after_reput() + self.mode,
                      f"`{k!r} in cache` raised {exc_msg(e)}")
            return None, False

    def sweep_raw(self):
        self.rot += 1
        n = len(self.keys)
        obs = {}
        for j in range(n):
            k = self.keys[(j + self.rot) % n]
            p, ok = self._in(k)
            if not ok:
                return None
            obs[k] = p
        self.v.count(f"t:{self.cls}:in", n)
        return obs

    def check_presence(self, obs, after):
        for k, p in obs.items():
            e = self.model.expect_in(k)
            if e is None:
                if not p:
                    self.model.note_absent(k)
                continue
            if e != p:
                sym = "present-but-model-absent" if p else "absent-but-model-present"
                return self.fail(f"presence:{self.C}:{sym}/after-{after}{self.after_reput()}{self.mode}",
                                 f"`{k!r} in cache` is {p} after {after}; model: {self.model.describe()}")
        return True

    def check_len(self):
        try:
            n = len(self.real)
        except Exception as e:  # noqa: BLE001
            return self.fail(exc_sig(e, f"raise:{self.C}.__len__") + self.mode, f"len raised {exc_msg(e)}")
        self.v.count(f"t:{self.cls}:len")
        want = self.model.size()
        if n != want:
            over = self.max_size is not None and n > self.max_size
            sym = "exceeds-max_size" if over else "differs-from-model"
            return self.fail(f"len:{self.C}:{sym}{self.after_reput()}{self.mode}",
                             f"len(cache) == {n}, max_size == {self.max_size}, model holds {want}: {self.model.describe()}")
        return True

    def observe(self, after):
        if self.sparse:
            return True
        obs = self.sweep_raw()
        if obs is None:
            return False
        return self.check_presence(obs, after) and self.check_len()

    # ---- operations
    def apply(self, op, final=False):
        kind = op[0]
        self.path.append(op)
        ok = getattr(self, "_op_" + kind)(op)
        if ok:
            self.v.count(f"t:{self.cls}:{kind}" + (":final" if final else ""))
            self.v.count(f"tk:{self.cls}/m{self.cfg['max_size']}:{kind}")
            self.stats.states.add(self.skey + ":" + self.model.state())
        return ok

    def _op_put(self, op):
        k, dur = self.keys[op[1]], op[2]
        self.serial += 1
        # (some stored values ARE None / falsy: a resident entry is resident whatever its value)
        # (not for DiskCache: its model resolves "maybe still in the front LRU" through what get() returns, and a stored None reads
        #  like a miss there)
        val = {3: None, 5: 0, 8: ()}.get(self.serial % 11, (op[1], self.serial)) if self.cls != "Disk" else (op[1], self.serial)
        trig = self.model.trigger(k)
        ctx = trig + self.after_reput() + self.mode
        info = None
        was_maybe = self.cls == "Disk" and k in self.model.maybe
        try:
            if self.cls == "Disk":
                before = ls_pkl(self.dir)
            if self.cls == "Hybrid":
                self.real.put(k, val, dur)
            else:
                self.real.put(k, val)
            if self.cls == "Disk":
                info = {"before": before, "after": ls_pkl(self.dir)}
        except Exception as e:  # noqa: BLE001
            extra = ""
            if self.cls == "Disk" and self.max_size is not None:
                need = len(before) + (0 if trig.startswith("resident") else 1) - self.max_size
                extra = "/evict>=2" if need >= 2 else ""
            if self.cls == "Hybrid" and self.model.val and not any(self.model.dur.values()):
                extra = "/all-durations-zero"
            return self.fail(exc_sig(e, f"raise:{self.C}.put") + "/" + ctx + extra,
                             f"put({k!r}) raised {exc_msg(e)}; model: {self.model.describe()}")
        obs = None
        if not self.sparse or self.model.needs_obs(k, dur):
            obs = self.sweep_raw()
            if obs is None:
                return False
        err = self.model.check_put(k, val, dur, obs, info)
        if err:
            return self.fail(f"evict:{self.C}.put/{ctx}:{err[0]}", err[1])
        if self.cls == "Disk" and was_maybe:
            self.reput = True
        if trig.startswith("resident"):
            self.reput = True
            self.v.count("reput_resident")
            self.v.count(f"reput_resident:{self.cls}")
        if trig.endswith("-full") and trig.startswith("fresh"):
            self.v.count(f"evictions:{self.cls}")
        if self.cls == "Disk" and info and len(set(info["after"].values())) < len(info["after"]):
            self.v.count("disk_ctime_ties_observed")
        if self.sparse:
            return True
        return self.check_len()

    def _op_get(self, op):
        k = self.keys[op[1]]
        exp = self.model.get(k)
        pre = None
        if exp[0] == "maybe":
            pre, ok = self._in(k)
            if not ok:
                return False
        try:
            r = self.real.get(k)
        except Exception as e:  # noqa: BLE001
            return self.fail(exc_sig(e, f"raise:{self.C}.get") + f"/{exp[0]}{self.after_reput()}{self.mode}",
                             f"get({k!r}) raised {exc_msg(e)}; model: {self.model.describe()}")
        sym = None
        if exp[0] == "val":
            if r != exp[1]:
                sym = "miss-on-resident" if r is None else "stale-or-foreign-value"
        elif exp[0] == "none":
            if r is not None:
                sym = "hit-on-absent"
        else:
            self.v.count("disk_maybe_gets")
            if pre and r != exp[1]:
                sym = "in-true-but-get-not-latest"
            elif not pre and r is not None:
                sym = "in-false-but-get-hit"
            if r is None:
                self.model.note_absent(k)
        if sym:
            return self.fail(f"get:{self.C}:{sym}{self.after_reput()}{self.mode}",
                             f"get({k!r}) returned {r!r}, model expects {exp!r}; model: {self.model.describe()}")
        return self.observe("get")

    def _op_in(self, op):
        k = self.keys[op[1]]
        p, ok = self._in(k)
        if not ok:
            return False
        return self.check_presence({k: p}, "in")

    def _op_len(self, op):
        return self.check_len()

    def _op_clear(self, op):
        try:
            self.real.clear()
        except Exception as e:  # noqa: BLE001
            return self.fail(exc_sig(e, f"raise:{self.C}.clear") + self.after_reput() + self.mode,
                             f"clear() raised {exc_msg(e)}")
        self.model.clear()
        self.reput = False
        if self.sparse:  # clear is rare: always look
            obs = self.sweep_raw()
            return obs is not None and self.check_presence(obs, "clear") and self.check_len()
        return self.observe("clear")

    def _op_reopen(self, op):
        new = self.max_size
        if op[1] == "smaller" and self.max_size is not None and self.max_size > 1:
            new = self.max_size - 1
        self.cfg["max_size"] = new
        try:
            self.real = make_real(self.cfg, self.dir)
        except Exception as e:  # noqa: BLE001
            return self.fail(exc_sig(e, f"raise:{self.C}.__init__/reopen") + self.mode, f"reopen raised {exc_msg(e)}")
        self.max_size = new
        self.model.reopen(new)
        self.v.count(f"disk_reopen_{op[1]}")
        if self.sparse:
            return True
        obs = self.sweep_raw()
        if obs is None or not self.check_presence(obs, "reopen"):
            return False
        return self.check_len()  # equality with the model's file count (may exceed a smaller max_size until next put)

    def final_gets(self):
        for i in range(self.K):
            if not self.apply(("get", (i + self.rot) % self.K), final=True):
                return False
        if self.sparse:
            obs = self.sweep_raw()
            return obs is not None and self.check_presence(obs, "get") and self.check_len()
        return True

    def finish_path(self):
        if DIAG["installed"] and DIAG["fails"] > self.diag_fails0:
            self.v.count("diag_paths_with_invariant_failure")


# =========================================================================== Monitor 1: tree
def cfg_ops(cfg):
    durs = tuple(cfg.get("durs") or (None,))
    reopen = ("same", "smaller") if cfg["cls"] == "Disk" else ()
    return durs, reopen


def explore(cfg, prefix, depth, v, stats, scratch):
    durs, reopen = cfg_ops(cfg)
    run = Run(cfg, v, stats, scratch)
    prev = [None]

    def run_path(path):
        lcp = 0
        if prev[0] is not None:
            for a, b in zip(prev[0], path):
                if a != b:
                    break
                lcp += 1
        prev[0] = list(path)
        v.count("paths")
        bad_before = len(stats.fails), v.counters.get("violating_transitions", 0)
        fail_at = None
        if run.start():
            for i, op in enumerate(path):
                v.count("transition_checks")
                if not run.apply(op):
                    fail_at = i
                    break
            else:
                run.final_gets()
        else:
            fail_at = -1
        done = len(path) if fail_at is None else max(0, fail_at + 1)
        v.count("transitions_distinct", max(0, done - lcp))
        v.count(f"transitions_distinct:{cfg['cls']}", max(0, done - lcp))
        run.finish_path()
        if DIAG["installed"] and DIAG["fails"] > run.diag_fails0 and \
                v.counters.get("violating_transitions", 0) == bad_before[1]:
            v.count("diag_invariant_failure_without_violation")
        run.close()
        return fail_at

    def rec(path, used):
        level = len(path)
        if level == depth:
            return run_path(path)
        for op in M.ops_at(cfg["cls"], used, cfg["K"], durs, reopen):
            path.append(op)
            f = rec(path, M.used_after(used, op))
            path.pop()
            if f is not None and f < level:
                return f
        return None

    path = [tuple(o) for o in prefix]
    used = 0
    for op in path:
        used = M.used_after(used, op)
    rec(path, used)  # levels below the prefix are fixed
    run.close()


# =========================================================================== random histories
def gen_history(rng, cfg, length):
    durs, reopen = cfg_ops(cfg)
    K = cfg["K"]
    ops = []
    for _ in range(length):
        x = rng.random()
        k = rng.randrange(K)
        if x < 0.42:
            ops.append(("put", k, rng.choice(durs)))
        elif x < 0.70:
            ops.append(("get", k))
        elif x < 0.82:
            ops.append(("in", k))
        elif x < 0.90:
            ops.append(("len",))
        elif x < 0.94 or not reopen:
            ops.append(("clear",))
        else:
            ops.append(("reopen", rng.choice(reopen)))
    return ops


def random_histories(desc, v, stats, scratch):
    cfg = desc["cfg"]
    rng = random.Random(f"c14/{desc['seed']}/{desc['i']}/{cfg['cls']}")
    shared = bool(cfg.get("shared"))
    before = _children() if shared else None
    run = Run(cfg, v, stats, scratch)
    created = 0
    alive = False
    try:
        for h in range(desc["n"]):
            ops = gen_history(rng, cfg, rng.randint(*desc["len"]))
            if shared and alive:
                ok = run.restart()
            else:
                if shared and created >= 5:
                    v.count("shared_histories_skipped_after_5_broken_instances", desc["n"] - h)
                    break
                ok = run.start()
                created += 1
                if shared:
                    v.count("manager_backed_instances")
            v.count("histories" + ("_shared" if shared else ""))
            if ok:
                for op in ops:
                    v.count("transition_checks")
                    v.count("history_ops" + ("_shared" if shared else ""))
                    if not run.apply(op):
                        ok = False
                        break
                else:
                    ok = run.final_gets()
            run.finish_path()
            alive = ok and shared
            if not alive:
                run.close()
                if shared:
                    reap_children(before)
    finally:
        run.close()
        if shared:
            reap_children(before)


# =========================================================================== Monitor 2: stress
SKEYS = ["a", 7, ("t", 2)]


def _install_injection(rng, prob, sleep_s, counter):
    mon = sys.monitoring
    import pipefunc.cache as pc

    target = os.path.realpath(pc.__file__)
    tid = None
    for cand in (4, 3, 5, 2, 1, 0):
        try:
            mon.use_tool_id(cand, "c14-yield")
            tid = cand
            break
        except ValueError:
            continue
    if tid is None:
        return False
    seen = {}

    def cb(code, line):
        fn = code.co_filename
        hit = seen.get(fn)
        if hit is None:
            hit = seen[fn] = os.path.realpath(fn) == target
        if not hit:
            return mon.DISABLE
        counter[1] += 1
        if rng.random() < prob:
            counter[0] += 1
            time.sleep(sleep_s)
        return None

    mon.register_callback(tid, mon.events.LINE, cb)
    mon.set_events(tid, mon.events.LINE)
    return True


def _stress_worker(w, cache, blob, desc, logpath, up, down):
    fd = os.open(logpath, os.O_WRONLY | os.O_APPEND | os.O_CREAT, 0o644)

    def log(rec):
        os.write(fd, (json.dumps(rec, default=repr) + "\n").encode())

    code = 0
    try:
        rng = random.Random(f"c14s/{desc['seed']}/{desc['i']}/{w}")
        if blob is not None:
            try:
                cache = pickle.loads(blob)
            except Exception as e:  # noqa: BLE001
                log({"w": w, "fatal": exc_sig(e, "raise:unpickle"), "msg": exc_msg(e)})
                cache = None
        counter = [0, 0]
        if desc.get("inject") and cache is not None:
            irng = random.Random(f"c14y/{desc['seed']}/{desc['i']}/{w}")
            if not _install_injection(irng, desc["inject"]["p"], desc["inject"]["sleep"], counter):
                log({"w": w, "note": "no free sys.monitoring tool id"})
        hybrid = desc["cls"] == "Hybrid"
        seg = desc["segment"]
        for i in range(desc["nops"]):
            if cache is None:
                break
            x = rng.random()
            ki = rng.randrange(len(SKEYS))
            k = SKEYS[ki]
            rec = {"w": w, "i": i, "k": ki}
            try:
                if x < 0.40:
                    rec["op"] = "put"
                    val = (w, ki, i)
                    if hybrid:
                        cache.put(k, val, rng.choice([1.0, 2.0]))
                    else:
                        cache.put(k, val)
                elif x < 0.75:
                    rec["op"] = "get"
                    r = cache.get(k)
                    rec["r"] = list(r) if isinstance(r, tuple) else (None if r is None else {"odd": repr(r)[:80]})
                elif x < 0.88:
                    rec["op"] = "in"
                    rec["r"] = bool(k in cache)
                elif x < 0.98:
                    rec["op"] = "len"
                    rec["r"] = len(cache)
                else:
                    rec["op"] = "clear"
                    cache.clear()
            except Exception as e:  # noqa: BLE001
                rec["exc"] = exc_sig(e, "raise")
                rec["msg"] = exc_msg(e, 160)
            log(rec)
            if (i + 1) % seg == 0:
                os.write(up, b"B")
                if os.read(down, 1) != b"G":
                    break
        log({"w": w, "end": True, "injections": counter[0], "line_events": counter[1]})
    except BaseException as e:  # noqa: BLE001
        try:
            log({"w": w, "harness": f"{type(e).__name__}: {e}"})
        except Exception:  # noqa: BLE001
            pass
        code = 3
    finally:
        os.close(fd)
        os._exit(code)


def stress(desc, v, stats):
    import multiprocessing as mp

    cls = desc["cls"]
    C = CLASSNAME[cls]
    mode = desc["mode"]
    tag = f"/{mode}"
    ctx = mp.get_context("fork")
    before = _children()
    cfg = {"cls": cls, "max_size": 2, "K": 3, "aw": 0.5, "dw": 0.5, "shared": True, "with_lru": True, "lru_size": 128}
    fails = stats.fails

    def bad(sig, msg, **wit):
        v.count("violating_transitions")
        if sig not in fails:
            w = {"stress": {k: desc[k] for k in ("cls", "mode", "workers", "nops", "inject", "seed", "i")}}
            w.update(wit)
            fails[sig] = (0, msg, w)

    procs = []
    with tmpdir("c14s-") as d:
        try:
            try:
                cache = make_real(cfg, os.path.join(d, "disk"))
            except Exception as e:  # noqa: BLE001
                bad(exc_sig(e, f"raise:{C}.__init__") + "/shared", f"constructor raised {exc_msg(e)}")
                return
            v.count("manager_backed_instances")
            blob = None
            if mode == "pickled":
                try:
                    blob = pickle.dumps(cache)
                except Exception as e:  # noqa: BLE001
                    bad(exc_sig(e, f"raise:{C}.__getstate__") + "/shared", f"pickling a shared cache raised {exc_msg(e)}")
                    return
            logpath = os.path.join(d, "ops.jsonl")
            pipes = []
            for w in range(desc["workers"]):
                up_r, up_w = os.pipe()
                dn_r, dn_w = os.pipe()
                p = ctx.Process(target=_stress_worker,
                                args=(w, None if blob is not None else cache, blob, desc, logpath, up_w, dn_r), daemon=True)
                p.start()
                os.close(up_w)
                os.close(dn_r)
                procs.append(p)
                pipes.append((up_r, dn_w))
            rounds = desc["nops"] // desc["segment"]
            broken = False
            for rnd in range(rounds):
                for up_r, _ in pipes:
                    rl, _, _ = select.select([up_r], [], [], 120)
                    if not rl or os.read(up_r, 1) != b"B":
                        broken = True
                        break
                if broken:
                    break
                # quiescent: every worker is blocked on its pipe
                v.count("stress_barriers")
                try:
                    n = len(cache)
                    if n > 2:
                        bad(f"stress:{C}:barrier:len-exceeds-max_size{tag}", f"len == {n} > max_size == 2 at a quiescent barrier",
                            round=rnd)
                    for k in SKEYS:
                        p_in = k in cache
                        g = cache.get(k)
                        v.count("stress_barrier_key_checks")
                        if p_in and g is None:
                            bad(f"stress:{C}:barrier:present-but-get-none{tag}", f"{k!r} in cache but get returned None", round=rnd)
                        if not p_in and g is not None:
                            bad(f"stress:{C}:barrier:absent-but-get-value{tag}", f"{k!r} not in cache but get returned {g!r}",
                                round=rnd)
                except Exception as e:  # noqa: BLE001
                    bad(exc_sig(e, f"stress:{C}:barrier:raise") + tag, f"operation at a quiescent barrier raised {exc_msg(e)}",
                        round=rnd)
                for _, dn_w in pipes:
                    try:
                        os.write(dn_w, b"G")
                    except OSError:
                        broken = True
            for p in procs:
                p.join(60)
            recs = []
            if os.path.exists(logpath):
                with open(logpath) as f:
                    for line in f:
                        try:
                            recs.append(json.loads(line))
                        except ValueError:
                            pass
            ends = [r for r in recs if r.get("end")]
            harness = [r for r in recs if "harness" in r]
            if broken or harness or len(ends) != desc["workers"]:
                raise RuntimeError(f"stress run incomplete: broken={broken} ends={len(ends)} harness={harness[:2]}")
            v.count("stress_runs")
            v.count(f"stress_runs:{cls}")
            v.count(f"stress_runs_mode:{mode}")
            if desc.get("inject"):
                v.count("stress_runs_with_injection")
            v.count("yield_injections", sum(r["injections"] for r in ends))
            v.count("yield_line_events", sum(r["line_events"] for r in ends))
            puts = {(r["w"], r["k"], r["i"]) for r in recs if r.get("op") == "put"}
            for r in recs:
                if "fatal" in r:
                    bad(f"stress:{C}:{r['fatal']}{tag}", f"worker could not unpickle the shared cache: {r['msg']}")
                if "op" not in r:
                    continue
                v.count("cross_process_ops")
                v.count(f"stress_op:{cls}:{r['op']}")
                if "exc" in r:
                    v.count(f"stress_raised:{cls}:{r['op']}")
                    bad(f"stress:{C}.{r['op']}:{r['exc']}{tag}", f"{r['op']}({SKEYS[r['k']]!r}) raised in worker {r['w']}: {r['msg']}",
                        op_index=r["i"])
                elif r["op"] == "get" and r["r"] is not None:
                    v.count("stress_get_hits")
                    val = r["r"]
                    if not (isinstance(val, list) and len(val) == 3 and val[1] == r["k"] and tuple(val) in puts):
                        bad(f"stress:{C}:get-returned-foreign-value{tag}",
                            f"get({SKEYS[r['k']]!r}) returned {val!r}, which no process put for that key", op_index=r["i"])
        finally:
            for p in procs:
                try:
                    if p.is_alive():
                        p.kill()
                    p.join(1)
                except Exception:  # noqa: BLE001
                    pass
            cache = None
            reap_children(before)


# =========================================================================== plan / run / finalize
WEIGHTS = [(0.5, 0.5), (1.0, 0.0), (0.0, 1.0), (0.3, 0.7)]


def _tree(descs, cfg, depth, plen, diag=False, head=()):
    """One descriptor per canonical prefix of length `plen` (after the fixed `head` ops)."""
    durs, reopen = cfg_ops(cfg)
    head = [tuple(o) for o in head]
    used = 0
    for o in head:
        used = M.used_after(used, o)
    tails = []

    def rec(path, u):
        if len(path) == plen:
            tails.append(list(path))
            return
        for op in M.ops_at(cfg["cls"], u, cfg["K"], durs, reopen):
            path.append(op)
            rec(path, M.used_after(u, op))
            path.pop()

    rec([], used)
    for j, tail in enumerate(tails):
        c = dict(cfg)
        c["perm"] = (len(descs) + j) % 4
        c["sparse"] = (len(descs) % 4 == 3) and not diag
        descs.append({"kind": "tree", "cfg": c, "depth": depth, "prefix": [list(o) for o in head + tail], "diag": bool(diag)})


def plan(tier, seed):
    q = tier == "quick"
    descs = []
    # ---- Monitor 1: trees
    for m in (1, 2, 3):
        _tree(descs, {"cls": "LRU", "max_size": m, "K": 3}, 7 if (m == 2 or not q) else 6, 3)
        _tree(descs, {"cls": "LRU", "max_size": m, "K": 4}, 6 if q else 7, 2 if q else 3)
        _tree(descs, {"cls": "LRU", "max_size": m, "K": 3}, 5 if q else 6, 1, diag=True)  # icontract diagnostic on
    _tree(descs, {"cls": "Simple", "max_size": None, "K": 3}, 6 if q else 7, 2)
    _tree(descs, {"cls": "Simple", "max_size": None, "K": 4}, 5 if q else 6, 2)
    for m in (1, 2, 3):
        for wi, (aw, dw) in enumerate(WEIGHTS):
            if q and wi >= 2 and m != 2:
                continue
            _tree(descs, {"cls": "Hybrid", "max_size": m, "K": 3, "aw": aw, "dw": dw, "durs": [1.0, 2.0]}, 5, 2)
        _tree(descs, {"cls": "Hybrid", "max_size": m, "K": 3, "aw": 0.5, "dw": 0.5, "durs": [0.0, 1.0] if q else [0.0, 1.0, 2.0]},
              4 if q else 5, 1 if q else 2)
        if not q:
            _tree(descs, {"cls": "Hybrid", "max_size": m, "K": 4, "aw": 0.5, "dw": 0.5, "durs": [1.0, 2.0]}, 5, 2)
    for m in (1, 2, 3, None):
        for with_lru, lsz in ((False, 128), (True, 2), (True, 128)):
            if q and with_lru and (m is None or (lsz == 128 and m != 2)):
                continue
            _tree(descs, {"cls": "Disk", "max_size": m, "K": 3, "with_lru": with_lru, "lru_size": lsz}, 4 if q else 5, 2)
            if m in ((3,) if q else (2, 3, None)) and lsz == (128 if not with_lru else 2):
                # pre-filled directory: reaches reopen-with-smaller-max_size followed by a multi-file eviction
                _tree(descs, {"cls": "Disk", "max_size": m, "K": 3, "with_lru": with_lru, "lru_size": lsz}, 6 if q else 7, 1,
                      head=[("put", 0, None), ("put", 1, None), ("put", 2, None)])
    _tree(descs, {"cls": "Disk", "max_size": 2, "K": 3, "with_lru": True, "lru_size": 2}, 4, 1, diag=True)
    for with_lru in (False, True):  # the plain-pickle variant of the on-disk format
        _tree(descs, {"cls": "Disk", "max_size": 2, "K": 3, "with_lru": with_lru, "lru_size": 2, "cloudpickle": False}, 4, 2)
    # ---- random longer histories, non-shared
    nh = 12 if q else 60
    i = 0
    for rep in range(nh):
        for cls in ("LRU", "Hybrid", "Simple", "Disk"):
            m = [1, 2, 3][rep % 3]
            aw, dw = WEIGHTS[rep % 4]
            cfg = {"cls": cls, "max_size": None if cls == "Simple" else m, "K": 4, "aw": aw, "dw": dw,
                   "durs": [1.0, 2.0] if cls == "Hybrid" else None, "with_lru": rep % 2 == 0, "lru_size": [2, 128][rep % 4 // 2],
                   "perm": rep % 4, "sparse": rep % 2 == 1, "cloudpickle": rep % 3 != 1}
            descs.append({"kind": "random", "seed": seed, "i": i, "cfg": cfg, "n": 25 if cls == "Disk" else 150,
                          "len": [30, 60]})
            i += 1
    # ---- Monitor 2a: shared, single process
    ns = 2 if q else 10
    for rep in range(ns):
        for cls in ("LRU", "Hybrid", "Disk"):
            for m in (1, 2, 3):
                aw, dw = WEIGHTS[(rep + m) % 4]
                cfg = {"cls": cls, "max_size": m, "K": 3 + (rep + m) % 2, "aw": aw, "dw": dw,
                       "durs": [1.0, 2.0] if cls == "Hybrid" else None, "with_lru": True, "lru_size": [128, 2][rep % 2],
                       "perm": (rep + m) % 4, "sparse": rep % 2 == 1, "shared": True}
                descs.append({"kind": "random", "seed": seed, "i": i, "cfg": cfg, "n": 12 if cls == "Disk" else 30,
                              "len": [12, 30]})
                i += 1
    # ---- Monitor 2b: multi-process stress
    nst = 40 if q else 400
    for j in range(nst):
        cls = ("LRU", "Hybrid", "LRU", "Hybrid", "Disk")[j % 5]
        inj = None
        if j % 2 == 0:
            inj = {"p": 0.2, "sleep": [0.0, 0.0002, 0.0005][(j // 2) % 3]}
        descs.append({"kind": "stress", "seed": seed, "i": j, "cls": cls, "workers": 3 + (j // 5) % 2, "nops": 300,
                      "segment": 100, "mode": "pickled" if (j // 10) % 2 == 0 else "inherit", "inject": inj})
    # expensive ones first
    def cost(d):
        if d["kind"] != "tree":
            return 0 if d["kind"] == "stress" else 1
        return 2 if d["cfg"]["cls"] == "LRU" and not d.get("diag") else 3

    descs.sort(key=cost)
    return descs


def run_case(desc):
    v = V()
    stats = Stats()
    kind = desc["kind"]
    v.classes.add(f"kind:{kind}")
    with tmpdir("c14-") as scratch:
        if kind == "tree":
            cfg = desc["cfg"]
            v.classes.add(f"tree:{cfg['cls']}/m{cfg['max_size']}")
            diag = desc.get("diag") and diag_install()
            e0 = DIAG["evals"]
            try:
                explore(cfg, desc["prefix"], desc["depth"], v, stats, scratch)
            finally:
                if diag:
                    v.count("diag_invariant_evaluations", DIAG["evals"] - e0)
                    v.count("diag_cases")
                    diag_remove()
                if DIAG["skipped"]:
                    v.count("diag_skipped", DIAG["skipped"])
                    DIAG["skipped"] = 0
        elif kind == "random":
            cfg = desc["cfg"]
            v.classes.add(f"random:{cfg['cls']}" + ("/shared" if cfg.get("shared") else ""))
            random_histories(desc, v, stats, scratch)
        else:
            v.classes.add(f"stress:{desc['cls']}/{desc['mode']}" + ("/inject" if desc.get("inject") else ""))
            stress(desc, v, stats)
    for sig, (n, msg, wit) in sorted(stats.fails.items(), key=lambda t: t[1][0]):
        v.bad(sig, msg, **wit)
        v.count("distinct_sigs_in_case")
    sample = None
    if kind == "tree" and desc["cfg"].get("perm") == 1 and len(desc["prefix"]) and desc["prefix"][0][0] == "put" \
            and desc["prefix"][-1][0] == "put":
        c = v.counters
        sample = {"desc": desc, "paths": c.get("paths"), "transitions_distinct": c.get("transitions_distinct"),
                  "violating_transitions": c.get("violating_transitions", 0), "states": len(stats.states)}
    elif kind == "stress" and desc["i"] in (0, 4):
        c = v.counters
        sample = {"desc": desc, "cross_process_ops": c.get("cross_process_ops"), "yield_injections": c.get("yield_injections"),
                  "barriers": c.get("stress_barriers"), "get_hits": c.get("stress_get_hits"),
                  "raised": {k: n for k, n in c.items() if k.startswith("stress_raised")}}
    elif kind == "random" and desc["i"] in (1, 70):
        c = v.counters
        sample = {"desc": desc, "ops": c.get("history_ops", 0) + c.get("history_ops_shared", 0),
                  "first_history": [op_str(o, KEYS) for o in gen_history(
                      random.Random(f"c14/{desc['seed']}/{desc['i']}/{desc['cfg']['cls']}"), desc["cfg"], 12)],
                  "violating_transitions": c.get("violating_transitions", 0), "states": len(stats.states)}
    return v.result(keys=sorted(stats.states), sample=sample)


def finalize(agg, tier, seed):
    c = agg.counters
    floors = []
    q = tier == "quick"

    def need(key, n):
        if c.get(key, 0) < n:
            floors.append(f"{key}={c.get(key, 0)} (< {n})")

    need("transitions_distinct", 100_000 if q else 1_000_000)
    need("paths", 50_000 if q else 500_000)
    for cls in ("LRU", "Hybrid", "Disk"):
        for m in (1, 2, 3):
            for op in ("put", "get", "clear"):
                need(f"tk:{cls}/m{m}:{op}", 50)
    for op in ("put", "get", "clear", "in", "len"):
        need(f"t:Simple:{op}", 50)
    for cls in ("LRU", "Hybrid", "Disk", "Simple"):
        need(f"t:{cls}:in", 1000)
        need(f"t:{cls}:len", 1000)
    need("t:Disk:reopen", 50)
    need("reput_resident:LRU", 1000)
    need("reput_resident:Hybrid", 1000)
    need("reput_resident:Simple", 1000)
    need("reput_resident:Disk", 300)
    need("histories", 1000)
    need("histories_shared", 100 if q else 500)
    need("stress_runs", 30 if q else 300)
    need("cross_process_ops", 10_000 if q else 100_000)
    need("stress_barriers", 60 if q else 600)
    need("stress_runs_with_injection", 10)
    need("yield_injections", 1000)
    need("diag_invariant_evaluations", 1000)
    extra = {"states": len(agg.keys), "transitions": c.get("transitions_distinct", 0),
             "transition_checks_executed": c.get("transition_checks", 0),
             "diagnostic_invariant": {"evaluations": c.get("diag_invariant_evaluations", 0),
                                      "paths_with_failure": c.get("diag_paths_with_invariant_failure", 0),
                                      "failure_without_public_violation": c.get("diag_invariant_failure_without_violation", 0),
                                      "skipped": c.get("diag_skipped", 0)},
             "yield_injections": c.get("yield_injections", 0)}
    return floors, extra
