"""C08 - MapSpec parsing, printing, shapes and index maps are mutually consistent (DESIGN 4/C08)."""
from __future__ import annotations

import itertools
import random

from vlib import models_c08 as M
from vlib.util import V, exc_msg, exc_sig

PROPERTY = "C08"
LEVEL = "exploration"
DEADLINE = 300
EXHAUSTIVE = {"quick": False, "thorough": False}
RULE = ("specs = the harness's own AST (vlib.models_c08): (a) 'enum' = EVERY spec with <=2 inputs of rank<=2 over "
        "index names i,j,k (each axis a name or ':'), every ordered output index tuple containing the used names "
        "(further names = output-only axes), 1 or 2 outputs; each checked over ALL external shapes with sizes 1..smax "
        "(quick 3, thorough 4) and ALL linear indices; (b) 'rand' = seeded random specs with <=3 inputs, <=2 outputs, "
        "rank<=3 (output rank<=4), 4 index names, ':' axes, scoped names, over sampled shapes with sizes 1..4 and all "
        "linear indices; every spec is built through the constructor and through text (canonical + random legal "
        "whitespace), every malformation operator is applied to it (constructor route and text route), rename / "
        "add_axes are compared with the renamed / extended AST incl. its denotation; (c) 'text' = seeded mutations "
        "of spec text (bad names, stray words, character edits, arrows, brackets, newlines) classified by the "
        "harness's own strict reader; (d) 'sets' = 2-3 specs sharing arrays for validate_consistent_axes / "
        "mapspec_axes. non-trivial = well-formed spec; distinct = distinct canonical spec text")
ASSUMPTIONS = ["oracle = vlib.models_c08 (own printer, strict reader, row-major positions via itertools.product, own "
               "shape/key/rename/add_axes/axes models); str.isidentifier is trusted as the definition of identifier",
               "'rejected' = any exception from ArraySpec(...) / MapSpec(...) / MapSpec.from_string",
               "text the strict reader cannot classify as well-formed or as one of the property's malformation classes "
               "carries only the weak demand: raise, or return the spec the text spells (dropped punctuation there is "
               "counted, not judged)",
               "mapspec_axes is compared only on consistent sets in which every array position is named by some spec",
               "generator domain: distinct array names, no index twice in an array, rank >= 1"]

ENUM_CHUNK = 24
RAND_BATCH = 60
TEXT_BATCH = 250
SETS_BATCH = 150

FIXED_TEXTS = ["x-y[i] -> z[i]", "a.b.c[i] -> z[i]", " x [i] -> y[i]", "x[i,\nj] -> y[i, j]", "-x[i] -> y[i]",
               "'x[i] -> y[i]'", "x[i] -> y[i], z[i, :]", "x[i] -> y[i], z[:, i]", "[i] -> y[i]", "x[] -> y[i]",
               "a[i], x[] -> y[i]", "x[i] -> y[i] z", "x[i] y[j] -> z[i, j]", "x[i], -> y[i]", "x[i]] -> y[i]"]


def plan(tier, seed):
    n_enum = len(M.enumerate_small())
    smax = 4
    descs = [{"kind": "fixed"}]
    descs += [{"kind": "threads", "seed": seed, "batch": b} for b in range(8 if tier == "quick" else 32)]
    descs += [{"kind": "enum", "lo": lo, "hi": min(lo + ENUM_CHUNK, n_enum), "smax": smax, "seed": seed}
              for lo in range(0, n_enum, ENUM_CHUNK)]
    n_rand = 12000 if tier == "quick" else 120000
    n_text = 60000 if tier == "quick" else 600000
    n_sets = 15000 if tier == "quick" else 150000
    nshapes = 6 if tier == "quick" else 12
    descs += [{"kind": "rand", "seed": seed, "batch": b, "n": RAND_BATCH, "nshapes": nshapes}
              for b in range(n_rand // RAND_BATCH)]
    descs += [{"kind": "text", "seed": seed, "batch": b, "n": TEXT_BATCH} for b in range(n_text // TEXT_BATCH)]
    descs += [{"kind": "sets", "seed": seed, "batch": b, "n": SETS_BATCH} for b in range(n_sets // SETS_BATCH)]
    return descs


# ---------------------------------------------------------------- building through the public API


def build(ast):
    from pipefunc.map import MapSpec
    from pipefunc.map._mapspec import ArraySpec

    return MapSpec(tuple(ArraySpec(n, tuple(ax)) for n, ax in ast["ins"]),
                   tuple(ArraySpec(n, tuple(ax)) for n, ax in ast["outs"]))


def parse(text):
    from pipefunc.map import MapSpec

    return MapSpec.from_string(text)


# ---------------------------------------------------------------- checks on one well-formed spec


def check_build_and_roundtrip(v, ast, rng, n_ws):
    """Constructor route, text route, printing, round trip.  Returns the constructed spec or None."""
    text = M.render(ast)
    try:
        m = build(ast)
    except Exception as e:  # noqa: BLE001
        v.bad(exc_sig(e, "refused-wellformed:ctor"), f"well-formed spec refused by the constructor: {exc_msg(e)}",
              spec=text)
        return None
    v.count("built_ctor")
    try:
        printed = str(m)
        if m.to_string() != printed:
            v.bad("print:to_string-differs-from-str", f"to_string() {m.to_string()!r} != str() {printed!r}", spec=text)
    except Exception as e:  # noqa: BLE001
        v.bad(exc_sig(e, "print"), f"str(m) raised: {exc_msg(e)}", spec=text)
        return None
    if M.norm(printed) != M.norm(text):
        v.bad("print:differs-from-ast", f"str(m) = {printed!r}, the spec is {text!r}", spec=text)
    v.count("printed")
    # round trip of the printed form
    try:
        back = parse(printed)
        v.count("roundtrip_str")
        if not (back == m and m == back):
            v.bad("roundtrip:unequal/printed", f"from_string(str(m)) = {str(back)!r} != m = {printed!r}", spec=text)
    except Exception as e:  # noqa: BLE001
        v.bad(exc_sig(e, "refused-wellformed:from_string") + "/printed",
              f"from_string(str(m)) raised for {printed!r}: {exc_msg(e)}", spec=text)
    # text route: canonical, compact and random legal whitespace
    variants = [("canonical", text), ("compact", M.norm(text))] + [("whitespace", M.render_ws(ast, rng)) for _ in range(n_ws)]
    for tag, t in variants:
        try:
            mt = parse(t)
        except Exception as e:  # noqa: BLE001
            v.bad(exc_sig(e, "refused-wellformed:from_string") + f"/{tag}",
                  f"well-formed text {t!r} refused: {exc_msg(e)}", spec=text, text=t)
            continue
        v.count(f"parsed_{tag}")
        if not (mt == m and m == mt):
            lost = M.words(t) != M.words(str(mt))
            v.bad(f"ctor-vs-text:unequal/{tag}" + ("/text-dropped" if lost else ""),
                  f"from_string({t!r}) = {str(mt)!r} but the constructor gives {printed!r}", spec=text, text=t)
    return m


def sizes_for(ast, S, salt):
    """Input shapes / internal shape that realise the external shape S (sizes of ':' and output-only axes vary
    with `salt`)."""
    ext = M.external(ast)
    size = dict(zip(ext, S))
    shapes = {}
    c = salt
    for n, ax in ast["ins"]:
        shp = []
        for a in ax:
            if a is None:
                c += 1
                shp.append(1 + c % 4)
            else:
                shp.append(size[a])
        shapes[n] = tuple(shp)
    ish = tuple(1 + (salt + 2 * q) % 4 for q in range(len(M.internal(ast))))
    return shapes, ish


def call_shape(m, ast, shapes, ish, salt=0):
    names = [n for n, _ in ast["outs"]]
    if ish:
        internal = {n: ish for n in names} if salt % 3 else {names[0]: ish}
    else:
        internal = [None, {}, None][salt % 3]
    return m.shape(dict(shapes), internal)


def check_shape(v, m, ast, S, salt, text, mismatches):
    shapes, ish = sizes_for(ast, S, salt)
    exp = M.model_shape(ast, shapes, ish)
    assert exp[0] == "ok", (ast, shapes)
    cls = "with-output-only-axis" if ish else "external-only"
    try:
        got = call_shape(m, ast, shapes, ish, salt)
    except Exception as e:  # noqa: BLE001
        v.bad(exc_sig(e, "shape:refused-valid") + f"/{cls}", f"shape({shapes}, {ish}) raised: {exc_msg(e)}", spec=text)
        return
    v.count("shape_ok_compared")
    try:
        gs, gm = got
        gs, gm = tuple(gs), tuple(gm)
    except Exception:  # noqa: BLE001
        v.bad("shape:malformed-result", f"shape() returned {got!r}", spec=text)
        return
    if gs != exp[1]:
        v.bad(f"shape:wrong-shape/{cls}", f"shape({shapes}, internal {ish}) = {gs}, expected {exp[1]}", spec=text)
    if gm != exp[2]:
        v.bad(f"shape:wrong-mask/{cls}", f"mask {gm}, expected {exp[2]}", spec=text)
    if not mismatches:
        return
    # rank mismatches: every input once with an extra and once with a missing dimension
    for n, ax in ast["ins"]:
        for tag, bad in (("extra-dim", shapes[n] + (2,)), ("missing-dim", shapes[n][:-1])):
            sh = dict(shapes)
            sh[n] = bad
            assert M.model_shape(ast, sh, ish) == ("raise", "rank")
            try:
                r = call_shape(m, ast, sh, ish, salt)
            except Exception:  # noqa: BLE001
                v.count("shape_rank_mismatch_raised")
                continue
            v.bad(f"shape:accepted-rank-mismatch/{tag}",
                  f"shape({sh}) returned {r!r} although `{M.render_array(n, ax)}` has rank {len(ax)}", spec=text)
    # zipped-dimension mismatch: an index carried by >= 2 inputs, one of them resized
    for a in M.external(ast):
        carriers = [(n, ax) for n, ax in ast["ins"] if a in ax]
        if len(carriers) < 2:
            continue
        for which, (n, ax) in enumerate(carriers):
            sh = dict(shapes)
            lst = list(sh[n])
            lst[ax.index(a)] += 1 + salt % 2
            sh[n] = tuple(lst)
            assert M.model_shape(ast, sh, ish) == ("raise", "zip")
            try:
                r = call_shape(m, ast, sh, ish, salt)
            except Exception:  # noqa: BLE001
                v.count("shape_zip_mismatch_raised")
                continue
            pos = "first" if which == 0 else ("last" if which == len(carriers) - 1 else "middle")
            v.bad(f"shape:accepted-zip-mismatch/{pos}-carrier-resized-of-{len(carriers)}",
                  f"shape({sh}) returned {r!r} although `{a}` has different sizes in {[c[0] for c in carriers]}",
                  spec=text)


def check_keys(v, m, ast, S, text):
    """output_key is the row-major bijection, input_keys equals the model, for every linear index of S."""
    pos = M.positions(S)
    N = len(pos)
    try:
        got = [m.output_key(S, n) for n in range(N)]
    except Exception as e:  # noqa: BLE001
        v.bad(exc_sig(e, "output_key:raised"), f"output_key({S}, n) raised: {exc_msg(e)}", spec=text)
        got = None
    if got is not None:
        v.count("output_key_compared", N)
        if [tuple(g) if isinstance(g, (tuple, list)) else g for g in got] != pos:
            if sorted(map(repr, got)) == sorted(map(repr, pos)):
                kind = "bijection-but-not-row-major"
            elif len(set(map(repr, got))) < N:
                kind = "not-injective"
            else:
                kind = "positions-outside-shape"
            bad_n = next(n for n in range(N) if tuple(got[n]) != pos[n])
            v.bad(f"output_key:wrong/{kind}", f"output_key({S}, {bad_n}) = {got[bad_n]!r}, expected {pos[bad_n]}",
                  spec=text, shape=list(S))
    templ = M.key_templates(ast)
    try:
        for n in range(N):
            exp = M.model_input_keys(templ, pos[n])
            g = m.input_keys(S, n)
            if g != exp:
                if not isinstance(g, dict) or set(g) != set(exp):
                    kind = "wrong-names"
                else:
                    kinds = set()
                    for name, ps in templ:
                        gk = g[name]
                        if not isinstance(gk, tuple) or len(gk) != len(ps):
                            kinds.add("wrong-rank")
                            continue
                        for p, x, e_ in zip(ps, gk, exp[name]):
                            if x != e_ or isinstance(x, slice) != isinstance(e_, slice):
                                kinds.add("colon-axis" if p is None else "named-axis")
                    kind = "+".join(sorted(kinds))
                v.bad(f"input_keys:wrong/{kind}", f"input_keys({S}, {n}) = {g!r}, expected {exp!r}", spec=text,
                      shape=list(S))
                break
            if n % 3 == 0 and isinstance(g, dict) and g:
                # the caller owns what it got (it may pop inputs it has loaded): asking again - also through an equal MapSpec
                # built from the text - gives the full answer again
                g.pop(next(iter(g)))
                g["<added by the caller>"] = 0
                g2 = (m if n % 2 else type(m).from_string(str(m))).input_keys(S, n)
                v.count("input_keys_asked_again_after_mutating_the_answer")
                if g2 != exp:
                    v.bad("input_keys:changed-by-mutating-an-earlier-answer", f"input_keys({S}, {n}) = {g2!r} after the dict returned before was "
                          f"changed by the caller; expected {exp!r}", spec=text, shape=list(S))
                    break
        v.count("input_keys_compared", N)
    except Exception as e:  # noqa: BLE001
        v.bad(exc_sig(e, "input_keys:raised"), f"input_keys({S}, n) raised: {exc_msg(e)}", spec=text)


def check_threads(v, rng, n_threads=6, seconds=4.0):
    """output_key / input_keys are functions of (spec, shape, index) also when several threads ask for DIFFERENT shapes at
    the same time (independent map nodes under a thread executor do)."""
    import sys
    import threading
    import time

    from pipefunc.map._mapspec import MapSpec

    specs = [("a[i, j, k] -> y[i, j, k]", (2, 3, 4)), ("a[i, j] -> y[i, j]", (5, 2)), ("a[i, j, k] -> y[i, j, k]", (4, 2, 3)), ("a[i] -> y[i]", (7,)),
             ("a[i, j] -> y[i, j]", (3, 5)), ("a[i, j, k] -> y[i, j, k]", (3, 3, 2))]
    rng.shuffle(specs)
    specs = specs[:n_threads]
    bad, counts = [], [0] * n_threads
    stop = time.monotonic() + seconds
    old = sys.getswitchinterval()
    sys.setswitchinterval(1e-6)

    def work(t):
        text, S = specs[t]
        m = MapSpec.from_string(text)
        pos = M.positions(S)
        names = [chr(ord("i") + d) for d in range(len(S))]
        while time.monotonic() < stop and not bad:
            for n, p in enumerate(pos):
                k = m.output_key(S, n)
                if tuple(k) != p:
                    bad.append((text, S, n, "output_key", k, p))
                    return
                g = m.input_keys(S, n)
                if g != {"a": p}:
                    bad.append((text, S, n, "input_keys", g, {"a": p}))
                    return
            counts[t] += len(pos)
        del names
    try:
        ths = [threading.Thread(target=work, args=(t,)) for t in range(n_threads)]
        for th in ths:
            th.start()
        for th in ths:
            th.join()
    finally:
        sys.setswitchinterval(old)
    v.count("keys_compared_under_concurrent_threads", sum(counts))
    v.count("thread_stress_rounds")
    if bad:
        text, S, n, what, got, exp = bad[0]
        v.bad(f"{what}:wrong/under-concurrent-threads", f"{what}({S}, {n}) = {got!r}, expected {exp!r}, while other threads asked for other shapes",
              spec=text, shape=list(S), other_specs=[x for x, _ in specs])


def check_malformations(v, ast, rng, text):
    """Every malformation operator once, through the constructor and through text: must be rejected."""
    for op in M.MALFORM_OPS:
        var, bad = M.malform(ast, op, rng)
        reason = M.malformation(bad)
        assert reason is not None, (op, var, bad)
        reason = M.detail(bad, reason)
        btext = M.render(bad)
        # route 1: constructor
        try:
            r = build(bad)
        except Exception:  # noqa: BLE001
            v.count(f"rejected_ctor_{op}")
        else:
            v.bad(f"accepted-malformed:ctor/{reason}",
                  f"constructor accepted the malformed spec {btext!r} as {str(r)!r} (operator {op}/{var})",
                  spec=text, malformed=btext)
        # route 2: text
        judge_text(v, btext, origin=f"ast-op:{op}/{var}", must="malformed")


def judge_text(v, s, origin, must=None):
    """The text oracle (see ASSUMPTIONS)."""
    cls, info = M.classify(s)
    assert must is None or cls == must, (s, cls, info)
    base = info.split("/")[0] if cls == "malformed" else ""
    try:
        got = parse(s)
    except Exception as e:  # noqa: BLE001
        if cls == "well":
            v.bad(exc_sig(e, "refused-wellformed:from_string") + "/mutated-but-wellformed",
                  f"well-formed text {s!r} refused: {exc_msg(e)}", text=s, origin=origin)
        else:
            v.count(f"text_rejected_{cls}")
            if cls == "malformed":
                v.count(f"rejected_text_{base}")
        return
    try:
        printed = str(got)
    except Exception as e:  # noqa: BLE001
        v.bad(exc_sig(e, "print"), f"str(from_string({s!r})) raised: {exc_msg(e)}", text=s)
        return
    faithful = M.norm(printed) == M.norm(s)
    if not faithful:
        if M.words(printed) != M.words(s):
            v.bad("from_string:silently-different-spec/word-text-dropped",
                  f"from_string({s!r}) returned {printed!r}: text was ignored", text=s, origin=origin, why=info if cls != "well" else "")
        elif cls == "malformed":
            v.bad(f"accepted-malformed:from_string/{info}/punctuation-dropped",
                  f"from_string({s!r}) returned {printed!r}: a non-identifier name was accepted by dropping its "
                  f"punctuation", text=s, origin=origin)
        elif cls == "well":
            v.bad("from_string:silently-different-spec/punctuation-only/well",
                  f"from_string({s!r}) returned {printed!r}", text=s, origin=origin)
        else:
            v.count("text_other_stray_punctuation_tolerated")
        return
    if cls == "malformed":
        v.bad(f"accepted-malformed:from_string/{info}",
              f"from_string accepted the malformed text {s!r} as {printed!r}", text=s, origin=origin)
        return
    if cls == "well":
        v.count("text_wellformed_accepted")
        try:
            ref = build(info)
        except Exception as e:  # noqa: BLE001
            v.bad(exc_sig(e, "refused-wellformed:ctor"), f"well-formed spec {s!r} refused by the constructor: {exc_msg(e)}",
                  text=s)
            return
        if not (ref == got and got == ref):
            v.bad("ctor-vs-text:unequal/mutated-but-wellformed", f"from_string({s!r}) = {printed!r} != constructor", text=s)
    else:
        v.count("text_other_faithful")


def check_rename_add_axes(v, m, ast, rng, text):
    arrays = [n for n, _ in ast["ins"] + ast["outs"]]
    fresh = [n for n in ["r0", "new.r1", "r_2", "q.q", "zz"] if n not in arrays]
    before = str(m)
    # ---- rename
    mode = rng.choice(["some", "all", "swap", "none", "some"])
    if mode == "some":
        ks = rng.sample(arrays, rng.randint(1, len(arrays)))[: len(fresh)]
        ren = dict(zip(ks, fresh))
    elif mode == "all":
        ren = dict(zip(arrays[: len(fresh)], fresh))
    elif mode == "swap" and len(arrays) >= 2:
        a, b = rng.sample(arrays, 2)
        ren = {a: b, b: a}
    else:
        mode = "none"
        ren = {}
    ren["unrelated_name"] = "whatever"
    exp_ast = M.model_rename(ast, ren)
    assert M.malformation(exp_ast) is None and M.in_domain(exp_ast)
    try:
        r = m.rename(dict(ren))
    except Exception as e:  # noqa: BLE001
        v.bad(exc_sig(e, "rename:raised") + f"/{mode}", f"rename({ren}) raised: {exc_msg(e)}", spec=text)
        r = None
    if r is not None:
        v.count(f"rename_{mode}_compared")
        try:
            ref = build(exp_ast)
            if not (r == ref and ref == r) or M.norm(str(r)) != M.norm(M.render(exp_ast)):
                v.bad(f"rename:wrong-spec/{mode}", f"rename({ren}) = {str(r)!r}, expected {M.render(exp_ast)!r}", spec=text)
            elif mode != "none":
                rt = parse(str(r))
                if rt != r:
                    v.bad("rename:result-does-not-roundtrip", f"{str(r)!r} -> {str(rt)!r}", spec=text)
                S = tuple(rng.randint(1, 3) for _ in M.external(exp_ast))
                check_shape(v, r, exp_ast, S, rng.randrange(12), text + " |renamed", mismatches=False)
                check_keys(v, r, exp_ast, S, text + " |renamed")
        except Exception as e:  # noqa: BLE001
            v.bad(exc_sig(e, "rename:result-unusable"), f"after rename({ren}): {exc_msg(e)}", spec=text)
        if str(m) != before:
            v.bad("rename:mutated-receiver", f"receiver printed {before!r}, now prints {str(m)!r}", spec=text)
    # ---- add_axes with new names
    used = {a for _, ax in ast["ins"] + ast["outs"] for a in M.named(ax)}
    new_pool = [c for c in ["n", "m", "ax_9", "w"] if c not in used]
    new = new_pool[: rng.choice([1, 1, 2])]
    exp_ast = M.model_add_axes(ast, new)
    assert M.malformation(exp_ast) is None and M.in_domain(exp_ast)
    try:
        r = m.add_axes(*new)
    except Exception as e:  # noqa: BLE001
        v.bad(exc_sig(e, "add_axes:raised"), f"add_axes{tuple(new)} raised: {exc_msg(e)}", spec=text)
        r = None
    if r is not None:
        v.count("add_axes_new_compared")
        try:
            ref = build(exp_ast)
            if not (r == ref and ref == r) or M.norm(str(r)) != M.norm(M.render(exp_ast)):
                v.bad("add_axes:wrong-spec", f"add_axes{tuple(new)} = {str(r)!r}, expected {M.render(exp_ast)!r}", spec=text)
            else:
                rt = parse(str(r))
                if rt != r:
                    v.bad("add_axes:result-does-not-roundtrip", f"{str(r)!r} -> {str(rt)!r}", spec=text)
                # the added names are carried by every input (if any), so they are external axes then
                S = tuple(rng.randint(1, 3) for _ in M.external(exp_ast))
                check_shape(v, r, exp_ast, S, rng.randrange(12), text + f" |add_axes{tuple(new)}", mismatches=False)
                check_keys(v, r, exp_ast, S, text + f" |add_axes{tuple(new)}")
        except Exception as e:  # noqa: BLE001
            v.bad(exc_sig(e, "add_axes:result-unusable"), f"after add_axes{tuple(new)}: {exc_msg(e)}", spec=text)
        if str(m) != before:
            v.bad("add_axes:mutated-receiver", f"receiver printed {before!r}, now prints {str(m)!r}", spec=text)
    # ---- add_axes with an existing name / with ':' must raise
    existing = rng.choice(M.out_axes(ast))
    for tag, args in (("existing", (existing,)), ("new+existing", (new[0], existing)), ("existing+new", (existing, new[0])),
                      ("colon", (None,))):
        try:
            r = m.add_axes(*args)
        except Exception:  # noqa: BLE001
            v.count(f"add_axes_{tag}_raised")
            continue
        where = "also-in-inputs" if existing in M.external(ast) else "output-only"
        v.bad(f"add_axes:accepted-{tag}" + (f"/{where}" if tag != "colon" else ""),
              f"add_axes{args} returned {str(r)!r}", spec=text)


def check_wellformed(v, ast, rng, shapes, n_ws, keys):
    text = M.render(ast)
    assert M.malformation(ast) is None and M.in_domain(ast), ast
    keys.append(text)
    if ast["ins"]:
        v.classes.add(f"inputs_{len(ast['ins'])}")
    else:
        v.classes.add("no_inputs")
    if len(ast["outs"]) == 2:
        v.classes.add("two_outputs")
    if M.internal(ast):
        v.classes.add("output_only_axis")
    if any(a is None for _, ax in ast["ins"] for a in ax):
        v.classes.add("colon_axis")
    if any("." in n for n, _ in ast["ins"] + ast["outs"]):
        v.classes.add("scoped_name")
    if any(len([1 for _, ax in ast["ins"] if a in ax]) >= 2 for a in M.external(ast)):
        v.classes.add("zipped_index")
    if M.external(ast) != [a for a in sorted(M.external(ast))]:
        v.classes.add("external_not_sorted")
    m = check_build_and_roundtrip(v, ast, rng, n_ws)
    if m is None:
        return
    for k, S in enumerate(shapes):
        check_shape(v, m, ast, S, k + len(text), text, mismatches=(k % 7 == 0))
        check_keys(v, m, ast, S, text)
    v.count("shapes_explored", len(shapes))
    check_malformations(v, ast, rng, text)
    check_rename_add_axes(v, m, ast, rng, text)
    v.count("wellformed_specs")


# ---------------------------------------------------------------- sets of specs


def check_set(v, rng):
    from pipefunc.map._mapspec import mapspec_axes, validate_consistent_axes

    asts, tags = M.random_spec_set(rng)
    for a in asts:
        if M.malformation(a) is not None:
            v.count("sets_skipped_malformed_member")
            return None
    texts = [M.render(a) for a in asts]
    try:
        ms = [build(a) if rng.random() < 0.5 else parse(M.render(a)) for a in asts]
    except Exception as e:  # noqa: BLE001
        v.bad(exc_sig(e, "refused-wellformed:set-member"), f"{texts}: {exc_msg(e)}", specs=texts)
        return None
    why = M.model_consistency(asts)
    order = list(range(len(ms)))
    if rng.random() < 0.5:
        order.reverse()
    arg = [ms[i] for i in order]
    try:
        validate_consistent_axes(list(arg))
        raised = None
    except Exception as e:  # noqa: BLE001
        raised = e
    if why is None:
        v.count("sets_consistent")
        if raised is not None:
            v.bad(exc_sig(raised, "validate_consistent_axes:refused-consistent"),
                  f"{texts} are consistent but: {exc_msg(raised)}", specs=texts)
        exp = M.model_axes([asts[i] for i in order])
        try:
            got = mapspec_axes(list(arg))
        except Exception as e:  # noqa: BLE001
            if exp is None:
                v.count("mapspec_axes_unnamed_position_raised_not_judged")
            else:
                v.bad(exc_sig(e, "mapspec_axes:raised"), f"{texts}: {exc_msg(e)}", specs=texts)
            return "consistent"
        if exp is None:
            v.count("mapspec_axes_unnamed_position_returned_not_judged")
        else:
            v.count("mapspec_axes_compared")
            if not isinstance(got, dict) or {k: tuple(x) for k, x in got.items()} != exp:
                kind = "names" if not isinstance(got, dict) or set(got) != set(exp) else "axes"
                v.bad(f"mapspec_axes:wrong/{kind}", f"mapspec_axes({texts}) = {got!r}, expected {exp!r}", specs=texts)
        return "consistent"
    v.count(f"sets_inconsistent_{why}")
    if raised is None:
        v.bad(f"validate_consistent_axes:accepted-inconsistent/{why}",
              f"{[texts[i] for i in order]} use one array with different {why}s but were accepted", specs=texts)
    else:
        v.count("sets_inconsistent_rejected")
    return why


# ---------------------------------------------------------------- run_case


def all_shapes(rank, smax):
    return list(itertools.product(range(1, smax + 1), repeat=rank))


def sample_shapes(rng, rank, n):
    if rank == 0:
        return [()]
    if 4 ** rank <= n:
        return all_shapes(rank, 4)
    out = set()
    while len(out) < n:
        if rank >= 2 and rng.random() < 0.7:
            s = tuple(rng.sample([1, 2, 3, 4], rank)) if rank <= 4 else None
        else:
            s = tuple(rng.randint(1, 4) for _ in range(rank))
        out.add(s)
    return sorted(out)


def run_case(desc):
    v = V()
    keys = []
    sample = None
    kind = desc["kind"]
    if kind == "fixed":
        for s in FIXED_TEXTS:
            judge_text(v, s, origin="fixed")
            v.count("fixed_texts")
        return v.result(keys=[], sample=None)
    if kind == "threads":
        check_threads(v, random.Random(f"c08-threads-{desc['seed']}-{desc['batch']}"))
        return v.result(keys=[], sample=None)
    if kind == "enum":
        specs = M.enumerate_small()
        for i in range(desc["lo"], desc["hi"]):
            ast = specs[i]
            rng = random.Random(f"c08-enum-{desc['seed']}-{i}")
            shapes = all_shapes(len(M.external(ast)), desc["smax"])
            check_wellformed(v, ast, rng, shapes, 2, keys)
            v.count("enum_specs")
        if desc["lo"] in (ENUM_CHUNK * 40, ENUM_CHUNK * 160):
            ast = specs[desc["hi"] - 1]
            S = all_shapes(len(M.external(ast)), desc["smax"])[-1]
            sample = {"kind": "enum", "spec": M.render(ast), "shapes_checked": len(all_shapes(len(M.external(ast)), desc["smax"])),
                      "last_shape": list(S), "row_major_positions_head": [list(p) for p in M.positions(S)[:5]],
                      "expected_input_keys_last": repr(M.model_input_keys(M.key_templates(ast), M.positions(S)[-1]))}
    elif kind == "rand":
        rng = random.Random(f"c08-rand-{desc['seed']}-{desc['batch']}")
        for j in range(desc["n"]):
            ast = M.random_spec(rng)
            shapes = sample_shapes(rng, len(M.external(ast)), desc["nshapes"])
            check_wellformed(v, ast, rng, shapes, 4, keys)
            v.count("rand_specs")
        if desc["batch"] == 0:
            sample = {"kind": "rand", "spec": M.render(ast), "whitespace_variant": M.render_ws(ast, rng),
                      "shapes": [list(s) for s in shapes]}
    elif kind == "text":
        rng = random.Random(f"c08-text-{desc['seed']}-{desc['batch']}")
        ex = []
        for j in range(desc["n"]):
            ast = M.random_spec(rng)
            base = M.render(ast) if rng.random() < 0.6 else M.render_ws(ast, rng)
            op, s = M.mutate_text(rng, ast, base)
            if rng.random() < 0.15:
                op2, s = M.mutate_text(rng, ast, s) if len(s) > 3 else (op, s)
            cls, info = M.classify(s)
            v.count(f"text_mut_{op}")
            v.count(f"text_class_{cls}")
            if cls == "malformed":
                v.count(f"text_class_malformed_{info.split('/')[0]}")
            judge_text(v, s, origin=f"text-op:{op}")
            if j < 3:
                ex.append({"op": op, "text": s, "class": cls, "info": info if cls != "well" else ""})
        if desc["batch"] in (0, 1):
            sample = {"kind": "text", "examples": ex}
    elif kind == "sets":
        rng = random.Random(f"c08-sets-{desc['seed']}-{desc['batch']}")
        for j in range(desc["n"]):
            verdict = check_set(v, rng)
            v.count("spec_sets")
        if desc["batch"] == 0:
            rng2 = random.Random("c08-sets-sample")
            asts, tags = M.random_spec_set(rng2)
            sample = {"kind": "sets", "specs": [M.render(a) for a in asts], "reuse_variants": tags,
                      "model_inconsistency": M.model_consistency(asts), "model_axes": repr(M.model_axes(asts))}
    else:
        raise ValueError(kind)
    return v.result(keys=keys, sample=sample)


def finalize(agg, tier, seed):
    floors = []
    c = agg.counters
    q = tier == "quick"

    def need(key, n):
        if c.get(key, 0) < n:
            floors.append(f"{key}={c.get(key, 0)} (< {n})")

    n_enum = len(M.enumerate_small())
    if c.get("enum_specs", 0) != n_enum:
        floors.append(f"enumeration incomplete: {c.get('enum_specs', 0)} of {n_enum} small specs checked")
    if len(agg.keys) < (n_enum + (2000 if q else 15000)):
        floors.append(f"only {len(agg.keys)} distinct well-formed specs")
    need("keys_compared_under_concurrent_threads", 20_000 if q else 200_000)
    need("input_keys_asked_again_after_mutating_the_answer", 50_000 if q else 500_000)
    need("output_key_compared", 500_000 if q else 5_000_000)
    need("input_keys_compared", 500_000 if q else 5_000_000)
    need("shape_ok_compared", 100_000 if q else 500_000)
    need("shape_rank_mismatch_raised", 20_000)
    need("shape_zip_mismatch_raised", 2_000)
    need("roundtrip_str", 10_000)
    need("parsed_whitespace", 30_000)
    for op in M.MALFORM_OPS:
        need(f"rejected_ctor_{op}", 5_000)
    for r in ["bad-index-name", "unused-index", "outputs-differ"]:
        need(f"rejected_text_{r}", 3_000)
    for k in ["rename_some_compared", "rename_all_compared", "rename_swap_compared", "rename_none_compared"]:
        need(k, 500)
    need("add_axes_new_compared", 10_000)
    need("add_axes_existing_raised", 10_000)
    need("text_class_malformed", 3_000 if q else 30_000)
    need("text_class_other", 3_000 if q else 30_000)
    need("text_class_well", 500 if q else 5_000)
    need("sets_consistent", 1_000)
    need("sets_inconsistent_rank", 300)
    need("sets_inconsistent_name", 300)
    need("mapspec_axes_compared", 500)
    for cl in ["no_inputs", "inputs_1", "inputs_2", "inputs_3", "two_outputs", "output_only_axis", "colon_axis",
               "scoped_name", "zipped_index", "external_not_sorted"]:
        if agg.classes.get(cl, 0) < 20:
            floors.append(f"structural class {cl} in only {agg.classes.get(cl, 0)} batches (< 20)")
    extra = {"enumerated_small_specs": n_enum,
             "note": "counters named *_not_judged / *_tolerated are observations outside the property's demands"}
    return floors, extra
