"""C01 - Map results equal the MapSpec denotation (DESIGN 4/C01)."""
from __future__ import annotations

import os

import numpy as np

from vlib import mapgen, probes
from vlib.util import V, exc_msg, exc_sig, multiset_diff, quiet, tmpdir

PROPERTY = "C01"
LEVEL = "exploration"
DEADLINE = 120
RULE = ("cases = own MapSpec AST generator (vlib.mapgen: 1..4 probe functions, rank<=3 arrays, axis sizes 1..3, "
        "zip/outer/partial ':'/full ':'/whole args, internal axes at any position, generator functions, tuple "
        "outputs, functions without MapSpec incl. array-returning ones whose MapSpec pipefunc autogenerates, list vs ndarray inputs) from VERIF_SEED, plus a fixed list of "
        "structural regression shapes; each run sequentially under file_array / dict / shared_memory_dict / "
        "per-output mixes; every third generated case additionally repeats the map with cleanup=False after a first run that was "
        "cut short by a fault in one invocation; every third one maps the same pipeline object twice into the same folder (other "
        "input values first) with one invocation returning None; numeric int64 input arrays for a quarter of the cases; first runs cut short by a fault in one invocation (a raise, or an unstorable last output of a tuple-output function); non-trivial = some MapSpec function with >=2 external elements, a ':' reduction or an "
        "internal axis; distinct = distinct (MapSpec strings, internal shapes, input shapes and kinds)")
ASSUMPTIONS = ["oracle is the denotation of the harness's own AST (vlib.mapgen.oracle); never imports pipefunc",
               "probe functions return term strings, so equality of renderings is equality of call trees",
               "zarr storages are not registered in this image (zarr shim), see DESIGN section 2"]

STORAGES = ["file_array", "dict", "shared_memory_dict", "mix"]

FIXED = [
    # structural regression shapes (DESIGN C01)
    {"sizes": {"i": 2, "j": 3, "k": 2, "l": 1}, "roots": {"x0": {"axes": ["i"], "kind": "list"}},
     "funcs": [{"name": "f0", "params": ["x0"], "outs": ["y0"], "mapspec": "x0[i] -> y0[j, i]", "modes": {"x0": ["i"]},
                "out_axes": ["j", "i"], "internal": ["j"], "internal_shape": [3], "ret_list": False, "ishape_via": "pipefunc"}]},
    {"sizes": {"i": 2, "j": 3, "k": 2, "l": 1}, "roots": {"x0": {"axes": ["i", "k"], "kind": "ndarray"}},
     "funcs": [{"name": "f0", "params": ["x0"], "outs": ["y0"], "mapspec": "x0[i, k] -> y0[i, j, k]", "modes": {"x0": ["i", "k"]},
                "out_axes": ["i", "j", "k"], "internal": ["j"], "internal_shape": [3], "ret_list": True, "ishape_via": "map"}]},
    {"sizes": {"i": 2, "j": 3, "k": 2, "l": 1}, "roots": {"x0": {"axes": ["i"], "kind": "ndarray"}},
     "funcs": [{"name": "f0", "params": ["x0"], "outs": ["y0"], "mapspec": "x0[i] -> y0[i, j]", "modes": {"x0": ["i"]},
                "out_axes": ["i", "j"], "internal": ["j"], "internal_shape": [3], "ret_list": False, "ishape_via": "pipefunc"}]},
    {"sizes": {"i": 3, "j": 2, "k": 2, "l": 1}, "roots": {"x0": {"axes": ["i"], "kind": "list"}},
     "funcs": [{"name": "f0", "params": ["x0"], "outs": ["y0_0", "y0_1"], "mapspec": "x0[i] -> y0_0[i], y0_1[i]", "modes": {"x0": ["i"]},
                "out_axes": ["i"], "internal": [], "internal_shape": [], "ret_list": False, "ishape_via": None},
               {"name": "f1", "params": ["y0_0"], "outs": ["y1"], "mapspec": "y0_0[:] -> y1[k]", "modes": {"y0_0": [None]},
                "out_axes": ["k"], "internal": ["k"], "internal_shape": [2], "ret_list": False, "ishape_via": "pipefunc"}]},
    {"sizes": {"i": 2, "j": 2, "k": 2, "l": 1}, "roots": {"x0": {"axes": [], "kind": "scalar"}},
     "funcs": [{"name": "f0", "params": ["x0"], "outs": ["y0_0", "y0_1"], "mapspec": "... -> y0_0[j], y0_1[j]", "modes": {"x0": "whole"},
                "out_axes": ["j"], "internal": ["j"], "internal_shape": [2], "ret_list": True, "ishape_via": "pipefunc"},
               {"name": "f1", "params": ["y0_1"], "outs": ["y1"], "mapspec": "y0_1[j] -> y1[j]", "modes": {"y0_1": ["j"]},
                "out_axes": ["j"], "internal": [], "internal_shape": [], "ret_list": False, "ishape_via": None}]},
    {"sizes": {"i": 3, "j": 2, "k": 2, "l": 1}, "roots": {"x0": {"axes": ["i"], "kind": "ndarray"}},
     "funcs": [{"name": "f0", "params": ["x0"], "outs": ["y0"], "mapspec": "x0[:] -> y0[k]", "modes": {"x0": [None]},
                "out_axes": ["k"], "internal": ["k"], "internal_shape": [2], "ret_list": False, "ishape_via": "pipefunc"}]},
    {"sizes": {"i": 2, "j": 3, "k": 2, "l": 1}, "roots": {"x0": {"axes": ["i", "j"], "kind": "ndarray"}},
     "funcs": [{"name": "f0", "params": ["x0"], "outs": ["y0_0", "y0_1"], "mapspec": "x0[i, j] -> y0_0[j, i], y0_1[j, i]", "modes": {"x0": ["i", "j"]},
                "out_axes": ["j", "i"], "internal": [], "internal_shape": [], "ret_list": False, "ishape_via": None},
               {"name": "f1", "params": ["y0_0"], "outs": ["y1"], "mapspec": "y0_0[j, :] -> y1[j]", "modes": {"y0_0": ["j", None]},
                "out_axes": ["j"], "internal": [], "internal_shape": [], "ret_list": False, "ishape_via": None}]},
]


def plan(tier, seed):
    n = 2400 if tier == "quick" else 40000
    descs = [{"kind": "fixed", "i": i, "storages": STORAGES} for i in range(len(FIXED))]
    for i in range(n):
        if tier == "quick":
            st = ["file_array", "dict"] + (["shared_memory_dict"] if i % 8 == 0 else []) + (["mix"] if i % 4 == 1 else []) + (["dict-nofolder"] if i % 4 == 2 else []) + (["shared_memory_dict-pool"] if i % 16 == 4 else []) + (["file_array-pool"] if i % 16 == 12 else [])
        else:
            st = ["file_array", "dict", "mix", "dict-nofolder"] + (["shared_memory_dict"] if i % 6 == 0 else []) + (["shared_memory_dict-pool"] if i % 24 == 1 else []) + (["file_array-pool"] if i % 24 == 2 else [])
        descs.append({"kind": "gen", "seed": seed, "i": i, "storages": st})
    if tier == "thorough":
        descs += [{"kind": "single", "i": i, "storages": ["file_array", "dict"]} for i in range(single_count())]
    return descs


# ---- exhaustive single-function specs (thorough)
_SINGLE = None


def _single_cases():
    """All one-function specs with <=2 inputs of rank<=2 over index names i,j,k: every
    elem/partial/fullcolon/whole mode x every output permutation x 0..1 internal axis at every
    position; sizes vary deterministically with the case number."""
    global _SINGLE
    if _SINGLE is not None:
        return _SINGLE
    import itertools
    out = []
    names = ["i", "j", "k"]
    ranks = [(1,), (2,), (1, 1), (1, 2), (2, 2)]
    n = 0
    for rk in ranks:
        axis_choices = []
        for r in rk:
            axis_choices.append(list(itertools.permutations(names, r)))
        for axes in itertools.product(*axis_choices):
            mode_choices = []
            for ax in axes:
                ms = ["whole"]
                for mask in itertools.product([True, False], repeat=len(ax)):
                    ms.append([a if keep else None for a, keep in zip(ax, mask)])
                mode_choices.append(ms)
            for modes in itertools.product(*mode_choices):
                used = []
                for m in modes:
                    if isinstance(m, list):
                        for a in m:
                            if a and a not in used:
                                used.append(a)
                free = [a for a in names + ["l"] if a not in used]
                for perm in itertools.permutations(used):
                    variants = [(list(perm), [])]
                    if len(perm) < 3:
                        for pos in range(len(perm) + 1):
                            oa = list(perm)
                            oa.insert(pos, free[0])
                            variants.append((oa, [free[0]]))
                    for out_axes, internal in variants:
                        if not out_axes:
                            continue
                        n += 1
                        sizes = {"i": 1 + n % 3, "j": 1 + (n // 3) % 3, "k": 1 + (n // 9) % 3, "l": 2 + n % 2}
                        params = [f"x{q}" for q in range(len(axes))]
                        roots = {p: {"axes": list(ax), "kind": "list" if (len(ax) == 1 and n % 2) else "ndarray"}
                                 for p, ax in zip(params, axes)}
                        md = {p: m for p, m in zip(params, modes)}
                        ins = ", ".join(f"{p}[{', '.join(':' if a is None else a for a in m)}]"
                                        for p, m in md.items() if isinstance(m, list)) or "..."
                        ms_ = f"{ins} -> y0[{', '.join(out_axes)}]"
                        out.append({"sizes": sizes, "roots": roots, "funcs": [{
                            "name": "f0", "params": params, "outs": ["y0"], "mapspec": ms_, "modes": md,
                            "out_axes": out_axes, "internal": internal,
                            "internal_shape": [sizes[a] for a in out_axes if a in internal],
                            "ret_list": bool(n % 2) and not (len(internal) == len(out_axes) and len(internal) >= 2),
                            "ishape_via": "map" if n % 3 == 0 else "pipefunc"}]})
    _SINGLE = out
    return out


def single_count():
    return len(_single_cases())


def get_case(desc):
    if desc["kind"] == "fixed":
        return FIXED[desc["i"]]
    if desc["kind"] == "single":
        return _single_cases()[desc["i"]]
    if desc["kind"] == "literal":
        return desc["case"]
    return mapgen.case_from_seed(desc["seed"], desc["i"], allow_autogen=desc["i"] % 2 == 1, allow_renames=desc["i"] % 3 == 0,
                                 allow_bound=desc["i"] % 5 == 0, allow_int_arrays=desc["i"] % 4 == 3, allow_picker=desc["i"] % 3 == 1)


def storage_arg(case, st, i):
    if st != "mix":
        return st
    names = ["file_array", "dict", "shared_memory_dict"]
    d = {"": names[i % 2]}
    for k, f in enumerate(case["funcs"]):
        if f["mapspec"] is None or k % 2 == 0:
            continue
        key = tuple(f["outs"]) if len(f["outs"]) > 1 else f["outs"][0]
        d[key] = names[(i + k) % 2 + 0]
    return d


def check_run(v, case, st, storage, env, exp_calls, scratch, cfg=""):
    """Run the case once sequentially under `storage`, compare with the oracle."""
    from pipefunc.map import load_outputs

    log = probes.new_log(scratch)
    inputs = mapgen.make_inputs(case)
    folder = os.path.join(scratch, f"run-{st}")
    if st == "dict-nofolder":  # purely in-memory run: no run folder at all
        folder, storage = None, "dict"
    parallel = False
    if st.endswith("-pool"):   # the default process pool (parallel=True, no executor): what is returned AND stored
        parallel, storage = True, st[:-5]
    try:
        with quiet():
            pipeline = mapgen.build_pipeline(case, log=log)
    except Exception as e:  # noqa: BLE001
        v.bad(exc_sig(e, "refused-construct"), f"valid pipeline refused at construction: {exc_msg(e)}",
              case=mapgen.describe(case))
        return False
    try:
        with quiet():
            res = pipeline.map(inputs, run_folder=folder, internal_shapes=mapgen.internal_shapes_arg(case),
                               storage=storage, parallel=parallel)
    except Exception as e:  # noqa: BLE001
        v.bad(exc_sig(e, "refused-map") + f"/{st}", f"valid map refused [{st}]: {exc_msg(e)}",
              case=mapgen.describe(case), storage=str(storage))
        return False
    v.count("runs")
    v.count(f"runs_{st}")
    ok = True
    for f in case["funcs"]:
        for o in f["outs"]:
            exp = probes.render(env[o])
            if o not in res:
                v.bad(f"missing-result/{st}", f"output {o} absent from map result", case=mapgen.describe(case))
                ok = False
                continue
            got = res[o].output
            v.count("outputs_compared")
            if probes.render(got) != exp:
                v.bad(f"mismatch:result/{st}", f"Result.output of {o} differs from denotation [{st}]",
                      case=mapgen.describe(case), got=probes.render(got)[:800], expected=exp[:800])
                ok = False
            if f["mapspec"] is not None:
                es = mapgen.expected_shape(case, o)
                if tuple(np.shape(got)) != es and not (not f["modes"] or True) :
                    pass
                if f["internal"] and not [a for a in f["out_axes"] if a not in f["internal"]]:
                    pass  # generator: the function's own return value (list or array)
                elif tuple(np.shape(got)) != es:
                    v.bad(f"shape:result/{st}", f"Result.output of {o} has shape {np.shape(got)}, expected {es}",
                          case=mapgen.describe(case))
                    ok = False
            if folder is None:
                continue
            try:
                with quiet():
                    lo = load_outputs(o, run_folder=folder)
                v.count("load_outputs_compared")
                if probes.render(lo) != exp:
                    v.bad(f"mismatch:load_outputs/{st}", f"load_outputs({o}) differs from denotation [{st}]",
                          case=mapgen.describe(case), got=probes.render(lo)[:800], expected=exp[:800])
                    ok = False
            except Exception as e:  # noqa: BLE001
                v.bad(exc_sig(e, "load_outputs") + f"/{st}", f"load_outputs({o}) raised: {exc_msg(e)}",
                      case=mapgen.describe(case))
                ok = False
    calls = probes.log_read(log)
    v.count("probe_calls_logged", len(calls))
    for f in case["funcs"]:
        got = [c["k"] for c in calls if c["f"] == f["name"]]
        exp = [t for _, t in exp_calls[f["name"]]]
        extra, missing = multiset_diff(got, exp)
        if extra or missing:
            v.bad(f"calls/{st}", f"calls of {f['name']} differ: extra={extra[:3]} missing={missing[:3]}",
                  case=mapgen.describe(case))
            ok = False
    os.unlink(log)
    return ok


def check_repeat_after_fault(v, case, env, exp_calls, scratch, i):
    """A first run is cut short by a fault inside one invocation (a raise, or - for tuple-output functions - a
    last output that cannot be stored); the same valid request repeated with cleanup=False must not be refused and
    must return the denotation."""
    import random

    rng = random.Random(f"c01fault:{i}")
    cands = [(f, eidx, t) for f in case["funcs"] for eidx, t in exp_calls[f["name"]]]
    if not cands:
        return
    tup = [(f, eidx, t) for f, eidx, t in cands if len(f["outs"]) > 1 and f["mapspec"] and not f["internal_shape"]
           and any(isinstance(m, list) for m in f["modes"].values())]
    f, eidx, t = rng.choice(tup) if tup else rng.choice(cands)
    kind = "unpicklable" if tup else "raise"
    fault = {f["name"]: ({"unpicklable": {t: 1}} if kind == "unpicklable" else {"raise": {t: ["ValueError", "injected"]}})}
    folder = os.path.join(scratch, "run-fault")
    inputs = mapgen.make_inputs(case)
    w = dict(case=mapgen.describe(case), fault=[kind, f["name"], t])
    try:
        with quiet():
            p1 = mapgen.build_pipeline(case, fault=fault)
            p1.map(inputs, run_folder=folder, internal_shapes=mapgen.internal_shapes_arg(case), storage="file_array", parallel=False)
        return  # the fault did not stop the run (e.g. value never pickled): nothing to repeat
    except Exception:  # noqa: BLE001
        pass
    v.count("first_runs_cut_short")
    v.count(f"first_runs_cut_short:{kind}")
    try:
        with quiet():
            p2 = mapgen.build_pipeline(case)
            res = p2.map(inputs, run_folder=folder, internal_shapes=mapgen.internal_shapes_arg(case), storage="file_array",
                         parallel=False, cleanup=False)
    except Exception as e:  # noqa: BLE001
        v.bad(exc_sig(e, f"refused-map-repeated-after-{kind}"), f"valid map repeated with cleanup=False after a faulted first run was refused: {exc_msg(e)}", **w)
        return
    for g in case["funcs"]:
        for o in g["outs"]:
            if probes.render(res[o].output) != probes.render(env[o]):
                v.bad(f"mismatch:result-repeated-after-{kind}", f"{o} differs from the denotation when the map is repeated after a faulted run",
                      got=probes.render(res[o].output)[:400], expected=probes.render(env[o])[:400], **w)
                return


def check_same_object_again(v, case, scratch, i):
    """The SAME pipeline object maps twice into the SAME folder: first with other input values (and that run is
    loaded), then with the inputs that are judged; a None-valued element is produced by one invocation."""
    from pipefunc.map import load_outputs

    inputs = mapgen.make_inputs(case)
    _, calls0 = mapgen.oracle(case, inputs)
    none = None
    for f in case["funcs"]:
        if (f["mapspec"] and len(f["outs"]) == 1 and not f["internal_shape"] and len(calls0[f["name"]]) >= 2
                and any(isinstance(m, list) for m in f["modes"].values())):
            none = (f["name"], calls0[f["name"]][-1][1])
            break
    env, _ = mapgen.oracle(case, inputs, none_terms=({none[1]} if none else ()))
    folder = os.path.join(scratch, "run-again")
    w = dict(case=mapgen.describe(case), none_valued_invocation=none)
    try:
        with quiet():
            p = mapgen.build_pipeline(case, fault=({none[0]: {"none": {none[1]: 1}}} if none else None))
            kw = dict(run_folder=folder, internal_shapes=mapgen.internal_shapes_arg(case), storage="file_array", parallel=False)
            p.map(mapgen.variant_inputs(inputs), **kw)
            for f in case["funcs"]:
                load_outputs(f["outs"][0], run_folder=folder)
            res = p.map(inputs, **kw)
    except Exception as e:  # noqa: BLE001
        v.bad(exc_sig(e, "refused-map-second-run-same-object"), f"second map of the same pipeline object into the same folder raised {exc_msg(e)}", **w)
        return
    v.count("second_runs_on_same_object")
    if none:
        v.count("runs_with_a_None_valued_element")
    for f in case["funcs"]:
        for o in f["outs"]:
            exp = probes.render(env[o])
            got = probes.render(res[o].output)
            try:
                with quiet():
                    lo = probes.render(load_outputs(o, run_folder=folder))
            except Exception as e:  # noqa: BLE001
                lo = f"EXC {exc_msg(e)}"
            if got != exp:
                v.bad("mismatch:result-second-run-same-object" + ("/none-element" if none and "None" in exp else ""),
                      f"{o} of the second run differs from the denotation", got=got[:400], expected=exp[:400], **w)
                return
            if lo != exp:
                v.bad("mismatch:load_outputs-second-run-same-object" + ("/none-element" if none and "None" in exp else ""),
                      f"load_outputs({o}) after the second run differs from the denotation", got=lo[:400], expected=exp[:400], **w)
                return


def check_scoped_and_defaults(v, case, env, exp_calls, scratch, i):
    """The same pipeline under update_scope('sc', '*', '*') (all names prefixed) with scalar roots supplied as
    function defaults instead of inputs; mapped with scoped input names and scoped internal_shapes / storage keys."""
    from pipefunc.map import load_outputs

    inputs = mapgen.make_inputs(case)
    dflt = {r: inputs[r] for r, spec in case["roots"].items() if spec["kind"] == "scalar"} if i % 2 else {}
    # ... and (every second of these cases) array roots that ARE given as inputs additionally have a declared default of ANOTHER
    # shape and other values: the input wins, for the values and for the shapes derived from them
    over = {}
    if i % 2 == 0:
        for r, spec in case["roots"].items():
            if spec["kind"] in ("list", "ndarray") and spec["axes"]:
                shp = tuple(np.shape(inputs[r]))
                big = np.empty(tuple(d + 1 for d in shp), dtype=object)
                for idx in np.ndindex(*big.shape):
                    big[idx] = f"{r}-declared-default<{','.join(map(str, idx))}>"
                over[r] = big.tolist() if spec["kind"] == "list" else big
    extra = {}
    for f in case["funcs"]:
        d = {p: dflt[p] for p in f["params"] if p in dflt and p not in (f.get("bound") or {})}
        d.update({p: over[p] for p in f["params"] if p in over and p not in (f.get("bound") or {})})
        if d:
            extra[f["name"]] = {"defaults": d}
    w = dict(case=mapgen.describe(case), scoped=True, defaults=sorted(dflt), overridden_array_defaults=sorted(over))
    S = lambda n: tuple(f"sc.{x}" for x in n) if isinstance(n, tuple) else f"sc.{n}"  # noqa: E731
    folder = os.path.join(scratch, "run-scoped")
    try:
        with quiet():
            p = mapgen.build_pipeline(case, extra=extra)
            p.update_scope("sc", "*", "*")
            ish = mapgen.internal_shapes_arg(case)
            st = storage_arg(case, "mix", i)
            res = p.map({S(k): x for k, x in inputs.items() if k not in dflt}, run_folder=folder,
                        internal_shapes=({S(k): x for k, x in ish.items()} if ish else None),
                        storage={(S(k) if k != "" else k): x for k, x in st.items()}, parallel=False)
    except Exception as e:  # noqa: BLE001
        v.bad(exc_sig(e, "refused-map-scoped"), f"valid map of the scoped pipeline (defaults: {sorted(dflt)}) raised {exc_msg(e)}", **w)
        return
    v.count("scoped_runs")
    if dflt:
        v.count("runs_with_defaulted_roots")
    if over:
        v.count("runs_with_overridden_array_defaults")
    for f in case["funcs"]:
        for o in f["outs"]:
            exp = probes.render(env[o])
            if S(o) not in res or probes.render(res[S(o)].output) != exp:
                v.bad("mismatch:result-scoped", f"{S(o)} differs from the denotation under a scope", expected=exp[:400],
                      got=probes.render(res[S(o)].output)[:400] if S(o) in res else None, **w)
                return
            try:
                with quiet():
                    lo = probes.render(load_outputs(S(o), run_folder=folder))
            except Exception as e:  # noqa: BLE001
                lo = f"EXC {exc_msg(e)}"
            if lo != exp:
                v.bad("mismatch:load_outputs-scoped", f"load_outputs({S(o)}) differs from the denotation", got=lo[:400], expected=exp[:400], **w)
                return


def run_case(desc):
    case = get_case(desc)
    v = V()
    env, exp_calls = mapgen.oracle(case)
    v.classes.update(mapgen.classes(case))
    with tmpdir("c01-") as scratch:
        ok = True
        for st in desc["storages"]:
            storage = storage_arg(case, st, desc["i"])
            ok = check_run(v, case, st, storage, env, exp_calls, scratch) and ok
        if ok and desc["kind"] == "gen" and desc["i"] % 3 == 0:
            check_repeat_after_fault(v, case, env, exp_calls, scratch, desc["i"])
        if ok and desc["kind"] == "gen" and desc["i"] % 3 == 1:
            check_same_object_again(v, case, scratch, desc["i"])
        if ok and desc["kind"] == "gen" and desc["i"] % 3 == 2:
            check_scoped_and_defaults(v, case, env, exp_calls, scratch, desc["i"])
    nt = mapgen.nontrivial(case)
    return v.result(evaluations=v.counters.get("runs", 0), key=mapgen.signature(case) if nt else None,
                    sample={"case": mapgen.describe(case), "storages": desc["storages"],
                            "expected_first_output": probes.render(env[case["funcs"][0]["outs"][0]])[:300]}
                    if desc["i"] % 400 == 3 else None)


def finalize(agg, tier, seed):
    floors = []
    need = 500 if tier == "quick" else 5000
    if len(agg.keys) < need:
        floors.append(f"only {len(agg.keys)} distinct non-trivial cases (< {need})")
    for c in ["internal_before_external", "internal_after_external", "generator", "tuple_out", "fullcolon",
              "partial_colon", "zip", "outer", "nomapspec", "root_list", "permuted_out_axes", "colon_on_tuple_output", "autogen_mapspec", "renamed_params"]:
        if agg.classes.get(c, 0) < 10:
            floors.append(f"structural class {c} hit only {agg.classes.get(c, 0)} times (< 10)")
    if agg.counters.get("second_runs_on_same_object", 0) < 200 or agg.counters.get("runs_with_a_None_valued_element", 0) < 50:
        floors.append("too few second runs on the same pipeline object / runs with a None-valued element")
    if agg.counters.get("scoped_runs", 0) < 200 or agg.counters.get("runs_with_defaulted_roots", 0) < 20 or agg.counters.get("runs_with_overridden_array_defaults", 0) < 20:
        floors.append("too few scoped runs / runs with scalar roots supplied as defaults")
    if agg.classes.get("root_ndarray-int", 0) < 30:
        floors.append("fewer than 30 cases with a numeric input array")
    if agg.counters.get("first_runs_cut_short:unpicklable", 0) < 20 or agg.counters.get("first_runs_cut_short:raise", 0) < 50:
        floors.append("too few faulted-first-run / repeat scenarios")
    for k in ["runs_file_array", "runs_dict", "runs_shared_memory_dict", "runs_mix", "runs_dict-nofolder", "runs_shared_memory_dict-pool", "runs_file_array-pool"]:
        if agg.counters.get(k, 0) < 50:
            floors.append(f"{k}={agg.counters.get(k, 0)} (< 50)")
    return floors, {}
