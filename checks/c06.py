"""C06 - Running a map in pieces (fixed_indices, learners) equals running it whole (DESIGN 4/C06)."""
from __future__ import annotations

import itertools
import os
import random

import numpy as np

from vlib import mapgen, probes
from vlib.util import V, exc_msg, exc_sig, multiset_diff, quiet, tmpdir

PROPERTY = "C06"
LEVEL = "exploration"
DEADLINE = 300
RULE = ("cases = MapSpec pipelines from vlib.mapgen (VERIF_SEED) that have an axis coming from a root input which no consumer "
        "reduces (own analysis); that axis (sometimes two) is partitioned into ints (positive and negative), contiguous slices "
        "and negative-step slices with their complement (file_array storage, every third partition with the dict storage "
        "persisted between parts); the parts run in shuffled order with cleanup=False after the first; "
        "monitors after every part: per-output stored-mask == union of selections so far, call log == selected-and-not-stored; "
        "after all parts: load_outputs == denotation and a final full run logs zero calls; requests fixing a reduced axis / an "
        "unknown axis / an out-of-range index must raise before any call; the same for create_learners with and without "
        "split_independent_axes and with fixed_indices, learners of a generation driven in shuffled order; non-trivial = the "
        "partition has >= 2 parts; distinct = (case signature, axis, partition, order)")
ASSUMPTIONS = ["oracle = vlib.mapgen.oracle; the set of unreduced root axes is computed by the harness's own analysis of the case",
               "stored masks are observed through load_outputs (masked elements = missing)"]
BATCH = 5


def plan(tier, seed):
    n = 400 if tier == "quick" else 6000
    return [{"seed": seed, "start": s, "n": BATCH, "orders": 1 if tier == "quick" else 3} for s in range(0, n, BATCH)]


# ------------------------------------------------------------------------------- own analysis
axes_info = mapgen.fixable_axes


def partitions(n, rng):
    """List of partitions of range(n); a partition = list of (selector, index set)."""
    out = []
    singles = [(i if rng.random() < 0.6 else i - n, {i}) for i in range(n)]
    out.append(singles)
    if n >= 2:
        k = rng.randint(1, n - 1)
        out.append([(slice(0, k), set(range(0, k))), (slice(k, None), set(range(k, n)))])
        neg = set(range(n)[::-2])
        rest = sorted(set(range(n)) - neg)
        part = [(slice(None, None, -2), neg)]
        if rest:
            part.append((slice(rest[0], rest[-1] + 1, 2) if len(rest) > 1 else rest[0], set(rest)))
        out.append(part)
        out.append([(slice(-1, None), {n - 1}), (slice(None, -1), set(range(n - 1)))])
    return out


def expected_stored(case, f, sel):
    """External index tuples of f that are selected by `sel` = {axis: set of ints} (axes absent = all)."""
    ext = [a for a in f["out_axes"] if a not in f["internal"]]
    res = set()
    for idx in itertools.product(*[range(case["sizes"][a]) for a in ext]):
        if all(idx[k] in sel[a] for k, a in enumerate(ext) if a in sel):
            res.add(idx)
    return res


def is_map(f):
    return f["mapspec"] is not None and any(isinstance(m, list) for m in f["modes"].values())


def stored_indices(case, f, folder):
    """Set of external index tuples of f's first output that are stored (unmasked) in the run folder."""
    from pipefunc.map import load_outputs

    with quiet():
        arr = load_outputs(f["outs"][0], run_folder=folder)
    ext = [a for a in f["out_axes"] if a not in f["internal"]]
    mask = np.ma.getmaskarray(arr) if isinstance(arr, np.ma.MaskedArray) else np.zeros(np.shape(arr), dtype=bool)
    res = set()
    for idx in itertools.product(*[range(case["sizes"][a]) for a in ext]):
        key = tuple(idx[ext.index(a)] if a in ext else slice(None) for a in f["out_axes"])
        sub = np.asarray(mask[key])
        obj = np.asarray(arr[key], dtype=object) if not isinstance(arr, np.ma.MaskedArray) else None
        missing = bool(sub.all()) if sub.size else False
        if obj is not None:
            missing = missing or any(x is np.ma.masked for x in obj.ravel())
        if not missing:
            res.add(idx)
    return res


# ------------------------------------------------------------------------------- partitioned maps
def run_partition(v, case, env, exp_calls, axes, parts, order_seed, scratch, tag, storage="file_array"):
    w = dict(case=mapgen.describe(case), axes=axes, parts=[[str(s) for s, _ in p] for p in parts], storage=storage)
    combos = list(itertools.product(*parts))
    random.Random(order_seed).shuffle(combos)
    folder = os.path.join(scratch, f"part-{tag}")
    log = probes.new_log(scratch)
    with quiet():
        pipeline = mapgen.build_pipeline(case, log=log)
    inputs = mapgen.make_inputs(case)
    ish = mapgen.internal_shapes_arg(case)
    done = {f["name"]: set() for f in case["funcs"]}
    sel_so_far = None
    first = True
    for combo in combos:
        fixed = {a: s for a, (s, _) in zip(axes, combo)}
        selset = {a: idxs for a, (_, idxs) in zip(axes, combo)}
        probes.log_clear(log)
        fixed_before = repr(fixed)
        try:
            with quiet():
                pipeline.map(inputs, run_folder=folder, internal_shapes=ish, parallel=False, storage=storage,
                             fixed_indices=fixed, cleanup=first)
        except Exception as e:  # noqa: BLE001
            v.bad(exc_sig(e, "refused-fixed_indices"), f"valid fixed_indices={fixed} refused: {exc_msg(e)}", fixed=str(fixed), **w)
            return False
        if repr(fixed) != fixed_before:
            # the dict IS the caller's description of the part (it may be used again for an axis of another length)
            v.bad("fixed_indices-argument-rewritten", f"map rewrote the caller's fixed_indices dict: {fixed_before} -> {fixed!r}", **w)
        first = False
        v.count("partitioned_runs")
        if any(isinstance(s, slice) and s.step is not None and s.step < 0 for s in fixed.values()):
            v.count("negative_step_selections")
        if any(isinstance(s, int) and s < 0 for s in fixed.values()):
            v.count("negative_int_selections")
        calls = probes.log_read(log)
        for f in case["funcs"]:
            got = [c["k"] for c in calls if c["f"] == f["name"]]
            if is_map(f):
                want_idx = expected_stored(case, f, selset) - done[f["name"]]
                want = [t for idx, t in exp_calls[f["name"]] if idx in want_idx]
                done[f["name"]] |= expected_stored(case, f, selset)
            else:
                want = [] if done[f["name"]] else [t for _, t in exp_calls[f["name"]]]
                done[f["name"]] = {()}
            extra, miss = multiset_diff(got, want)
            v.count("part_call_sets_compared")
            if extra or miss:
                v.bad("part-calls", f"part {fixed}: {f['name']} extra={extra[:2]} missing={miss[:2]}", fixed=str(fixed), **w)
                return False
            if is_map(f):
                try:
                    st = stored_indices(case, f, folder)
                except Exception as e:  # noqa: BLE001
                    v.bad(exc_sig(e, "load-after-part"), f"load_outputs after part {fixed} raised {exc_msg(e)}", **w)
                    return False
                v.count("masks_compared")
                if st != done[f["name"]]:
                    v.bad("part-mask", f"after part {fixed}: stored elements of {f['outs'][0]} = {sorted(st)}, expected {sorted(done[f['name']])}",
                          fixed=str(fixed), **w)
                    return False
    v.count(f"partitions:{storage}")
    return final_full_run(v, case, env, pipeline, inputs, ish, folder, log, w, "partition", storage)


def final_full_run(v, case, env, pipeline, inputs, ish, folder, log, w, ctx, storage="file_array"):
    from pipefunc.map import load_outputs

    probes.log_clear(log)
    try:
        with quiet():
            res = pipeline.map(inputs, run_folder=folder, internal_shapes=ish, parallel=False, storage=storage, cleanup=False)
    except Exception as e:  # noqa: BLE001
        v.bad(exc_sig(e, f"final-run/{ctx}"), f"final full run raised {exc_msg(e)}", **w)
        return False
    calls = probes.log_read(log)
    v.count("final_runs")
    if calls:
        v.bad(f"final-run-recomputes/{ctx}", f"final full run recomputed {len(calls)} element(s), e.g. {calls[0]['f']} {calls[0]['k'][:80]}", **w)
    for f in case["funcs"]:
        for o in f["outs"]:
            exp = probes.render(env[o])
            with quiet():
                lo = probes.render(load_outputs(o, run_folder=folder))
            if probes.render(res[o].output) != exp or lo != exp:
                v.bad(f"final-data-differs/{ctx}", f"{o} after all parts differs from a single full run", got=lo[:400], expected=exp[:400], **w)
                return False
    return True


def late_reducer(v, case, scratch, tag):
    """The pipeline object first serves a partial run while an axis is NOT reduced; then the function that reduces that
    axis is added to the same object (Pipeline.add); fixing the axis must be rejected from then on."""
    if len(case["funcs"]) < 2:
        return
    used = {p for f in case["funcs"][:-1] for p in f["params"]}
    trunc = {**case, "funcs": case["funcs"][:-1], "roots": {r: x for r, x in case["roots"].items() if r in used}}
    try:
        cand_t, _ = mapgen.fixable_axes(trunc)
        _, reduced = mapgen.fixable_axes(case)
    except Exception:  # noqa: BLE001
        return
    newly = [a for a in cand_t if a in reduced]
    if not newly:
        return
    a = newly[0]
    log = probes.new_log(scratch)
    w = dict(case=mapgen.describe(case), axis=a, scenario="reducing function added after a partial run on the same pipeline object")
    try:
        with quiet():
            p = mapgen.build_pipeline(trunc, log=log)
            inputs_t = {k: x for k, x in mapgen.make_inputs(case).items() if k in trunc["roots"]}
            p.map(inputs_t, run_folder=os.path.join(scratch, f"late-{tag}-a"), internal_shapes=mapgen.internal_shapes_arg(trunc), parallel=False,
                  storage="file_array", fixed_indices={a: 0})
            p.add(mapgen.build_funcs(case, log=log)[-1])
    except Exception:  # noqa: BLE001  (preparation refused: not this scenario's subject)
        v.count("late_reducer_preparation_refused")
        return
    probes.log_clear(log)
    err = None
    try:
        with quiet():
            p.map(mapgen.make_inputs(case), run_folder=os.path.join(scratch, f"late-{tag}-b"), internal_shapes=mapgen.internal_shapes_arg(case),
                  parallel=False, storage="file_array", fixed_indices={a: 0})
    except Exception as e:  # noqa: BLE001
        err = e
    v.count("rejection:reduced-axis-after-add")
    if err is None:
        v.bad("accepted:reduced-axis/after-add", f"fixed_indices={{{a!r}: 0}} accepted although the function added to the pipeline reduces {a}", **w)
    elif probes.log_read(log):
        v.bad("rejected-late:reduced-axis/after-add", "user functions ran before the rejection", **w)


def with_output_names(v, case, env, scratch, tag, rng):
    """fixed_indices together with output_names: what counts is the SUB-pipeline that runs. A prefix of the functions whose
    outputs are requested may have an independent axis that a later function (not requested) reduces - it can be partitioned;
    and an axis that only later functions have is unknown to the requested part."""
    from pipefunc.map import load_outputs

    cand_full, _ = axes_info(case)
    inputs = mapgen.make_inputs(case)
    for m in range(1, len(case["funcs"])):
        funcs = case["funcs"][:m]
        used = {p for f in funcs for p in f["params"]}
        sub = {**case, "funcs": funcs, "roots": {r: x for r, x in case["roots"].items() if r in used}}
        cand_sub, _ = axes_info(sub)
        only_sub = [a for a in cand_sub if a not in cand_full]
        outs = {o for f in funcs for o in f["outs"]}
        sub_inputs = {r: inputs[r] for r in sub["roots"]}
        ish = {k: x for k, x in (mapgen.internal_shapes_arg(case) or {}).items() if k in outs} or None
        w = dict(case=mapgen.describe(case), output_names=sorted(outs))
        sub_axes = {a for f in funcs if f["mapspec"] for a in f["out_axes"]} | {a for r in sub["roots"].values() for a in r["axes"]}
        foreign = [a for a in cand_full if a not in sub_axes]
        if foreign:
            log = probes.new_log(scratch)
            err = None
            try:
                with quiet():
                    mapgen.build_pipeline(case, log=log).map(sub_inputs, run_folder=os.path.join(scratch, f"on-x-{tag}-{m}"), internal_shapes=ish,
                                                             parallel=False, storage="file_array", output_names=outs, fixed_indices={foreign[0]: 0})
            except Exception as e:  # noqa: BLE001
                err = e
            v.count("rejections_with_output_names")
            if err is None:
                v.bad("accepted:axis-outside-the-requested-outputs", f"fixed_indices={{{foreign[0]!r}: 0}} accepted although no requested output "
                      f"(output_names={sorted(outs)}) has that axis", **w)
        if not only_sub:
            continue
        a = only_sub[0]
        n = case["sizes"][a]
        parts = [slice(0, 1), slice(1, None)] if n >= 2 else [slice(None)]
        if rng.random() < 0.5:
            parts.reverse()
        folder = os.path.join(scratch, f"on-{tag}-{m}")
        log = probes.new_log(scratch)
        with quiet():
            pipeline = mapgen.build_pipeline(case, log=log)
        first = True
        for part in parts:
            try:
                with quiet():
                    pipeline.map(sub_inputs, run_folder=folder, internal_shapes=ish, parallel=False, storage="file_array", output_names=outs,
                                 fixed_indices={a: part}, cleanup=first)
            except Exception as e:  # noqa: BLE001
                v.bad(exc_sig(e, "refused-fixed_indices/with-output_names"), f"valid fixed_indices={{{a!r}: {part}}} with output_names={sorted(outs)} "
                      f"refused (the axis is reduced only by functions that are not requested): {exc_msg(e)}", **w)
                return
            first = False
        v.count("partitions_with_output_names")
        probes.log_clear(log)
        try:
            with quiet():
                pipeline.map(sub_inputs, run_folder=folder, internal_shapes=ish, parallel=False, storage="file_array", output_names=outs, cleanup=False)
            calls = probes.log_read(log)
            if calls:
                v.bad("final-run-recomputes/with-output_names", f"final run recomputed {len(calls)} element(s)", **w)
            for o in sorted(outs):
                with quiet():
                    lo = probes.render(load_outputs(o, run_folder=folder))
                if lo != probes.render(env[o]):
                    v.bad("final-data-differs/with-output_names", f"{o} after all parts differs from a single full run", got=lo[:300], **w)
                    break
        except Exception as e:  # noqa: BLE001
            v.bad(exc_sig(e, "final-run/with-output_names"), f"final run raised {exc_msg(e)}", **w)
        return


def rejections(v, case, cand, reduced, scratch):
    log = probes.new_log(scratch)
    with quiet():
        pipeline = mapgen.build_pipeline(case, log=log)
    inputs = mapgen.make_inputs(case)
    tests = [("unknown-axis", {"zz_axis": 0})]
    for a in cand[:1]:
        tests.append(("index-out-of-range", {a: case["sizes"][a]}))
        tests.append(("index-out-of-range", {a: -case["sizes"][a] - 1}))
    root_named = {a for r in case["roots"].values() for a in r["axes"]}
    for a in reduced[:2]:
        tests.append(("reduced-axis", {a: 0}))
        # any selection that leaves part of a reduced axis out must be refused - also slices with open ends
        if case["sizes"].get(a, 1) >= 2:
            tests.append(("reduced-axis", {a: slice(None, None, 2)}))
            tests.append(("reduced-axis", {a: slice(1, None)}))
            tests.append(("reduced-axis", {a: slice(None, None, -2)}))
    for kind, fixed in tests:
        probes.log_clear(log)
        err = None
        try:
            with quiet():
                pipeline.map(inputs, run_folder=os.path.join(scratch, "rej"), internal_shapes=mapgen.internal_shapes_arg(case),
                             parallel=False, storage="file_array", fixed_indices=fixed)
        except Exception as e:  # noqa: BLE001
            err = e
        v.count("rejection_requests")
        v.count(f"rejection:{kind}")
        calls = probes.log_read(log)
        w = dict(case=mapgen.describe(case), fixed=str(fixed))
        if err is None:
            v.bad(f"accepted:{kind}", f"fixed_indices={fixed} ({kind}) was accepted", **w)
        elif calls:
            v.bad(f"rejected-late:{kind}", f"{len(calls)} call(s) before rejecting fixed_indices={fixed}", **w)
        # the same request made through create_learners
        if any(f["mapspec"] for f in case["funcs"]):
            from pipefunc.map.adaptive import create_learners

            probes.log_clear(log)
            err = None
            try:
                with quiet():
                    create_learners(pipeline, inputs, os.path.join(scratch, "rej-l"), mapgen.internal_shapes_arg(case), storage="file_array",
                                    fixed_indices=dict(fixed))
            except Exception as e:  # noqa: BLE001
                err = e
            v.count("rejection_requests_through_create_learners")
            if err is None:
                v.bad(f"accepted:{kind}/create_learners", f"create_learners(fixed_indices={fixed}) ({kind}) was accepted", **w)
            elif probes.log_read(log):
                v.bad(f"rejected-late:{kind}/create_learners", f"user code ran before create_learners rejected fixed_indices={fixed}", **w)


# ------------------------------------------------------------------------------- learners
def run_learners(v, case, env, exp_calls, cand, split, use_fixed, order_seed, scratch, tag):
    from adaptive import runner

    from pipefunc.map.adaptive import create_learners

    rng = random.Random(order_seed)
    folder = os.path.join(scratch, f"learn-{tag}")
    log = probes.new_log(scratch)
    # (40%: the MapSpec functions declare resources per ELEMENT - create_learners then makes one learner per element)
    elem = rng.random() < 0.4
    extra = {f["name"]: {"resources": {"cpus": 1}, "resources_scope": "element"} for f in case["funcs"] if f["mapspec"]} if elem else None
    if elem:
        v.count("learner_sets_with_element_scope_resources")
    with quiet():
        pipeline = mapgen.build_pipeline(case, log=log, extra=extra)
    inputs = mapgen.make_inputs(case)
    ish = mapgen.internal_shapes_arg(case)
    fixed_sets = [None]
    if use_fixed and cand and rng.random() < 0.3 and case["sizes"][cand[0]] >= 2:
        # the axis cut into two slices (the second part first half of the time)
        fixed_sets = [{cand[0]: slice(1, None)}, {cand[0]: slice(0, 1)}]
        if rng.random() < 0.5:
            fixed_sets.reverse()
        v.count("learner_sets_with_slice_parts")
    elif use_fixed and cand:
        # one axis, or (half of the time) every admissible axis pinned to an int; ints are given in negative form 40% of the time
        axes = list(cand) if rng.random() < 0.5 else [cand[0]]
        while len(axes) > 1 and np.prod([case["sizes"][a] for a in axes]) > 12:
            axes.pop()
        fixed_sets = []
        for combo in itertools.product(*[range(case["sizes"][a]) for a in axes]):
            fixed_sets.append({a: (i if rng.random() < 0.6 else i - case["sizes"][a]) for a, i in zip(axes, combo)})
        rng.shuffle(fixed_sets)
        if any(isinstance(x, int) and x < 0 for fs in fixed_sets for x in fs.values()):
            v.count("learner_sets_with_negative_ints")
        if len(axes) > 1:
            v.count("learner_sets_fixing_several_axes")
    w = dict(case=mapgen.describe(case), split_independent_axes=split, fixed_indices=[str(x) for x in fixed_sets])
    first = True
    nlearn = 0
    for fixed in fixed_sets:
        try:
            with quiet():
                fixed_before = repr(fixed)
                ld = create_learners(pipeline, inputs, folder, ish, storage="file_array", cleanup=first,
                                     fixed_indices=fixed, split_independent_axes=split)
                if repr(fixed) != fixed_before:
                    v.bad("fixed_indices-argument-rewritten/learners", f"create_learners rewrote the caller's fixed_indices dict: {fixed_before} -> {fixed!r}", **w)
        except Exception as e:  # noqa: BLE001
            v.bad(exc_sig(e, f"create_learners-refused/split={split}/fixed={fixed is not None}"),
                  f"create_learners refused a valid request: {exc_msg(e)}", **w)
            return
        first = False
        keys = list(ld.keys())
        rng.shuffle(keys)
        for key in keys:
            for gen in ld[key]:
                gen = list(gen)
                rng.shuffle(gen)
                for lp in gen:
                    try:
                        with quiet():
                            runner.simple(lp.learner)
                    except Exception as e:  # noqa: BLE001
                        v.bad(exc_sig(e, f"learner-raised/split={split}/fixed={fixed is not None}"), f"learner raised {exc_msg(e)}", **w)
                        return
                    nlearn += 1
    v.count("learner_executions", nlearn)
    v.count(f"learner_sets:split={split}:fixed={use_fixed and bool(cand)}")
    calls = probes.log_read(log)
    for f in case["funcs"]:
        got = [c["k"] for c in calls if c["f"] == f["name"]]
        want = [t for _, t in exp_calls[f["name"]]]
        extra, miss = multiset_diff(got, want)
        if extra or miss:
            kind = "element-computed-twice" if extra and not miss else "calls"
            internal = "internal-axis" if f["internal"] else "no-internal-axis"
            v.bad(f"learners:{kind}/{internal}/split={split}/fixed={use_fixed and bool(cand)}",
                  f"{f['name']}: extra={extra[:2]} missing={miss[:2]}", **w)
            return
    final_full_run(v, case, env, pipeline, inputs, ish, folder, log, w, f"learners/split={split}")


def run_case(desc):
    v = V()
    keys, sample = [], None
    with tmpdir("c06-") as scratch:
        for i in range(desc["start"], desc["start"] + desc["n"]):
            case = mapgen.case_from_seed(desc["seed"], i)
            env, exp_calls = mapgen.oracle(case)
            # the full sequential run must match the denotation (otherwise C01's business)
            try:
                with quiet():
                    p = mapgen.build_pipeline(case)
                    r = p.map(mapgen.make_inputs(case), run_folder=os.path.join(scratch, f"base{i}"), parallel=False,
                              internal_shapes=mapgen.internal_shapes_arg(case), storage="file_array")
                if any(probes.render(r[o].output) != probes.render(env[o]) for f in case["funcs"] for o in f["outs"]):
                    raise ValueError
            except Exception:  # noqa: BLE001
                v.count("skipped_baseline_refused")
                continue
            cand, reduced = axes_info(case)
            rng = random.Random(f"c06:{desc['seed']}:{i}")
            rejections(v, case, cand, reduced, scratch)
            late_reducer(v, case, scratch, i)
            with_output_names(v, case, env, scratch, i, rng)
            for k, (split, use_fixed) in enumerate([(False, False), (True, False), (False, True)]):
                if not any(is_map(f) for f in case["funcs"]):
                    continue
                run_learners(v, case, env, exp_calls, cand, split, use_fixed, f"{desc['seed']}:{i}:{k}", scratch, f"{i}-{k}")
            if not cand:
                v.count("cases_without_independent_axis")
                continue
            v.count("cases_partitioned")
            a = rng.choice(cand)
            plist = partitions(case["sizes"][a], rng)
            for pi, part in enumerate(plist):
                for o in range(desc["orders"]):
                    ok = run_partition(v, case, env, exp_calls, [a], [part], f"{i}:{pi}:{o}", scratch, f"{i}-{pi}-{o}",
                                       storage=("dict" if (i + pi) % 3 == 0 else "file_array"))
                    if len(part) >= 2:
                        keys.append(f"{mapgen.signature(case)}|{a}|{[str(s) for s, _ in part]}|{o}")
                    if not ok:
                        break
            if len(cand) >= 2:
                b = [x for x in cand if x != a][0]
                pa = partitions(case["sizes"][a], rng)[0]
                pb = partitions(case["sizes"][b], rng)[-1]
                run_partition(v, case, env, exp_calls, [a, b], [pa, pb], f"{i}:two", scratch, f"{i}-two")
                v.count("two_axis_partitions")
                keys.append(f"{mapgen.signature(case)}|{a},{b}|two")
            if sample is None:
                sample = {"case": mapgen.describe(case), "axis": a, "partitions": [[str(s) for s, _ in p] for p in plist]}
    return v.result(evaluations=v.counters.get("partitioned_runs", 0), keys=keys, sample=sample if desc["start"] % 100 == 0 else None)


def finalize(agg, tier, seed):
    c = agg.counters
    floors = []
    if c.get("partitioned_runs", 0) < 500:
        floors.append(f"only {c.get('partitioned_runs', 0)} partitioned runs (< 500)")
    if c.get("partitions:dict", 0) < 30:
        floors.append(f"only {c.get('partitions:dict', 0)} partitions with the dict storage (< 30)")
    if c.get("learner_executions", 0) < 100:
        floors.append(f"only {c.get('learner_executions', 0)} learner executions (< 100)")
    if c.get("learner_sets_with_negative_ints", 0) < 20 or c.get("learner_sets_fixing_several_axes", 0) < 10:
        floors.append(f"learner sets with negative ints = {c.get('learner_sets_with_negative_ints', 0)} (< 20) / fixing several axes = {c.get('learner_sets_fixing_several_axes', 0)} (< 10)")
    if c.get("negative_step_selections", 0) < 50:
        floors.append(f"only {c.get('negative_step_selections', 0)} negative-step selections (< 50)")
    for k in ("rejection:unknown-axis", "rejection:index-out-of-range", "rejection:reduced-axis"):
        if c.get(k, 0) < 50:
            floors.append(f"{k} = {c.get(k, 0)} (< 50)")
    if c.get("partitions_with_output_names", 0) < 30 or c.get("rejections_with_output_names", 0) < 5:
        floors.append(f"too few fixed_indices runs combined with output_names ({c.get('partitions_with_output_names', 0)}, {c.get('rejections_with_output_names', 0)})")
    if c.get("learner_sets_with_element_scope_resources", 0) < 50 or c.get("learner_sets_with_slice_parts", 0) < 5:
        floors.append("too few learner sets with element-scope resources / slice parts")
    return floors, {}
