"""C04 - Results stored in a run folder reload exactly, from any process (DESIGN 4/C04)."""
from __future__ import annotations

import contextlib
import io
import json
import multiprocessing
import os
import signal
import subprocess
import sys

import numpy as np

from vlib import boot, loader04, mapgen, probes
from vlib.util import V, tmpdir

PROPERTY = "C04"
LEVEL = "exploration"
DEADLINE = 1800
CHUNK = 1
RULE = ("cases = MapSpec pipelines from vlib.mapgen (VERIF_SEED), scalar roots sometimes supplied as function defaults and sometimes "
        "as instances of a class defined in the running script's __main__; each "
        "is run by a forked child into a run folder under every persisting storage configuration (file_array; dict and "
        "shared_memory_dict with persist_memory=True; two per-output mixes), sequentially or through a process pool (some through a RELATIVE run folder while the pool's workers live in another directory; some with arrays of more than a thousand elements, several of equal size); all names are also loaded in one load_outputs call and kept; the child "
        "records load_outputs / RunInfo.load / load_xarray_dataset in the running process and exits (all manager processes "
        "gone); then ONE fresh interpreter per batch (python -m vlib.loader04, no fork) loads every folder twice; compared: "
        "every output vs denotation, inputs (value and list/ndarray type), defaults, shapes, masks, MapSpec strings, storage "
        "choice, repeated load, same-process vs fresh-process; non-trivial = case with a MapSpec function; distinct = (case "
        "signature, storage configuration)")
ASSUMPTIONS = ["oracle = vlib.mapgen.oracle + what the run was given (inputs, defaults, storage argument)",
               "the fresh interpreter shares nothing with the run but the folder (subprocess, no fork; manager processes killed with the child's process group)",
               "xarray loading is compared same-process vs fresh-process and, where it succeeds, against the denotation; failures of the xarray helper itself belong to C19"]
BATCH = 6
CONFIGS = ["file_array", "dict", "shared_memory_dict", "mixA", "mixB"]


def plan(tier, seed):
    n = 144 if tier == "quick" else 2000
    return [{"seed": seed, "start": s, "n": BATCH} for s in range(0, n, BATCH)]


def storage_arg(case, cfg, i):
    if not cfg.startswith("mix"):
        return cfg
    names = ["file_array", "dict", "shared_memory_dict"]
    off = 0 if cfg == "mixA" else 1
    d = {"": names[(i + off) % 3]}
    for k, f in enumerate(case["funcs"]):
        if f["mapspec"] is None:
            continue
        key = tuple(f["outs"]) if len(f["outs"]) > 1 else f["outs"][0]
        d[key] = names[(i + k + 1 + off) % 3]
    return d


def _defaults_variant(case, i):
    """Scalar roots of odd cases are supplied as (consistent) function defaults instead of inputs."""
    extra, dflt = {}, {}
    if i % 2:
        for r, spec in case["roots"].items():
            if spec["kind"] == "scalar":
                dflt[r] = f"{r}dflt"
                for f in case["funcs"]:
                    if r in f["params"]:
                        extra.setdefault(f["name"], {}).setdefault("defaults", {})[r] = dflt[r]
    return extra, dflt


SAMPLE_SRC = '''
class Sample:
    """A user class defined in the running script (__main__): stored values must survive in another interpreter."""
    def __init__(self, text):
        self.text = text
    def __str__(self):
        return self.text
    __repr__ = __str__
    def __eq__(self, other):
        return type(other).__name__ == "Sample" and other.text == self.text
    def __hash__(self):
        return hash(self.text)
'''


def _wraps(i):
    return i % 3 == 2


def _scoped(i):
    return i % 5 == 1


def _none_plan(case, i):
    """(function name, term) of one invocation that returns None (every fifth case), or None."""
    if i % 5 != 0 or _huge(i):
        return None
    _, calls = mapgen.oracle(case)
    for f in case["funcs"]:
        if (f["mapspec"] and len(f["outs"]) == 1 and not f["internal_shape"] and len(calls[f["name"]]) >= 2
                and any(isinstance(m, list) for m in f["modes"].values())):
            return f["name"], calls[f["name"]][0][1]
    return None


def _unscope(obj):
    return json.loads(json.dumps(obj).replace("sc.", ""))


def _run_child(case, cfg, i, folder, out, use_pool):
    sys.stdout.flush()
    sys.stderr.flush()
    pid = os.fork()
    if pid == 0:
        code = 1
        try:
            os.setpgid(0, 0)
            with contextlib.redirect_stdout(io.StringIO()), contextlib.redirect_stderr(io.StringIO()):
                extra, dflt = _defaults_variant(case, i)
                inputs = {k: v for k, v in _inputs_of(case, i).items() if k not in dflt}
                if _wraps(i):
                    import __main__
                    exec(SAMPLE_SRC, __main__.__dict__)  # noqa: S102
                    inputs = {k: (__main__.Sample(v) if isinstance(v, str) else v) for k, v in inputs.items()}
                npl = _none_plan(case, i)
                pipeline = mapgen.build_pipeline(case, extra=extra, fault=({npl[0]: {"none": {npl[1]: 1}}} if npl else None))
                S = (lambda n: n)
                if _scoped(i):
                    pipeline.update_scope("sc", "*", "*")
                    S = (lambda n: tuple(f"sc.{x}" for x in n) if isinstance(n, tuple) else f"sc.{n}")
                    inputs = {S(k): x for k, x in inputs.items()}
                if i % 4 == 3:
                    # the folder (and this process) already served ANOTHER run with other input values, which was loaded
                    try:
                        old = {k: ([str(y) + "~old" for y in x] if isinstance(x, list) else x) for k, x in inputs.items()}
                        if not _scoped(i):
                            pipeline.map(old, run_folder=folder, internal_shapes=mapgen.internal_shapes_arg(case),
                                         storage=storage_arg(case, cfg, i), parallel=False)
                            loader04.describe_folder(folder, [o for f in case["funcs"] for o in f["outs"]])
                    except Exception:  # noqa: BLE001
                        pass
                kw = {"parallel": False}
                ex = None
                run_folder_arg = folder
                res = {}
                if use_pool:
                    from concurrent.futures import ProcessPoolExecutor

                    ex = ProcessPoolExecutor(2, mp_context=multiprocessing.get_context("fork"))
                    kw = {"executor": ex}
                    if i % 8 == 5:
                        # a RELATIVE run folder, and pool workers that were started while the process lived in another
                        # directory: the folder is the one relative to where map() is called
                        warm = folder + ".elsewhere"
                        os.makedirs(warm, exist_ok=True)
                        os.chdir(warm)
                        list(ex.map(int, ["1", "2", "3", "4"]))  # workers exist now, with cwd = warm
                        os.chdir(os.path.dirname(folder))
                        run_folder_arg = os.path.basename(folder)
                        res["relative_run_folder"] = True
                try:
                    st_arg = storage_arg(case, cfg, i)
                    if isinstance(st_arg, dict):
                        st_arg = {(S(k) if k != "" else k): x for k, x in st_arg.items()}
                    ish = mapgen.internal_shapes_arg(case)
                    ishs = ({S(k): x for k, x in ish.items()} if ish else None)
                    staged = False
                    if i % 4 == 1:
                        # the folder is built up in stages: first only one output is requested, then the whole pipeline
                        # continues in the same folder (cleanup=False); what a fresh interpreter loads afterwards must
                        # describe the WHOLE run
                        singles = [S(f["outs"][0]) for f in case["funcs"] if len(f["outs"]) == 1]
                        if singles:
                            try:
                                pipeline.map(inputs, run_folder=run_folder_arg, internal_shapes=ishs, storage=st_arg, parallel=False,
                                             output_names={singles[0]})
                                staged = True
                            except Exception:  # noqa: BLE001  (a refused first stage is not this check's subject)
                                staged = False
                    if i % 2 == 0 and not _scoped(i):
                        # ... or in PIECES: first the tail of an independent axis (fixed_indices), then everything (cleanup=False) -
                        # elements reach the storage in another order than their index order
                        cand_ = [a for a in mapgen.fixable_axes(case)[0] if case["sizes"][a] >= 2]
                        if cand_:
                            try:
                                pipeline.map(inputs, run_folder=run_folder_arg, internal_shapes=ishs, storage=st_arg, parallel=False,
                                             persist_memory=True, fixed_indices={cand_[0]: slice(1, None)})
                                staged = True
                                res["pieces"] = True
                            except Exception:  # noqa: BLE001  (C06's subject)
                                staged = False
                    try:
                        r = pipeline.map(inputs, run_folder=run_folder_arg, internal_shapes=ishs, storage=st_arg, persist_memory=True,
                                         cleanup=not staged, **kw)
                    except Exception:  # noqa: BLE001
                        if not staged:
                            raise
                        staged = False  # continuing was refused: a plain run instead
                        r = pipeline.map(inputs, run_folder=run_folder_arg, internal_shapes=ishs, storage=st_arg, persist_memory=True, **kw)
                    res["staged"] = staged
                    res["results"] = {k: probes.render(x.output) for k, x in r.items()}
                    res["same_process"] = loader04.describe_folder(run_folder_arg, [S(o) for f in case["funcs"] for o in f["outs"]])
                    code = 0
                except Exception as e:  # noqa: BLE001
                    res["exc"] = f"{type(e).__name__}: {str(e)[:200]}"
                finally:
                    if ex is not None:
                        ex.shutdown(wait=True)
                with open(out, "w") as f:
                    json.dump(res, f)
        finally:
            os._exit(code)
    _, st = os.waitpid(pid, 0)
    try:
        os.killpg(pid, signal.SIGKILL)  # every manager process of the run is gone before the fresh interpreter starts
    except (ProcessLookupError, PermissionError):
        pass
    return os.waitstatus_to_exitcode(st)


def _norm_ms(s):
    return "".join(s.split())


def compare(v, case, cfg, i, env, run, fresh, w):
    outs = [o for f in case["funcs"] for o in f["outs"]]
    extra, dflt = _defaults_variant(case, i)
    given = {k: x for k, x in _inputs_of(case, i).items() if k not in dflt}
    for where, d in (("same-process", run["same_process"]), ("fresh-process", fresh["first"])):
        for o in outs:
            v.count("outputs_compared")
            exp = probes.render(env[o]) if not dflt else None
            got = d["outputs"].get(o)
            if got is None or got.startswith("EXC "):
                v.bad(f"load_outputs-raises/{where}/{cfg if not cfg.startswith('mix') else 'mix'}:{str(got).split(':')[0]}", f"load_outputs({o}) {where}: {got}", **w)
            elif got != run["results"].get(o):
                v.bad(f"load_outputs-differs-from-run/{where}/{cfg if not cfg.startswith('mix') else 'mix'}", f"load_outputs({o}) {where} differs from what map returned",
                      got=got[:400], returned=str(run["results"].get(o))[:400], **w)
            elif exp is not None and got != exp:
                v.bad(f"load_outputs-differs-from-denotation/{where}", f"load_outputs({o}) {where} differs from denotation", got=got[:400], expected=exp[:400], **w)
        for o, again in (d.get("outputs_after_mutation") or {}).items():
            v.count("reloads_after_mutating_what_was_loaded")
            if again != d["outputs"].get(o):
                kind = "mapped" if any(o in f["outs"] and f["mapspec"] for f in case["funcs"]) else "single"
                v.bad(f"load_outputs-changed-by-mutating-an-earlier-result/{where}/{kind}", f"load_outputs({o}) {where} after the array / list loaded before was "
                      "changed in place differs from the first load", first=str(d["outputs"].get(o))[:300], again=str(again)[:300], **w)
        tg = d.get("outputs_together")
        if isinstance(tg, dict):
            v.count("load_outputs_calls_with_all_names")
            for o in outs:
                if tg.get(o) != d["outputs"].get(o):
                    v.bad(f"load_outputs-of-several-names-differs-from-one-by-one/{where}/{cfg if not cfg.startswith('mix') else 'mix'}",
                          f"load_outputs(*all names) {where}: {o} differs from load_outputs({o})", together=str(tg.get(o))[:300],
                          alone=str(d["outputs"].get(o))[:300], **w)
        elif tg is not None and not any(str(x).startswith("EXC ") for x in d["outputs"].values()):
            v.bad(f"load_outputs-raises/{where}/several-names:{str(tg).split(':')[0]}", f"load_outputs(*all names) {where}: {tg}", **w)
        ri = d["run_info"]
        if not isinstance(ri, dict):
            v.bad(f"RunInfo.load-raises/{where}:{str(ri).split(':')[0]}", f"RunInfo.load {where}: {ri}", **w)
            continue
        v.count("run_infos_compared")
        for k, val in given.items():
            kind = "ndarray" if isinstance(val, np.ndarray) else type(val).__name__
            if _wraps(i) and isinstance(val, str):
                kind = "Sample"
            got = ri["inputs"].get(k)
            if got is None or got[0] != kind or got[1] != probes.render(val) or (kind == "ndarray" and got[2] != list(val.shape)):
                v.bad(f"input-roundtrip/{where}", f"input {k} reloads as {got}, given {kind} {probes.render(val)[:100]}", **w)
        if set(ri["inputs"]) != set(given):
            v.bad(f"input-names/{where}", f"inputs {sorted(ri['inputs'])} != given {sorted(given)}", **w)
        if ri["defaults"] != {k: x for k, x in sorted(dflt.items())}:
            v.bad(f"defaults-roundtrip/{where}", f"defaults reload as {ri['defaults']}, pipeline had {dflt}", **w)
        for f in case["funcs"]:
            if f["mapspec"] is None:
                continue
            shape = [case["sizes"][a] for a in f["out_axes"]]
            mask = [a not in f["internal"] for a in f["out_axes"]]
            names = list(f["outs"]) + ([",".join(f["outs"])] if len(f["outs"]) > 1 else [])
            for nme in names:
                v.count("shape_mask_entries")
                if ri["shapes"].get(nme) != shape or ri["shape_masks"].get(nme) != mask:
                    v.bad(f"shape-mask-roundtrip/{where}", f"{nme}: shape {ri['shapes'].get(nme)} mask {ri['shape_masks'].get(nme)}; expected {shape} {mask}", **w)
            if _norm_ms(f["mapspec"]) not in [_norm_ms(m) for m in ri["mapspecs"]]:
                v.bad(f"mapspec-roundtrip/{where}", f"MapSpec {f['mapspec']} not among reloaded {ri['mapspecs']}", **w)
        st = storage_arg(case, cfg, i)
        st = st if isinstance(st, str) else {(",".join(k) if isinstance(k, tuple) else k): x for k, x in st.items()}
        if ri["storage"] != st:
            v.bad(f"storage-roundtrip/{where}", f"storage reloads as {ri['storage']}, given {st}", **w)
        if sorted(outs) != ri["all_output_names"]:
            v.bad(f"output-names-roundtrip/{where}", f"all_output_names {ri['all_output_names']} != {sorted(outs)}", **w)
    if not fresh["second_equal"]:
        v.bad("repeated-load-differs/fresh-process", "loading the folder twice in the fresh interpreter gave different answers", **w)
    if run["same_process"]["run_info"] != fresh["first"]["run_info"]:
        v.bad("run_info:same-vs-fresh", "RunInfo.load differs between the running and the fresh process", **w)
    xs, xf = run["same_process"]["xarray"], fresh["first"]["xarray"]
    v.count("xarray_compared")
    if xs != xf:
        v.bad("xarray:same-vs-fresh", f"load_xarray_dataset differs between running and fresh process: {str(xs)[:150]} vs {str(xf)[:150]}", **w)
    elif isinstance(xf, dict) and not dflt and not _none_plan(case, i):
        # (xarray itself turns a None element of an object array into NaN: not judged for the None-element cases)
        v.count("xarray_loaded")
        for o in outs:
            if o in xf["vars"] and xf["vars"][o][1] != probes.render(env[o]):
                v.bad("xarray:values-differ-from-denotation", f"dataset variable {o} differs from the denotation", got=xf["vars"][o][1][:300], **w)


def _large(i):
    return i % 12 == 10


def _huge(i):
    return i % 48 == 22


def _inputs_of(case, i):
    """The inputs of case i; 'huge' cases pad every array element so that each stored element pickles to more than 1 MiB."""
    inp = mapgen.make_inputs(case)
    if not _huge(i):
        return inp
    pad = "#" * 1_100_000

    def big(x):
        if isinstance(x, list):
            return [big(y) for y in x]
        if isinstance(x, np.ndarray):
            if x.dtype != object:
                return x
            out = np.empty(x.shape, dtype=object)
            for idx in np.ndindex(*x.shape):
                out[idx] = big(x[idx])
            return out
        return x + pad if isinstance(x, str) else x
    return {k: (big(x) if isinstance(x, (list, np.ndarray)) else x) for k, x in inp.items()}


def _case(seed, i):
    if _huge(i):
        return mapgen.case_from_seed(seed, i, sizes={a: 2 for a in mapgen.AX}, max_funcs=2, allow_internal=False, allow_reduce=False, allow_tuple=False)
    if _large(i):
        # arrays of more than a thousand elements, several of them of the same size in one folder
        sizes = ({"i": 1100, "j": 1, "k": 1, "l": 1} if i % 24 == 10 else {"i": 37, "j": 31, "k": 1, "l": 1})
        # (element-wise only: a reduction over a thousand symbolic elements that is mapped again makes every term megabytes long)
        return mapgen.case_from_seed(seed, i, sizes=sizes, max_funcs=3, allow_internal=False, allow_reduce=False)
    # (i % 4 == 0: functions WITHOUT MapSpec that return a list / array which later MapSpecs index - a mutable value in a
    #  single output file)
    return mapgen.case_from_seed(seed, i, allow_picker=(i % 3 == 2), allow_autogen=(i % 4 == 0))


def run_case(desc):
    v = V()
    keys = []
    sample = None
    with tmpdir("c04-") as scratch:
        jobs, meta = [], {}
        for i in range(desc["start"], desc["start"] + desc["n"]):
            case = _case(desc["seed"], i)
            npl = _none_plan(case, i)
            env, _ = mapgen.oracle(case, _inputs_of(case, i), none_terms=({npl[1]} if npl else ()))
            if _huge(i):
                v.count("cases_with_elements_over_1MiB")
            if npl:
                v.count("cases_with_a_None_valued_element")
            cfgs = CONFIGS if i % 3 == 0 else [CONFIGS[i % 5], CONFIGS[(i + 2) % 5]]
            for cfg in cfgs:
                jid = f"{i}-{cfg}"
                folder = os.path.join(scratch, f"run-{jid}")
                out = os.path.join(scratch, f"run-{jid}.json")
                rc = _run_child(case, cfg, i, folder, out, use_pool=(i % 4 == 1))
                try:
                    run = json.load(open(out))
                except Exception:  # noqa: BLE001
                    run = {"exc": f"child exit {rc}"}
                if rc != 0 or "exc" in run:
                    v.count("skipped_run_refused")  # a valid map being refused is C01's business
                    continue
                v.count("folders_written")
                v.count(f"folders:{cfg}")
                if run.get("pieces"):
                    v.count("folders_built_in_pieces")
                if run.get("staged"):
                    v.count("folders_built_in_stages")
                if _large(i):
                    v.count("folders_with_arrays_over_1000_elements")
                if run.get("relative_run_folder"):
                    v.count("folders_given_as_relative_path")
                if _wraps(i) and any(r["kind"] == "scalar" for r in case["roots"].values()):
                    v.count("folders_with_main_class_instances")
                pre = "sc." if _scoped(i) else ""
                job = {"id": jid, "folder": folder, "outputs": [pre + o for f in case["funcs"] for o in f["outs"]]}
                if run.get("relative_run_folder"):
                    # the SAME relative path, resolved from the same directory, in the fresh interpreter (a folder written
                    # through a relative path records its input paths relative to that directory; whether it can be opened
                    # through another spelling of the path is more than the property states)
                    job.update(folder=os.path.basename(folder), cwd=os.path.dirname(folder))
                jobs.append(job)
                if _scoped(i):
                    run = _unscope(run)
                    v.count("folders_with_scoped_names")
                meta[jid] = (case, cfg, i, env, run)
        if jobs:
            jf, of = os.path.join(scratch, "jobs.json"), os.path.join(scratch, "fresh.json")
            json.dump(jobs, open(jf, "w"))
            env_ = dict(os.environ, PYTHONHASHSEED="1")
            p = subprocess.run([sys.executable, "-m", "vlib.loader04", jf, of], env=env_, capture_output=True, text=True, timeout=500,
                               cwd=boot.HOME)
            if p.returncode != 0 or not os.path.exists(of):
                r = v.result()
                r["status"] = "harness_error"
                r["reason"] = "fresh interpreter failed: " + p.stderr[-400:]
                return r
            fresh = json.load(open(of))
            v.count("fresh_interpreters")
            for jid, (case, cfg, i, env, run) in meta.items():
                v.count("folders_reloaded_fresh")
                v.count(f"fresh:{cfg}")
                w = dict(case=mapgen.describe(case), storage=str(storage_arg(case, cfg, i)), pool=(i % 4 == 1), staged=bool(run.get("staged")))
                compare(v, case, cfg, i, env, run, _unscope(fresh[jid]) if _scoped(i) else fresh[jid], w)
                if mapgen.nontrivial(case):
                    keys.append(mapgen.signature(case) + "|" + cfg)
                if sample is None:
                    sample = {"case": mapgen.describe(case), "storage": str(storage_arg(case, cfg, i)),
                              "fresh_run_info_keys": sorted(fresh[jid]["first"]["run_info"]) if isinstance(fresh[jid]["first"]["run_info"], dict) else None}
    return v.result(evaluations=v.counters.get("folders_reloaded_fresh", 0), keys=keys, sample=sample if desc["start"] % 60 == 0 else None)


def finalize(agg, tier, seed):
    floors = []
    for cfg in CONFIGS:
        if agg.counters.get(f"fresh:{cfg}", 0) < (30 if tier == "quick" else 100):
            floors.append(f"only {agg.counters.get(f'fresh:{cfg}', 0)} folders reloaded in a fresh process for {cfg}")
    if agg.counters.get("folders_with_scoped_names", 0) < 10 or agg.counters.get("cases_with_a_None_valued_element", 0) < 5:
        floors.append("too few folders with scoped names / cases with a None-valued element")
    if agg.counters.get("folders_given_as_relative_path", 0) < 5 or agg.counters.get("folders_with_arrays_over_1000_elements", 0) < 5:
        floors.append(f"too few relative run folders / folders with large arrays ({agg.counters.get('folders_given_as_relative_path', 0)}, "
                      f"{agg.counters.get('folders_with_arrays_over_1000_elements', 0)})")
    if agg.counters.get("cases_with_elements_over_1MiB", 0) < 2 or agg.counters.get("reloads_after_mutating_what_was_loaded", 0) < 100:
        floors.append("too few cases with elements over 1 MiB / reloads after mutating what was loaded")
    if agg.counters.get("folders_built_in_pieces", 0) < 5:
        floors.append(f"only {agg.counters.get('folders_built_in_pieces', 0)} folders built in pieces of an axis (< 5)")
    if agg.counters.get("folders_built_in_stages", 0) < 10:
        floors.append(f"only {agg.counters.get('folders_built_in_stages', 0)} folders built up in stages (< 10)")
    if agg.counters.get("skipped_run_refused", 0) * 3 > max(1, agg.counters.get("folders_written", 0)):
        floors.append("more than a quarter of the runs were refused (see C01)")
    return floors, {}
