"""C10 - Structural rewrites preserve what a pipeline computes (DESIGN 4/C10)."""
from __future__ import annotations

import os
import random

import numpy as np

from vlib import daggen, mapgen, probes
from vlib.util import V, exc_msg, exc_sig, quiet, tmpdir

PROPERTY = "C10"
LEVEL = "exploration"
DEADLINE = 300
RULE = ("cases = call-DAGs (vlib.daggen) and MapSpec pipelines (vlib.mapgen) from VERIF_SEED; rewrites: copy, cloudpickle "
        "round trip, join / |, update_renames (random injective renaming of parameters and outputs to fresh names, and swaps of two "
        "parameter names), update_scope('s','*','*') "
        "called with dotted keys and nested dicts and its removal, nest_funcs on a convex subset / '*', simplified_pipeline, "
        "split_disconnected, and compositions of up to 3 rewrites; for every retained output and several keyword sets the "
        "rewritten pipeline must return the reference evaluator's value for the ORIGINAL description (modulo the name map); "
        "non-interference: the original is re-evaluated after the rewrite and after mutating the other object; "
        "add_mapspec_axis: lifted pipeline mapped over 3 values, slice n of every dependent output == original result for "
        "p = p[n], other outputs unchanged; non-trivial = output depending on >= 2 functions; distinct = (case signature, rewrite chain)")
ASSUMPTIONS = ["reference = vlib.daggen.ref_eval / vlib.mapgen.oracle on the original description",
               "probe terms use the functions' own (internal) parameter names, so pipeline-level renaming must not change values",
               "nest_funcs subsets are chosen convex (no path leaves the subset and re-enters) by the harness's own graph analysis"]
BATCH = 12
REWRITES = ["copy", "pickle", "join", "or", "rename", "rename-swap", "rename-restore", "scope", "scope-nested", "scope-remove", "rescope", "nest", "nest-all", "simplify", "split"]


def plan(tier, seed):
    n = 1440 if tier == "quick" else 8000
    descs = [{"kind": "dag", "seed": seed, "start": s, "n": BATCH, "chains": 1 if tier == "quick" else 4} for s in range(0, n, BATCH)]
    m = 96 if tier == "quick" else 1500
    descs += [{"kind": "map", "seed": seed, "start": s, "n": 8} for s in range(0, m, 8)]
    return descs


class SplitRefused(ValueError):
    pass


class Skip(Exception):
    pass


class Broken(Exception):
    """A rewrite step whose result contradicts its documentation before anything is computed: (signature, message)."""


class State:
    """A rewritten pipeline plus how to talk to it."""

    def __init__(self, p, names, outs, conv="flat", scope=None, nested=False, base=False):
        self.base = base        # the original pipeline (never mutated in place; products of rewrites are)
        self.nested = nested    # a subset was nested already (convexity of a further subset is not re-analysed)
        self.p = p              # pipeline or list of pipelines (split)
        self.names = names      # original name -> current name
        self.outs = outs        # retained original output names (requestable individually)
        self.conv = conv
        self.scope = scope


def convex_subsets(case, rng):
    """Subsets (>= 2 functions) of the DAG such that no path leaves the subset and re-enters it."""
    fs = case["funcs"]
    prod = {o: k for k, f in enumerate(fs) for o in f["outs"]}
    deps = {k: {prod[p] for p in f["params"] if p in prod and p not in f["bound"]} for k, f in enumerate(fs)}

    def reach(k, acc):
        for d in deps[k]:
            if d not in acc:
                acc.add(d)
                reach(d, acc)
        return acc
    anc = {k: reach(k, set()) for k in deps}
    res = []
    for _ in range(6):
        if len(fs) < 2:
            break
        a = rng.randrange(len(fs))
        S = {a}
        cand = [k for k in deps if k in anc[a] or a in anc[k]]
        if not cand:
            continue
        S.add(rng.choice(cand))
        # convex closure: add every function on a path between two members
        changed = True
        while changed:
            changed = False
            for k in deps:
                if k not in S and any(k in anc[s] for s in S) and any(s in anc[k] for s in S):
                    S.add(k)
                    changed = True
        # NestedPipeFunc demands a single leaf among the nested functions
        leaves = [k for k in S if not any(k in deps[j] for j in S if j != k)]
        if len(S) >= 2 and len(leaves) == 1 and S not in res:
            res.append(S)
    return res


def apply_rewrite(kind, st, case, rng, scratch):
    import cloudpickle

    from pipefunc import Pipeline

    p = st.p
    if isinstance(p, list):
        raise Skip
    if kind == "copy":
        return State(p.copy(), dict(st.names), list(st.outs), st.conv, st.scope, st.nested)
    if kind == "pickle":
        try:
            q = cloudpickle.loads(cloudpickle.dumps(p))
        except RuntimeError as e:
            if "Cannot pickle non-shared cache" in str(e):  # documented refusal (pipelines with a process-local cache)
                raise Skip from None
            raise
        return State(q, dict(st.names), list(st.outs), st.conv, st.scope, st.nested)
    if kind in ("join", "or"):
        fs = list(p.functions)
        if len(fs) < 2:
            raise Skip
        k = rng.randint(1, len(fs) - 1)
        a, b = Pipeline(fs[:k]), Pipeline(fs[k:])
        q = a.join(b) if kind == "join" else (a | b)
        return State(q, dict(st.names), list(st.outs), st.conv, st.scope, st.nested)
    if kind == "rename":
        present = {n for f in p.functions for n in list(f.parameters) + list(f.output_name if isinstance(f.output_name, tuple) else (f.output_name,))}
        cur = sorted(set(st.names.values()) & present)
        if not cur:
            raise Skip
        chosen = [n for n in cur if rng.random() < 0.6] or cur[:1]
        ren = {n: (n.split(".")[-1] + f"_R{rng.randint(0, 99)}") if "." not in n else n.split(".")[0] + "." + n.split(".")[-1] + f"_R{rng.randint(0, 99)}"
               for n in chosen}
        if len(set(ren.values())) != len(ren) or set(ren.values()) & set(cur):
            raise Skip
        q = p.copy() if st.base else p  # products of earlier rewrites (e.g. an unpickled pipeline) are updated in place
        if rng.random() < 0.3:
            # the same rename applied member by member (p[name].update_renames): the pipeline must follow its functions
            for f in list(q.functions):
                mine = set(f.parameters) | set(f.output_name if isinstance(f.output_name, tuple) else (f.output_name,))
                sub = {k_: v_ for k_, v_ in ren.items() if k_ in mine}
                if sub:
                    f.update_renames(sub, update_from="current")
        else:
            q.update_renames(ren, update_from="current")
        return State(q, {o: ren.get(c, c) for o, c in st.names.items()}, list(st.outs), st.conv, st.scope, st.nested)
    if kind == "rename-restore":
        # update_renames({name: name}, update_from="original") gives the signature names back: undoes earlier renames
        changed = {o: c for o, c in st.names.items() if c != o}
        if not changed or st.scope is not None or st.nested or isinstance(p, list) or any(f["iparams"] != f["params"] for f in case["funcs"]):
            raise Skip
        q = p.copy() if st.base else p
        q.update_renames({o: o for o in changed}, update_from="original")
        return State(q, {o: o for o in st.names}, list(st.outs), st.conv, st.scope, st.nested)
    if kind == "rename-swap":
        # permute the names of two root parameters that meet in one function (each new name is the other's current name)
        present_roots = [r for r in case["roots"] if st.names.get(r) and any(st.names[r] in f.parameters for f in p.functions)]
        pairs = [(a, b) for f in case["funcs"] for a in f["params"] for b in f["params"]
                 if a < b and a in present_roots and b in present_roots]
        if not pairs:
            raise Skip
        a, b = rng.choice(pairs)
        ca, cb = st.names[a], st.names[b]
        q = p.copy() if st.base else p
        q.update_renames({ca: cb, cb: ca}, update_from="current")
        names = dict(st.names)
        names[a], names[b] = cb, ca
        return State(q, names, list(st.outs), st.conv, st.scope, st.nested)
    if kind in ("scope", "scope-nested"):
        if st.scope is not None:
            raise Skip
        how = rng.choice(["pipeline", "pipeline", "constructor", "members"])
        if how == "constructor":
            # Pipeline(functions, scope=...) is documented as the same as update_scope(scope, "*", "*") afterwards
            q = Pipeline([f.copy() for f in p.functions], scope="sc")
        elif how == "members":
            q = p.copy() if st.base else p
            for f in q.functions:   # the same rewrite applied through the member functions
                f.update_scope("sc", "*", "*")
        else:
            q = p.copy() if st.base else p
            q.update_scope("sc", "*", "*")
        present = {n for f in q.functions for n in list(f.parameters) + list(f.output_name if isinstance(f.output_name, tuple) else (f.output_name,))}
        # (a parameter that is bound wherever it occurs keeps its name: nobody can supply it)
        free = {n for f in q.functions for n in f.parameters if n not in f.bound} | {n for f in q.functions for n in (f.output_name if isinstance(f.output_name, tuple) else (f.output_name,))}
        left = sorted(c for c in st.names.values() if c in free and f"sc.{c}" not in present)
        if left:
            # update_scope(scope, "*", "*") / Pipeline(..., scope=scope) puts EVERY input and output into the scope
            raise Broken(f"scope-not-applied/{how}", f"after scoping everything ({how}) these names are still unscoped: {left[:6]}")
        return State(q, {o: f"sc.{c}" for o, c in st.names.items()}, list(st.outs),
                     "nested" if kind == "scope-nested" else "flat", "sc", st.nested)
    if kind == "rescope":
        # a pipeline that already lives in scope 'sc' is moved into another scope: the new scope REPLACES the old one
        if st.scope is None or st.nested:
            raise Skip
        q = p.copy() if st.base else p
        how = rng.choice(["pipeline", "members"])
        if how == "members":
            for f in q.functions:
                f.update_scope("t2", "*", "*")
        else:
            q.update_scope("t2", "*", "*")
        return State(q, {o: ("t2." + c.split(".", 1)[1] if c.startswith(st.scope + ".") else "t2." + c) for o, c in st.names.items()},
                     list(st.outs), st.conv, "t2", st.nested)
    if kind == "scope-remove":
        if st.scope is None:
            raise Skip
        q = p.copy() if st.base else p
        q.update_scope(None, "*", "*")
        return State(q, {o: (c.split(".", 1)[1] if c.startswith(st.scope + ".") else c) for o, c in st.names.items()}, list(st.outs), "flat", None, st.nested)
    if kind in ("nest", "nest-all"):
        q = p.copy()
        if len(q.functions) < 2:
            raise Skip
        if kind == "nest-all":
            if len(q.leaf_nodes) != 1:
                raise Skip  # NestedPipeFunc demands a single leaf
            q.nest_funcs("*")
        else:
            if st.nested:
                raise Skip  # the harness's convexity analysis is done on the original DAG only
            subs = convex_subsets(case, rng)
            if not subs:
                raise Skip
            S = subs[0]
            cur_out = {st.names[f["outs"][0]] for k, f in enumerate(case["funcs"]) if k in S}
            if not all(c in q.output_to_func for c in cur_out):
                raise Skip  # already nested by an earlier rewrite of the chain
            # one name per distinct function (earlier nests may have merged some of them)
            byf = {}
            for c in sorted(cur_out):
                byf.setdefault(id(q.output_to_func[c]), c)
            cur_out = set(byf.values())
            if len(cur_out) < 2:
                raise Skip
            sub = [q.output_to_func[c] for c in cur_out]
            from pipefunc import Pipeline as _P
            if len(_P(sub).leaf_nodes) != 1:
                raise Skip
            q.nest_funcs(cur_out)
        return State(q, dict(st.names), list(st.outs), st.conv, st.scope, nested=True)
    if kind == "simplify":
        leaves = p.leaf_nodes
        if len(leaves) != 1:
            raise Skip
        leaf = leaves[0].output_name
        try:
            q = p.simplified_pipeline(leaf)
        except ValueError as e:
            if "No combinable nodes" in str(e):
                raise Skip from None
            raise
        keep = [o for o in st.outs if st.names[o] in q.output_to_func or any(st.names[o] in (n if isinstance(n, tuple) else (n,)) for n in q.output_to_func)]
        return State(q, dict(st.names), keep, st.conv, st.scope, True)
    if kind == "split":
        try:
            parts = list(p.split_disconnected())
        except ValueError as e:
            if "fully connected" in str(e):
                # own analysis: functions are connected when they share a name (parameter or output)
                groups = []
                for f in p.functions:
                    names = set(f.parameters) | set(f.output_name if isinstance(f.output_name, tuple) else (f.output_name,))
                    hit = [g for g in groups if g & names]
                    for g in hit:
                        groups.remove(g)
                        names |= g
                    groups.append(names)
                if len(groups) >= 2:
                    raise SplitRefused(f"split_disconnected refused a pipeline with {len(groups)} disconnected parts: {e}") from None
                raise Skip from None
            raise
        return State(parts, dict(st.names), list(st.outs), st.conv, st.scope, st.nested)
    raise AssertionError(kind)


def call_state(st, out, K):
    """Call the rewritten pipeline for ORIGINAL output name `out` with ORIGINAL keyword names K."""
    cur_out = st.names[out]
    kw = {st.names[k]: v for k, v in K.items()}
    if st.conv == "nested" and st.scope:
        inner = {k.split(".", 1)[1]: v for k, v in kw.items() if k.startswith(st.scope + ".")}
        kw = {k: v for k, v in kw.items() if not k.startswith(st.scope + ".")}
        if inner:
            kw[st.scope] = inner
    p = st.p
    if isinstance(p, list):
        cands = [q for q in p if cur_out in q.output_to_func]
        if len(cands) != 1:
            raise KeyError(f"output {cur_out} found in {len(cands)} components")
        p = cands[0]
    return p(cur_out, **kw)


def keyword_sets(case, out, rng, roots_only=False):
    roots = daggen.needed_roots(case, out)
    yield {r: f"v_{r}" for r in roots}
    dflt = [r for r in roots if r in case["defaults"]]
    if dflt:
        yield {r: f"v_{r}" for r in roots if r not in dflt}
    inter = daggen.interior_names(case, out)
    if inter and not roots_only:
        c = rng.choice(inter)
        yield {**{r: f"w_{r}" for r in daggen.needed_roots(case, out, {c})}, c: f"s_{c}"}


def check_state(v, case, st, chain, rng, w, orig_state=None):
    n = 0
    # inside a nested function intermediates are internal: only the (root) inputs are inputs of the rewritten pipeline
    roots_only = any(k in ("nest", "nest-all", "simplify") for k in chain)
    inv = {c: o for o, c in st.names.items()}
    for out in st.outs:
        ksets = list(keyword_sets(case, out, rng, roots_only))
        if roots_only:
            # a nested function is atomic: asking for one of its outputs needs all of its inputs. Which inputs the
            # rewritten pipeline wants for this output is read from its own root_args (only to choose the inputs;
            # expected values still come from the reference evaluator on the original description).
            try:
                pp = st.p if not isinstance(st.p, list) else next(q for q in st.p if st.names[out] in q.output_to_func)
                need = [inv[r] for r in pp.root_args(st.names[out]) if r in inv]
            except Exception:  # noqa: BLE001
                need = None
            if need is not None:
                ksets = [{r: f"v_{r}" for r in need}]
                if any(r in case["defaults"] for r in need) and set(need) - set(case["defaults"]):
                    ksets.append({r: f"v_{r}" for r in need if r not in case["defaults"]})
        for K in ksets:
            try:
                ref = daggen.ref_eval(case, out, K)
            except daggen.Missing:
                continue
            if set(K) - ref["used"] and not roots_only:
                continue
            if any(k not in st.names for k in K):
                continue
            try:
                with quiet():
                    got = call_state(st, out, K)
            except Exception as e:  # noqa: BLE001
                v.bad(exc_sig(e, f"call-after:{'+'.join(sorted(set(chain)))}"), f"rewritten pipeline raised for {out} {K}: {exc_msg(e)}", output=out, kwargs=K, **w)
                return n
            n += 1
            v.count("values_compared")
            if got != ref["value"]:
                v.bad(f"value-after:{'+'.join(sorted(set(chain)))}", f"{out}: got {got!r:.200} expected {ref['value']!r:.200}", output=out, kwargs=K, **w)
                return n
    return n


def overwrite_case(case, p, new):
    """Description of the pipeline after update_renames({p: new}, overwrite=True): every function keeps only that
    rename - all its OTHER parameters go back to the function's own names (earlier renames are dropped)."""
    import copy

    c = copy.deepcopy(case)
    for f in c["funcs"]:
        m = {old: (new if old == p else ip) for old, ip in zip(f["params"], f["iparams"])}
        f["bound"] = {m[k]: x for k, x in f["bound"].items()}
        f["defaults"] = {m[k]: x for k, x in f["defaults"].items()}
        f["params"] = [m[k] for k in f["params"]]
    outs = {o for f in c["funcs"] for o in f["outs"]}
    c["roots"] = sorted({q for f in c["funcs"] for q in f["params"] if q not in outs})
    c["defaults"] = {}
    for f in c["funcs"]:
        for k, x in f["defaults"].items():
            if k in c["roots"] and k not in f["bound"]:
                c["defaults"][k] = x
    return c


def check_overwrite_renames(v, case, rng, w0):
    """update_renames(..., overwrite=True) on a pipeline whose functions carry earlier renames."""
    renamed = [f for f in case["funcs"] if f["iparams"] != f["params"]]
    roots_used = [p for f in case["funcs"] for p in f["params"] if p in case["roots"]]
    if not renamed or not roots_used or len(case["funcs"]) < 2:
        return
    p = rng.choice(sorted(set(roots_used)))
    new = p + "_W"
    c2 = overwrite_case(case, p, new)
    # the reverted names must not collide with outputs / produce inconsistent defaults: keep to the clean situations
    outs = set(daggen.all_outputs(case))
    if any(q in outs and q not in f0["params"] for f, f0 in zip(c2["funcs"], case["funcs"]) for q in f["params"]):
        return
    vals = {}
    for f in c2["funcs"]:
        for k, x in f["defaults"].items():
            if vals.setdefault(k, x) != x:
                return
        if set(f["defaults"]) & set(f["bound"]):
            return
    try:
        with quiet():
            q = daggen.build_pipeline(case)
            q.update_renames({p: new}, overwrite=True, update_from="current")
    except Exception as e:  # noqa: BLE001
        v.bad(exc_sig(e, "rewrite-raised:rename-overwrite"), f"update_renames({{{p!r}: {new!r}}}, overwrite=True) raised {exc_msg(e)}", **w0)
        return
    v.count("rewrite:rename-overwrite")
    for out in daggen.all_outputs(c2):
        K = {r: f"v_{r}" for r in daggen.needed_roots(c2, out)}
        try:
            ref = daggen.ref_eval(c2, out, K)
        except daggen.Missing:
            continue
        try:
            with quiet():
                got = q(out, **K)
        except Exception as e:  # noqa: BLE001
            v.bad(exc_sig(e, "call-after:rename-overwrite"), f"pipeline after update_renames(overwrite=True) raised for {out} {K}: {exc_msg(e)}",
                  renamed=[p, new], **w0)
            return
        v.count("values_compared")
        if got != ref["value"]:
            v.bad("value-after:rename-overwrite", f"{out}: got {got!r:.200} expected {ref['value']!r:.200}", renamed=[p, new], **w0)
            return


def _lit(funcs, roots, defaults=None):
    return {"roots": roots, "defaults": defaults or {},
            "funcs": [{"name": n, "params": list(ps), "iparams": list(ps), "outs": list(os_), "defaults": dict(df), "bound": {}}
                      for n, ps, os_, df in funcs]}


# directed DAGs: a consumer OUTSIDE a combinable group takes BOTH members of a tuple output produced inside the group
LITERAL_DAGS = [
    _lit([("f0", ["r0"], ["o0a", "o0b"], {}), ("f1", ["o0a"], ["o1"], {}), ("f2", ["o1", "r1", "o0a", "o0b"], ["o2"], {})], ["r0", "r1"]),
    _lit([("f0", ["r0"], ["o0a", "o0b"], {}), ("f1", ["o0b"], ["o1"], {}), ("f2", ["o0b", "o0a", "r1", "o1"], ["o2"], {}),
          ("f3", ["o2", "r0"], ["o3"], {})], ["r0", "r1"]),
    _lit([("f0", ["r0", "r1"], ["o0a", "o0b"], {"r1": "Dr1"}), ("f1", ["o0a", "r0"], ["o1"], {}), ("f2", ["o1", "r2", "o0a", "o0b"], ["o2a", "o2b"], {})],
         ["r0", "r1", "r2"], {"r1": "Dr1"}),
]


def run_dag(v, desc, scratch, keys):
    for i in range(desc["start"], desc["start"] + desc["n"]):
        case = daggen.case_from_seed(desc["seed"], i, p_ign=0.0)
        if i < len(LITERAL_DAGS):
            case = LITERAL_DAGS[i]
        rng = random.Random(f"c10:{desc['seed']}:{i}")
        cached = i % 4 == 3
        try:
            with quiet():
                if cached:
                    # every function cached and the ORIGINAL already evaluated (warm cache) before it is rewritten: a
                    # rewritten pipeline must not be answered from what the original computed under other names
                    p0 = daggen.build_pipeline(case, explicit_defaults=(i % 2 == 0), cache={f["name"] for f in case["funcs"]},
                                               pipeline_kwargs=[{"cache_type": "simple"}, {"cache_type": "lru", "cache_kwargs": {"shared": False}}][(i // 4) % 2])
                    wrng = random.Random(f"c10warm:{desc['seed']}:{i}")
                    for out in daggen.all_outputs(case):
                        for K in keyword_sets(case, out, wrng, False):
                            try:
                                p0(out, **K)
                            except Exception:  # noqa: BLE001
                                pass
                    v.count("cases_with_warm_cache")
                else:
                    # (i % 4 == 2: explicit default / bound values are objects with an identity - a rewrite that duplicates them
                    #  computes with other values)
                    p0 = daggen.build_pipeline(case, explicit_defaults=(i % 2 == 0), value_wrap=(probes.Ident if i % 4 == 2 else None))
                    if i % 4 == 2:
                        v.count("cases_with_identity_valued_defaults_and_bound_values")
        except Exception as e:  # noqa: BLE001
            v.bad(exc_sig(e, "refused-construct"), f"valid DAG refused: {exc_msg(e)}", case=daggen.describe(case))
            continue
        names = {n: n for n in set(case["roots"]) | set(daggen.all_outputs(case))}
        base = State(p0, names, daggen.all_outputs(case), base=True)
        w0 = dict(case=daggen.describe(case))
        v.hit(daggen.classes(case))
        check_overwrite_renames(v, case, rng, w0)
        chains = [[k] for k in REWRITES]
        chains += [["pickle", k] for k in ("rename", "scope", "rename-swap")] + [["pickle", "scope", "scope-remove"]]
        chains += [["scope", "rescope"], ["scope-nested", "rescope"], ["scope", "rescope", "scope-remove"]]
        chains += [["rename", "rename-restore"], ["rename-swap", "rename-restore"], ["rename", "copy", "rename-restore"]]
        for _ in range(desc["chains"] * 6):
            chains.append([rng.choice(REWRITES) for _ in range(rng.randint(2, 3))])
        for chain in chains:
            st = base
            w = dict(w0, chain=chain)
            try:
                with quiet():
                    for kind in chain:
                        st = apply_rewrite(kind, st, case, rng, scratch)
            except Skip:
                continue
            except Broken as b:
                v.bad(b.args[0], f"rewrite {chain}: {b.args[1]}", **w)
                continue
            except Exception as e:  # noqa: BLE001
                scoped = "/scoped" if (st.scope is not None) else ""
                v.bad(exc_sig(e, f"rewrite-raised:{kind}") + scoped, f"rewrite {chain} raised at step {kind}: {exc_msg(e)}", **w)
                continue
            v.count("rewrites_applied")
            for kind in chain:
                v.count(f"rewrite:{kind}")
            tuple_pos = ("tuple_interior" in daggen.classes(case), "tuple_leaf" in daggen.classes(case))
            if tuple_pos[0]:
                v.count(f"rewrite_on_tuple_interior:{chain[0]}" if len(chain) == 1 else "chain_on_tuple_interior")
            if tuple_pos[1]:
                v.count(f"rewrite_on_tuple_leaf:{chain[0]}" if len(chain) == 1 else "chain_on_tuple_leaf")
            n = check_state(v, case, st, chain, rng, w)
            # the original is unchanged by the rewrite
            m = check_state(v, case, base, ["original-after"] + chain, rng, w)
            if n and max((len(daggen.needed_funcs(case, [o])) for o in st.outs), default=0) >= 2:
                keys.append(f"{daggen.signature(case)}|{chain}")
            # non-interference: mutate the rewritten object, the original must not change (and vice versa)
            if not isinstance(st.p, list) and len(chain) == 1 and chain[0] in ("copy", "pickle", "rename", "scope", "join", "or", "nest-all"):
                try:
                    with quiet():
                        if case["defaults"]:
                            r = sorted(case["defaults"])[0]
                            if st.names[r] in st.p.defaults:
                                # non-overwrite update (merges into the stored defaults) and an overwriting one
                                st.p.update_defaults({st.names[r]: "MUTDEF"}, overwrite=bool(i % 2))
                        tgt = st.p.functions[0]
                        cur = [c for c in tgt.parameters if c not in tgt.defaults]
                        if cur:
                            tgt.update_bound({cur[0]: "MUTATED"})
                except Exception:  # noqa: BLE001
                    pass
                # ... and USE the mutated object (whatever it returns now): nothing it computes or caches may reach the original
                # (with argument values nobody used before, so that nothing is answered from a warm cache)
                fresh_calls = []
                for out_ in st.outs:
                    K_ = {r: f"n_{r}" for r in daggen.needed_roots(case, out_)}
                    try:
                        with quiet():
                            call_state(st, out_, K_)
                    except Exception:  # noqa: BLE001
                        pass
                    fresh_calls.append((out_, K_))
                for out_, K_ in fresh_calls:
                    try:
                        ref_ = daggen.ref_eval(case, out_, K_)
                        with quiet():
                            got_ = call_state(base, out_, K_)
                    except Exception:  # noqa: BLE001  (judged by check_state below)
                        continue
                    v.count("values_compared")
                    if got_ != ref_["value"]:
                        v.bad("original-changed-by-use-of-mutated-" + "+".join(chain), f"{out_}: the original returns {got_!r:.160} after the rewritten and "
                              f"then mutated pipeline was used with the same arguments; expected {ref_['value']!r:.160}", **w)
                        break
                v.count("non_interference_checks")
                # the untouched original must not change - observed directly and through a further rewrite of it
                check_state(v, case, base, ["original-after-mutating-result-of"] + chain, rng, w)
                try:
                    with quiet():
                        again = State(base.p.copy(), dict(base.names), list(base.outs))
                    check_state(v, case, again, ["copy-of-original-after-mutating-result-of"] + chain, rng, w)
                except Exception as e:  # noqa: BLE001
                    v.bad(exc_sig(e, "copy-of-original-after-mutation"), f"copying the original after mutating the rewritten pipeline raised {exc_msg(e)}", **w)


def elementwise_chain_case(rng):
    """Directed family: 2-3 element-wise functions over the same axes (identical input and output indices), the shape a
    NestedPipeFunc can combine the MapSpecs of; one- or two-dimensional, with a second zipped root input."""
    ax = rng.choice([["i"], ["i", "j"]])
    sub = ", ".join(ax)

    def fn(name, params, outs):
        modes = {p: list(ax) for p in params}
        ms = ", ".join(f"{p}[{sub}]" for p in params) + " -> " + ", ".join(f"{o}[{sub}]" for o in outs)
        return {"name": name, "params": params, "outs": outs, "mapspec": ms, "modes": modes, "out_axes": list(ax),
                "internal": [], "internal_shape": [], "ret_list": False, "ishape_via": None}
    roots = {"x0": {"axes": list(ax), "kind": "ndarray"}, "x1": {"axes": list(ax), "kind": "ndarray"}}
    funcs = [fn("f0", ["x0"], ["y0"]), fn("f1", ["y0", "x1"], ["y1"])]
    if rng.random() < 0.6:
        funcs.append(fn("f2", ["y1", "x0"], ["y2"]))
    return {"sizes": {a: rng.randint(1, 3) for a in mapgen.AX}, "roots": roots, "funcs": funcs}


def bound_downstream_case(rng):
    """Directed family: the scalar root x0 is an ordinary input of f0, while a function downstream of f0 BINDS a parameter
    of the same name (so it depends on x0 only through f0's output); optionally a third function binds nothing."""
    n = rng.randint(2, 3)

    def fn(name, params, outs, mapspec, modes, out_axes, bound=None):
        d = {"name": name, "params": params, "outs": outs, "mapspec": mapspec, "modes": modes, "out_axes": list(out_axes),
             "internal": [], "internal_shape": [], "ret_list": False, "ishape_via": None}
        if bound:
            d["bound"] = bound
        return d
    mapped = rng.random() < 0.7
    roots = {"x0": {"axes": [], "kind": "scalar"}, "x1": {"axes": ["i"] if mapped else [], "kind": "list" if mapped else "scalar"}}
    ax = ["i"] if mapped else []
    sub = "[i]" if mapped else ""
    funcs = [fn("f0", ["x1", "x0"], ["y0"], f"x1[i] -> y0[i]" if mapped else None, {"x1": ["i"] if mapped else "whole", "x0": "whole"}, ax),
             fn("f1", ["y0", "x0"], ["y1"], f"y0[i] -> y1[i]" if mapped else None, {"y0": ["i"] if mapped else "whole", "x0": "whole"}, ax,
                bound={"x0": "Bf1x0"})]
    if n == 3:
        funcs.append(fn("f2", ["y1", "x0"], ["y2"], f"y1[i] -> y2[i]" if mapped else None, {"y1": ["i"] if mapped else "whole", "x0": "whole"}, ax))
    return {"sizes": {a: rng.randint(1, 3) for a in mapgen.AX}, "roots": roots, "funcs": funcs}


# ------------------------------------------------------------------------------------------ map part
def run_map(v, desc, scratch, keys):
    import cloudpickle

    for i in range(desc["start"], desc["start"] + desc["n"]):
        case = mapgen.case_from_seed(desc["seed"], i, max_funcs=3, allow_bound=(i % 2 == 1))
        rng = random.Random(f"c10m:{desc['seed']}:{i}")
        if i % 4 == 2:
            case = bound_downstream_case(rng)
            v.count("map_cases_binding_a_lifted_name_downstream")
        nestable = False
        if i % 4 == 0:
            case = elementwise_chain_case(rng)   # MapSpecs that a NestedPipeFunc can combine
            nestable = True
            v.count("map_cases_with_nestable_chain")
        env, _ = mapgen.oracle(case)
        inputs = mapgen.make_inputs(case)
        ish = mapgen.internal_shapes_arg(case)
        try:
            with quiet():
                p0 = mapgen.build_pipeline(case)
                r0 = p0.map(inputs, run_folder=os.path.join(scratch, f"b{i}"), internal_shapes=ish, parallel=False, storage="dict")
            if any(probes.render(r0[o].output) != probes.render(env[o]) for f in case["funcs"] for o in f["outs"]):
                raise ValueError
        except Exception:  # noqa: BLE001
            v.count("skipped_baseline_refused")
            continue
        w0 = dict(case=mapgen.describe(case))
        outs = [o for f in case["funcs"] for o in f["outs"]]
        scal = [r for r, s_ in case["roots"].items() if s_["kind"] == "scalar"]
        chains = [[k] for k in ("copy", "pickle", "rename", "scope", "join", "or")]
        if scal:
            chains.append(["axis"])
        pool = ["copy", "pickle", "rename", "scope", "join", "or"] + (["axis", "axis"] if scal else [])
        for _ in range(3):  # sequences of rewrites (order matters): e.g. axis -> join, rename -> axis -> pickle
            ch = []
            for _k in range(rng.randint(2, 3)):
                cand = [k for k in pool if not (k in ("scope", "axis", "join", "or") and k in ch) and not (k in ("join", "or") and ("join" in ch or "or" in ch))]
                ch.append(rng.choice(cand))
            chains.append(ch)
        if nestable:
            chains += [["nest"], ["nest", "copy"], ["rename", "nest"], ["nest", "pickle"], ["nest", "rename"], ["copy", "nest", "join"],
                       ["join", "split"], ["or", "split", "rename"]]  # (simplified_pipeline refuses MapSpec pipelines: NotImplementedError by design)
        for chain in chains:
            map_chain(v, case, p0, env, inputs, ish, outs, chain, scal, rng, scratch, f"{i}-{'-'.join(chain)}", w0)
            keys.append(f"{mapgen.signature(case)}|map|{'+'.join(chain)}")


def map_chain(v, case, p0, env, inputs, ish, outs, chain, scal, rng, scratch, tag, w0):
    """Apply the rewrites of `chain` in order to (a copy of) p0, map the result and compare with the denotation
    ("axis" = add_mapspec_axis on a scalar root: slice n of every dependent output == result for the n-th value)."""
    import cloudpickle
    from pipefunc import PipeFunc, Pipeline

    names = {n: n for n in list(case["roots"]) + outs}
    w = dict(w0, rewrites=chain)
    label = "+".join(chain)
    pname, vals = (scal[0], [f"{scal[0]}val{n}" for n in range(3)]) if "axis" in chain else (None, None)
    extra_inputs = {}
    try:
        with quiet():
            q = p0.copy()
            for step, kind in enumerate(chain):
                if kind == "copy":
                    q = q.copy()
                elif kind == "pickle":
                    q = cloudpickle.loads(cloudpickle.dumps(q))
                elif kind == "rename":
                    ren = {n: f"{n}_R{step}" for n in names if rng.random() < 0.7} or {outs[-1]: outs[-1] + f"_R{step}"}
                    q.update_renames({names[n]: (names[n].split(".")[0] + "." if "." in names[n] else "") + new for n, new in ren.items()})
                    names = {n: ((names[n].split(".")[0] + "." if "." in names[n] else "") + ren[n] if n in ren else names[n]) for n in names}
                elif kind == "scope":
                    q.update_scope("sc", "*", "*")
                    names = {n: f"sc.{x}" for n, x in names.items()}
                elif kind in ("join", "or"):
                    other = Pipeline([PipeFunc(probes.make_probe(f"zx{step}", ["zin"], 1), f"zout{step}")])
                    q = q.join(other) if kind == "join" else (q | other)
                    extra_inputs["zin"] = "Z"
                    names["zin"], names[f"zout{step}"] = "zin", f"zout{step}"
                elif kind == "axis":
                    q.add_mapspec_axis(names[pname], axis="zz")
                elif kind == "simplify":
                    q = q.simplified_pipeline(names[case["funcs"][-1]["outs"][0]])
                elif kind == "split":
                    parts = q.split_disconnected()
                    q = next(pp for pp in parts if names[case["funcs"][-1]["outs"][0]] in pp.output_to_func)
                    # the independent pipeline that join / | had added is in another part now
                    extra_inputs.clear()
                    names = {n_: c_ for n_, c_ in names.items() if not n_.startswith(("zin", "zout"))}
                elif kind == "nest":
                    # the first two functions of the chain become one NestedPipeFunc (their MapSpecs are combined)
                    q.nest_funcs({names[case["funcs"][0]["outs"][0]], names[case["funcs"][1]["outs"][0]]})
            ish2 = {names[k]: x for k, x in (ish or {}).items()} or None
            inp = {names[k]: x for k, x in inputs.items()}
            if pname:
                inp[names[pname]] = vals
            inp.update({names[k]: x for k, x in extra_inputs.items()})
            r = q.map(inp, run_folder=os.path.join(scratch, f"m{tag}"), internal_shapes=ish2, parallel=False, storage="dict")
    except Exception as e:  # noqa: BLE001
        v.bad(exc_sig(e, f"map-after:{label}"), f"map of the rewritten pipeline raised: {exc_msg(e)}", **w)
        return
    v.count(f"map_rewrite:{label}" if len(chain) == 1 else "map_rewrite:sequences")
    if any(k in ("simplify", "split") for k in chain):
        have = {n_ for f_ in q.functions for n_ in (f_.output_name if isinstance(f_.output_name, tuple) else (f_.output_name,))}
        leaf = case["funcs"][-1]["outs"][0]
        if names[leaf] not in have:
            v.bad(f"map-value-after:{label}", f"the rewritten pipeline lost its leaf output {leaf}", **w)
            return
        outs = [o for o in outs if names[o] in have]
    if pname is None:
        for o in outs:
            v.count("map_values_compared")
            if names[o] not in r or probes.render(r[names[o]].output) != probes.render(env[o]):
                v.bad(f"map-value-after:{label}", f"{o} differs after {label}", got=probes.render(r[names[o]].output)[:300] if names[o] in r else None,
                      expected=probes.render(env[o])[:300], **w)
                break
        return
    v.count("add_mapspec_axis_runs")
    dependent = set()
    for f in case["funcs"]:
        # a function that BINDS pname does not receive the input of that name (but may depend on it through upstream outputs)
        if (pname in f["params"] and pname not in f.get("bound", {})) or any(p_ in dependent for p_ in f["params"]):
            dependent.update(f["outs"])
    per = [mapgen.oracle(case, {**inputs, pname: val})[0] for val in vals]
    for f in case["funcs"]:
        for o in f["outs"]:
            if names[o] not in r:
                v.bad(f"map-value-after:{label}", f"{o} missing after {label}", **w)
                continue
            got = r[names[o]].output
            if o not in dependent:
                if probes.render(got) != probes.render(env[o]):
                    v.bad(f"add_mapspec_axis:independent-output-changed/{label}", f"{o} does not depend on {pname} but changed", **w)
                continue
            arr = np.asarray(got, dtype=object) if not isinstance(got, np.ndarray) else got
            exp0 = per[0][o]
            base_rank = np.ndim(exp0) if isinstance(exp0, np.ndarray) else 0
            v.count("lifted_outputs_compared")
            if np.ndim(arr) != base_rank + 1:
                v.bad(f"add_mapspec_axis:rank/{label}", f"{o}: lifted rank {np.ndim(arr)}, expected {base_rank + 1}", **w)
                continue
            # the new axis position: try every axis, one must match for all n (the property does not fix the position)
            ok_any = False
            for axpos in range(arr.ndim):
                if arr.shape[axpos] != 3:
                    continue
                if all(probes.render(np.take(arr, n, axis=axpos)) == probes.render(per[n][o]) for n in range(3)):
                    ok_any = True
                    break
            if not ok_any:
                v.bad(f"add_mapspec_axis:slice-differs/{label}", f"{o}: no axis of the lifted result has slice n == result for {pname} = p[n]",
                      got=probes.render(arr)[:300], expected0=probes.render(per[0][o])[:200], **w)


def run_case(desc):
    v = V()
    keys = []
    with tmpdir("c10-") as scratch:
        if desc["kind"] == "dag":
            run_dag(v, desc, scratch, keys)
        else:
            run_map(v, desc, scratch, keys)
    return v.result(evaluations=v.counters.get("values_compared", 0), keys=keys, sample={"desc": desc, "rewrites_applied": v.counters.get("rewrites_applied", 0)} if desc["start"] % 96 == 0 else None)


def finalize(agg, tier, seed):
    c = agg.counters
    floors = []
    for k in REWRITES:
        if c.get(f"rewrite:{k}", 0) < 100 and k not in ("split",):
            floors.append(f"rewrite {k} applied {c.get(f'rewrite:{k}', 0)} times (< 100)")
    for k in ("copy", "pickle", "rename", "scope", "nest-all", "join"):
        if c.get(f"rewrite_on_tuple_interior:{k}", 0) < 20 or c.get(f"rewrite_on_tuple_leaf:{k}", 0) < 20:
            floors.append(f"rewrite {k} on tuple-output interior/leaf DAGs: {c.get(f'rewrite_on_tuple_interior:{k}', 0)}/{c.get(f'rewrite_on_tuple_leaf:{k}', 0)} (< 20)")
    if c.get("rewrite:rename-overwrite", 0) < 100:
        floors.append("update_renames(overwrite=True) applied fewer than 100 times")
    if c.get("add_mapspec_axis_runs", 0) < 10:
        floors.append("fewer than 10 add_mapspec_axis runs")
    if c.get("non_interference_checks", 0) < 200:
        floors.append("fewer than 200 non-interference checks")
    return floors, {}
