"""C16 - Type-annotation validation agrees with subtype compatibility (DESIGN 4/C16).

Signatures (the last path component is the trigger predicate of the *smallest* sub-pair on which
is_type_compatible and the reference still disagree, so one mechanism keeps one token across the levels):

  pair:{accepted-invalid|rejected-valid}/<why>    reference relation vs is_type_compatible on one ordered pair
  law:<law>[/<variant>]                            an algebraic law broken by is_type_compatible alone
  pipe:{accepted-incompatible|rejected-compatible}/<why>                 Pipeline(...) verdict explained by a pair-level <why>
  pipe:{...}/<edge kinds>/pair-level-agrees        Pipeline(...) wrong although is_type_compatible is right on every edge
  pipe:rejected-with-validation-off/..., pipe:exc-on-compatible:..., pipe:wrong-exception-on-incompatible:...
  triple:.../<why>                                 disagreement on a literal triple of tests/test_typing.py

<why> tokens seen on the tree this check was written against (mechanisms in pipefunc/typing.py):
  only-target-annotated, only-target-array, law:annotated-transparent/target:*, .../{source,both}:plain-source
        -> _handle_generic_types swaps the arguments when only the required type is Annotated
  generic-arity-mismatch:tuple, law:tuple-arity
        -> _compare_generic_type_args zips argument lists of different length
  tuple-variadic-into-fixed, tuple-fixed-into-variadic (pair / law / pipe)
        -> same function treats `...` of tuple[T, ...] as an ordinary argument
  only-source-annotated:{union,optional}-target, law:annotated-transparent/source:union*-source
        -> a union hidden behind Annotated in the source is matched member-wise too late (union target first)
  array-vs-annotated, law:annotated-transparent/{target,both}:{array,union-of-array}-source
        -> _compare_annotated_types drops the incoming element type before descending into a required union
  pipe:*ValueError@typing.py:is_object_array_type
        -> `array_type, _ = get_args(tp)` on Annotated with more than one metadata item (reduction edges only)
"""
from __future__ import annotations

import functools
import operator
import random
import typing
from typing import Annotated, Any, TypeVar, Union

from vlib import models_c16 as M
from vlib.models_c16 import ANY, BOOL, ELL, INT, NONE, NOANN, STR, array, annot, canon, gen, norm, optional, ref, show, union
from vlib.probes import short
from vlib.util import V, exc_msg, exc_sig, quiet

PROPERTY = "C16"
LEVEL = "exploration"
DEADLINE = 300
RULE = ("annotation terms from the grammar {int,bool,float,str,bytes,NoneType,Any, list/set/tuple (fixed and variadic)/"
        "dict[...], Union (typing.Union and PEP 604), Optional, Annotated[T, <int metadata>], Array[T], TypeVars T (free), "
        "S (str,int), N (bound=int), L (bound=list[int])} to depth <= 3, normalised the way the typing module does; "
        "ordered pairs = (i) all ordered pairs of an enumerated universe (depth<=1 quick, depth<=2 thorough), (ii) pairs "
        "from VERIF_SEED related by bool/int flips under a chosen constructor or 1-3 local edits (widen, narrow, wrap, "
        "unwrap, arity, constructor swap) or unrelated; each pair: is_type_compatible vs the reference relation "
        "(one-sided when the source contains a TypeVar) + algebraic laws on is_type_compatible alone; (iii) 2-3 function "
        "pipelines from 19 wiring templates (direct, element-wise map, whole/unlisted/colon/partial reduction, tuple outputs, "
        "renames, fan-out, join) with such annotations, constructed with validate_type_annotations on and off; "
        "non-trivial pair = not identical and neither side Any/NoAnnotation; distinct = distinct (source, target) terms / "
        "distinct (template, annotations)")
ASSUMPTIONS = ["the reference relation (vlib.models_c16.ref, ~35 lines) is the oracle; it never imports pipefunc and is "
               "checked in every run against the literal triples of tests/test_typing.py (a disagreement is a harness error)",
               "terms are normalised by the harness's own mirror of typing's rules; every built object is converted back "
               "(stdlib get_origin/get_args only) and must equal its term, otherwise harness error",
               "None is written NoneType (what get_type_hints produces); string Annotated metadata is outside the grammar",
               "for a TypeVar anywhere in the source only 'never rejects what the reference accepts' is demanded",
               "a producer already annotated Array[...] consumed through a reduction may count as itself or as Array of "
               "itself (both accepted); internal-shape producers and auto-generated MapSpecs are not generated"]

_P = {}


class V16(V):
    """Batches hold hundreds of cases: keep at most 2 witnesses per signature (and count the rest) so that one
    frequent mechanism cannot crowd a different one out of the report."""

    def bad(self, sig, msg, **witness):
        self.counters[f"violations[{sig}]"] += 1
        if sum(1 for x in self.violations if x["sig"] == sig) < 2 and len(self.violations) < 60:
            self.violations.append({"sig": sig, "msg": msg, "witness": witness})


def _pf():
    """Public pipefunc objects (imported lazily, inside the worker)."""
    if not _P:
        from pipefunc import PipeFunc, Pipeline
        from pipefunc.typing import Array, NoAnnotation, is_type_compatible
        _P.update(PipeFunc=PipeFunc, Pipeline=Pipeline, Array=Array, NoAnnotation=NoAnnotation, itc=is_type_compatible)
    return _P


TVOBJ = {"T": TypeVar("T"), "S": TypeVar("S", str, int), "N": TypeVar("N", bound=int),
         "L": TypeVar("L", bound=list[int])}
for _n, _o in TVOBJ.items():
    M.register_typevar(_o, _n)

_BUILT: dict = {}


def build(t):
    """Term -> real annotation object (public constructors only)."""
    key = t          # the exact term (incl. the spelling of unions): what is built never depends on earlier cases
    if key in _BUILT:
        return _BUILT[key]
    k = t[0]
    if k == "any":
        o = Any
    elif k == "noann":
        o = _pf()["NoAnnotation"]
    elif k == "cls":
        o = t[1]
    elif k == "tv":
        o = TVOBJ[t[1]]
    elif k == "ellipsis":
        o = Ellipsis
    elif k == "gen":
        o = t[1][tuple(build(a) for a in t[2])]
    elif k == "union":
        ms = [build(m) for m in t[1]]
        o = None
        if t[2] == "|":
            try:
                o = functools.reduce(operator.or_, ms)
            except TypeError:
                o = None
        if o is None:
            o = Union[tuple(ms)]  # noqa: UP007
    elif k == "annot":
        metas = list(t[2])
        if M.is_array(t) and metas[0][0] == "aet":
            base, rest = _pf()["Array"][build(metas[0][1])], metas[1:]
        else:
            base, rest = build(t[1]), metas
        assert all(m[0] == "m" for m in rest), t
        o = Annotated[(base, *[m[1] for m in rest])] if rest else base
    else:
        raise AssertionError(t)
    if len(_BUILT) < 200000:
        _BUILT[key] = o
    return o


def selfcheck(t):
    """The object Python built must be the term we think it is (normalisation mirror is right)."""
    back = M.from_py(build(t))
    if canon(back) != canon(t):
        raise AssertionError(f"harness normalisation differs from typing's: term {show(t)} built {build(t)!r} "
                             f"read back as {show(back)}")


class ImplError(Exception):
    def __init__(self, e, a, b):
        super().__init__(str(e))
        self.e, self.a, self.b = e, a, b


def impl(a, b):
    try:
        return bool(_pf()["itc"](build(a), build(b)))
    except Exception as e:  # noqa: BLE001
        raise ImplError(e, a, b) from None


# ------------------------------------------------------------------ diagnosis (signature = mechanism)
def disagree(a, b):
    """None if is_type_compatible agrees with the reference on (a, b) as far as the property demands."""
    exp, got = ref(a, b), impl(a, b)
    if M.has_tv(a):
        return "rejected-valid" if (exp and not got) else None
    if exp != got:
        return "rejected-valid" if exp else "accepted-invalid"
    return None


def localise(a, b, fuel=8):
    """Descend to the smallest sub-pair on which implementation and reference still disagree."""
    if fuel:
        cands = list(M.subpairs(a, b))
        sa, sb = _strip(a), _strip(b)
        if (sa, sb) != (a, b):
            cands.append((sa, sb))       # Annotated is transparent: the same question without the wrappers
        for x, y in cands:
            if (x, y) != (a, b) and disagree(x, y):
                return localise(x, y, fuel - 1)
    return a, b


def _strip(t):
    """Drop a top-level Annotated that carries no array element type."""
    return t[1] if t[0] == "annot" and M.elem(t) is None else t


def why(a, b):
    ka, kb = M.kind(a), M.kind(b)
    sa, sb = a[0] == "annot", b[0] == "annot"
    if sb and not sa:
        return f"only-target-{kb}"
    if sa and not sb:
        return f"only-source-{ka}:{kb}-target"
    if sa and sb:
        return f"{ka}-vs-{kb}"
    if a[0] == "gen" and b[0] == "gen" and a[1] is tuple and b[1] is tuple:
        if (ka, kb) == ("tuple", "tuplevar"):
            return "tuple-fixed-into-variadic"
        if (ka, kb) == ("tuplevar", "tuple"):
            return "tuple-variadic-into-fixed"
        if len(a[2]) != len(b[2]):
            return "generic-arity-mismatch:tuple"
    if ka == "typevar":
        return f"typevar-source:{kb}-target"
    if kb == "typevar":
        cons, bound = M.TVSPEC[b[1]]
        return f"typevar-target-{'constrained' if cons else 'free' if bound is None else 'bound'}:{ka}-source"
    return f"{ka}->{kb}"


def call(a, b):
    return f"is_type_compatible({show(a)}, {show(b)})"


def check_pair(v, a, b):
    """Reference agreement on one ordered pair.  Returns the observed verdict (None if the call raised)."""
    try:
        d = disagree(a, b)
        got = impl(a, b)
    except ImplError as ie:
        v.bad(exc_sig(ie.e, "exc:is_type_compatible"), f"{call(ie.a, ie.b)} raised {exc_msg(ie.e)}",
              source=show(a), target=show(b))
        return None
    exp = ref(a, b)
    v.count("pairs")
    v.count("pairs_reference_compatible" if exp else "pairs_reference_incompatible")
    v.count("pairs_accepted" if got else "pairs_rejected")
    if M.has_tv(a):
        v.count("pairs_typevar_in_source_one_sided")
    if d:
        try:
            ra, rb = localise(a, b)
        except ImplError:
            ra, rb = a, b
        try:
            rgot = impl(ra, rb)
        except ImplError:
            rgot = "raised"
        v.bad(f"pair:{d}/{why(ra, rb)}",
              f"{call(a, b)} = {got} but the reference relation says {exp}; smallest disagreeing sub-pair: "
              f"{call(ra, rb)} = {rgot}, reference {ref(ra, rb)}",
              source=show(a), target=show(b), root_source=show(ra), root_target=show(rb))
    return got


# ------------------------------------------------------------------ algebraic laws (on is_type_compatible alone)
def _unionlike(t):
    """Source whose value set is a union in disguise (the 'one member' reading of a union target is not exact)."""
    if t[0] == "union":
        return True
    if t[0] == "annot":
        return _unionlike(t[1])
    if t[0] == "tv":
        return True
    return False


def law(v, name, ok, text):
    """`text` is a thunk: witnesses are only rendered for a broken law."""
    v.count("law_checks")
    v.count(f"law_{name.split('/')[0]}")
    if not ok:
        v.bad(f"law:{name}", text())


def _srcclass(t):
    """Trigger predicate of the Annotated-transparency laws: what the (bare) source is."""
    if t[0] == "union":
        return "union-of-array-source" if any(M.elem(m) is not None for m in t[1]) else "union-source"
    return "array-source" if M.elem(t) is not None else "plain-source"


def check_laws(v, rng, a, b):
    """a, b normalised, neither NoAnnotation.  c = impl(a, b) is the pivot of the metamorphic laws."""
    c = impl(a, b)
    for t in (a, b):
        law(v, "reflexivity", impl(t, t), lambda: f"{call(t, t)} is False")
        law(v, "any-target", impl(t, ANY), lambda: f"{call(t, ANY)} is False")
        law(v, "noannotation/target", impl(t, NOANN), lambda: f"{call(t, NOANN)} is False")
        law(v, "noannotation/source", impl(NOANN, t), lambda: f"{call(NOANN, t)} is False")
    extra = M.rand_bounded(rng, 1)
    # union target needs one member
    u = norm(union(b, extra, style=rng.choice("U|")) if rng.random() < 0.5 else union(extra, b))
    if u[0] == "union" and not _unionlike(a):
        got, each = impl(a, u), [impl(a, m) for m in u[1]]
        law(v, "union-target-needs-one", got == any(each),
            lambda: f"{call(a, u)} = {got} but the verdicts for the members of the target are {each}")
    # union source needs all members
    for s in {canon(x): x for x in (a, norm(union(a, extra)))}.values():
        if s[0] == "union":
            got, each = impl(s, b), [impl(m, b) for m in s[1]]
            law(v, "union-source-needs-all", got == all(each),
                lambda: f"{call(s, b)} = {got} but the verdicts for the members of the source are {each}")  # noqa: B023
    # Annotated is transparent
    m1, m2 = rng.choice(M.METAS), rng.choice(M.METAS)
    a0, b0 = _strip(a), _strip(b)            # pivot on the bare pair so that each variant names one position
    c0 = impl(a0, b0)
    sa, tb = norm(annot(a0, m1)), norm(annot(b0, m2))
    sc = _srcclass(a0)
    law(v, f"annotated-transparent/source:{sc}", impl(sa, b0) == c0,
        lambda: f"{call(sa, b0)} = {not c0} but {call(a0, b0)} = {c0}")
    law(v, f"annotated-transparent/target:{sc}", impl(a0, tb) == c0,
        lambda: f"{call(a0, tb)} = {not c0} but {call(a0, b0)} = {c0}")
    law(v, f"annotated-transparent/both:{sc}", impl(sa, tb) == c0,
        lambda: f"{call(sa, tb)} = {not c0} but {call(a0, b0)} = {c0}")
    # TypeVar targets
    law(v, "typevar-target/free", impl(a, M.tv("T")), lambda: f"{call(a, M.tv('T'))} is False (T = TypeVar('T'))")
    ci = impl(a, INT)
    law(v, "typevar-target/bound", impl(a, M.tv("N")) == ci,
        lambda: f"{call(a, M.tv('N'))} = {not ci} but {call(a, INT)} = {ci} (N = TypeVar('N', bound=int))")
    if not _unionlike(a):
        e = impl(a, STR) or ci
        law(v, "typevar-target/constrained", impl(a, M.tv("S")) == e,
            lambda: f"{call(a, M.tv('S'))} = {not e} but the constraints str/int give {e} (S = TypeVar('S', str, int))")
    if max(M.depth(a), M.depth(b)) > 2:
        return
    # covariance of every constructor
    o = rng.choice([STR, M.FLOAT, M.BYTES])
    cons = {
        "list": lambda t: gen(list, t), "set": lambda t: gen(set, t), "tuple1": lambda t: gen(tuple, t),
        "tuple2-first": lambda t: gen(tuple, t, o), "tuple2-second": lambda t: gen(tuple, o, t),
        "tuple-variadic": lambda t: gen(tuple, t, ELL), "dict-key": lambda t: gen(dict, t, o),
        "dict-value": lambda t: gen(dict, o, t), "array": array,
    }
    for name, f in cons.items():
        fa, fb = norm(f(a)), norm(f(b))
        got = impl(fa, fb)
        law(v, f"covariance/{name}", got == c, lambda: f"{call(fa, fb)} = {got} but {call(a, b)} = {c}")  # noqa: B023
    if c:
        oa, ob = norm(optional(a)), norm(optional(b))
        law(v, "covariance/optional", impl(oa, ob), lambda: f"{call(oa, ob)} is False but {call(a, b)} is True")
    # arity
    t1, t2 = gen(tuple, a), gen(tuple, a, b)
    law(v, "tuple-arity", not impl(t1, t2), lambda: f"{call(t1, t2)} is True")
    law(v, "tuple-arity", not impl(t2, t1), lambda: f"{call(t2, t1)} is True")
    fixed, var = gen(tuple, a, a), gen(tuple, b, ELL)
    law(v, "tuple-fixed-into-variadic", impl(fixed, var) == c,
        lambda: f"{call(fixed, var)} = {not c} but {call(a, b)} = {c}")
    var_a, fixed_b = gen(tuple, a, ELL), gen(tuple, b)
    law(v, "tuple-variadic-into-fixed", not impl(var_a, fixed_b), lambda: f"{call(var_a, fixed_b)} is True")


# ------------------------------------------------------------------ pipelines
def _f(name, params, outs, mapspec=None, renames=None):
    return {"name": name, "params": params, "outs": outs, "mapspec": mapspec, "renames": renames or {}}


# edges: (producer index, output name, consumer index, consumer's own parameter name, kind)
TEMPLATES = {
    "direct2": ([_f("f", ["x"], ["y"]), _f("g", ["y"], ["z"])], [(0, "y", 1, "y", "direct")]),
    "elem2": ([_f("f", ["x"], ["y"], "x[i] -> y[i]"), _f("g", ["y"], ["z"], "y[i] -> z[i]")],
              [(0, "y", 1, "y", "elementwise")]),
    "elem2extra": ([_f("f", ["x"], ["y"], "x[i] -> y[i]"), _f("g", ["y", "c"], ["z"], "y[i] -> z[i]")],
                   [(0, "y", 1, "y", "elementwise")]),
    "elem2d": ([_f("f", ["x", "u"], ["y"], "x[i], u[j] -> y[i, j]"), _f("g", ["y"], ["z"], "y[i, j] -> z[i, j]")],
               [(0, "y", 1, "y", "elementwise")]),
    "reduce2": ([_f("f", ["x"], ["y"], "x[i] -> y[i]"), _f("g", ["y"], ["z"])], [(0, "y", 1, "y", "reduce-whole")]),
    # the consumer has its own MapSpec, which does not list the mapped output at all: it receives the whole array
    "unlisted2": ([_f("f", ["x"], ["y"], "x[i] -> y[i]"), _f("g", ["y", "w"], ["z"], "w[k] -> z[k]")],
                  [(0, "y", 1, "y", "reduce-unlisted")]),
    "colon2": ([_f("f", ["x"], ["y"], "x[i] -> y[i]"), _f("g", ["y", "w"], ["z"], "y[:], w[k] -> z[k]")],
               [(0, "y", 1, "y", "reduce-colon")]),
    "partial2": ([_f("f", ["x", "u"], ["y"], "x[i], u[j] -> y[i, j]"), _f("g", ["y"], ["z"], "y[i, :] -> z[i]")],
                 [(0, "y", 1, "y", "reduce-partial")]),
    "chain3dd": ([_f("f", ["x"], ["y"]), _f("g", ["y"], ["z"]), _f("h", ["z"], ["w"])],
                 [(0, "y", 1, "y", "direct"), (1, "z", 2, "z", "direct")]),
    "chain3er": ([_f("f", ["x"], ["y"], "x[i] -> y[i]"), _f("g", ["y"], ["z"], "y[i] -> z[i]"), _f("h", ["z"], ["w"])],
                 [(0, "y", 1, "y", "elementwise"), (1, "z", 2, "z", "reduce-whole")]),
    "chain3ee": ([_f("f", ["x"], ["y"], "x[i] -> y[i]"), _f("g", ["y"], ["z"], "y[i] -> z[i]"),
                  _f("h", ["z"], ["w"], "z[i] -> w[i]")],
                 [(0, "y", 1, "y", "elementwise"), (1, "z", 2, "z", "elementwise")]),
    "fan3": ([_f("f", ["x"], ["y"], "x[i] -> y[i]"), _f("g", ["y"], ["z"], "y[i] -> z[i]"), _f("h", ["y"], ["w"])],
             [(0, "y", 1, "y", "elementwise"), (0, "y", 2, "y", "reduce-whole")]),
    "join3": ([_f("f", ["x"], ["y"]), _f("g", ["u"], ["w"]), _f("h", ["y", "w"], ["z"])],
              [(0, "y", 2, "y", "direct"), (1, "w", 2, "w", "direct")]),
    "tuple3d": ([_f("f", ["x"], ["y", "y2"]), _f("g", ["y"], ["z"]), _f("h", ["y2"], ["w"])],
                [(0, "y", 1, "y", "direct+tupleout"), (0, "y2", 2, "y2", "direct+tupleout")]),
    "tuple3m": ([_f("f", ["x"], ["y", "y2"], "x[i] -> y[i], y2[i]"), _f("g", ["y"], ["z"], "y[i] -> z[i]"),
                 _f("h", ["y2"], ["w"])],
                [(0, "y", 1, "y", "elementwise+tupleout"), (0, "y2", 2, "y2", "reduce-whole+tupleout")]),
    "renamed2": ([_f("f", ["x"], ["y"]), _f("g", ["a", "b"], ["z"], None, {"a": "y"})],
                 [(0, "y", 1, "a", "direct+renamed")]),
    # a chain whose middle function gets an AUTO-GENERATED MapSpec (its output is mapped over by the last function): the
    # first, plain edge must still be judged in every listing order (the generated edge itself is left open)
    "autogen3": ([_f("f", ["x"], ["y"]), _f("g", ["y"], ["z"]), _f("h", ["z"], ["w"], "z[i] -> w[i]")],
                 [(0, "y", 1, "y", "direct"), (1, "z", 2, "z", "autogen-elementwise")]),
    # one consumer reads two members of a mapped tuple output in different modes (element-wise and as whole array)
    "tuple2mixed": ([_f("f", ["x"], ["y", "y2"], "x[i] -> y[i], y2[i]"), _f("g", ["y", "y2"], ["z"], "y[i] -> z[i]")],
                    [(0, "y", 1, "y", "elementwise+tupleout"), (0, "y2", 1, "y2", "reduce-unlisted+tupleout")]),
    # the PRODUCER's outputs are renamed in the pipeline (PipeFunc(renames={own output name: pipeline name}))
    "outren2": ([_f("f", ["x"], ["y"], None, {"y": "ya"}), _f("g", ["ya"], ["z"])], [(0, "y", 1, "ya", "direct+outrenamed")]),
    "tuple3outren": ([_f("f", ["x"], ["y", "y2"], None, {"y": "ya", "y2": "yb"}), _f("g", ["ya"], ["z"]), _f("h", ["yb", "y2"], ["w"])],
                     [(0, "y", 1, "ya", "direct+tupleout+outrenamed"), (0, "y2", 2, "yb", "direct+tupleout+outrenamed")]),
}
TEMPLATE_NAMES = sorted(TEMPLATES)


def mkfunc(name, params, ann, nout, sig_defaults=()):
    ns: dict = {}
    body = "0" if nout == 1 else "(" + ", ".join(["0"] * nout) + ")"
    first = min((params.index(p) for p in sig_defaults), default=len(params))  # (defaults from the first chosen parameter on)
    sig = ", ".join(p if k < first else f"{p}=0" for k, p in enumerate(params))
    exec(f"def {name}({sig}):\n    return {body}\n", ns)  # noqa: S102
    fn = ns[name]
    fn.__annotations__ = dict(ann)
    return fn


def gen_pipeline(rng, tname):
    """-> (funcs with annotation terms, edges with (source term, target term)).  NOANN = annotation absent."""
    funcs, edges = TEMPLATES[tname]
    reduced_out = {(p, o) for p, o, _, _, k in edges if k.startswith("reduce")}
    src = {}      # (producer idx, out) -> term
    for i, f in enumerate(funcs):
        noann = rng.random() < 0.07
        for o in f["outs"]:
            md = 2 if (i, o) in reduced_out else 3
            src[(i, o)] = NOANN if noann else M.rand_bounded(rng, min(md, rng.choice([0, 1, 1, 2, 2, 3])))
    par = {}      # (consumer idx, own param name) -> term
    ed = []
    for p, o, c, pn, k in edges:
        a = src[(p, o)]
        if rng.random() < 0.07:
            b = NOANN
        elif a == NOANN:
            b = M.rand_bounded(rng, 2)
        elif k.startswith("reduce"):
            b = M.related(rng, a, 2)
            if rng.random() < 0.7:
                b = array(b)
            elif rng.random() < 0.3:
                b = M.related(rng, array(a), 3)
        else:
            b = M.related(rng, a, 3)
        b = norm(b)
        par[(c, pn)] = b
        ed.append({"producer": p, "out": o, "consumer": c, "param": pn, "kind": k, "source": a, "target": b})
    fs = []
    for i, f in enumerate(funcs):
        ann = {}
        for pn in f["params"]:
            t = par.get((i, pn))
            if t is None:
                t = NOANN if rng.random() < 0.4 else M.rand_bounded(rng, 2)
            ann[pn] = t
        if len(f["outs"]) == 1:
            ann["return"] = src[(i, f["outs"][0])]
        else:
            outs = [src[(i, o)] for o in f["outs"]]
            ann["return"] = NOANN if NOANN in outs else gen(tuple, *outs)
        # a consuming parameter may carry a DEFAULT (in the signature, or through PipeFunc(defaults=...)): the producer's output
        # still overrides it, so the edge is checked exactly as without the default
        dflt = None
        wired = [pn for pn in f["params"] if (i, pn) in par]
        if wired and rng.random() < 0.3:
            dflt = {"how": rng.choice(["signature", "option"]), "params": [rng.choice(wired)]}
        fs.append({**f, "ann": ann, "dflt": dflt})
    return fs, ed


def construct(fs, validate, order="listed"):
    """Build fresh PipeFuncs + the Pipeline; -> ('ok', None) | ('TypeError', e) | ('other', e).
    order: 'listed' (producers first), 'reversed' (consumers first), 'add' (start from the last function and
    add the others one by one, producers last)."""
    P = _pf()  # noqa: N806
    try:
        with quiet():
            pfs = []
            for f in fs:
                ann = {k: build(t) for k, t in f["ann"].items() if t != NOANN}
                d = f.get("dflt")
                fn = mkfunc(f["name"], f["params"], ann, len(f["outs"]), sig_defaults=(d["params"] if d and d["how"] == "signature" else ()))
                on = f["outs"][0] if len(f["outs"]) == 1 else tuple(f["outs"])
                kw = {"defaults": {f["renames"].get(pn, pn): 0 for pn in d["params"]}} if d and d["how"] == "option" else {}
                pfs.append(P["PipeFunc"](fn, output_name=on, mapspec=f["mapspec"], renames=dict(f["renames"]), **kw))
            if order == "reversed":
                pfs = pfs[::-1]
            if order == "add":
                pl = P["Pipeline"](pfs[-1:], validate_type_annotations=validate)
                for f_ in pfs[-2::-1]:
                    pl.add(f_)
            else:
                P["Pipeline"](pfs, validate_type_annotations=validate)
        return "ok", None
    except TypeError as e:
        return "TypeError", e
    except Exception as e:  # noqa: BLE001
        return "other", e


def describe(tname, fs, ed):
    lines = []
    for f in fs:
        ps = ", ".join(p if f["ann"][p] == NOANN else f"{p}: {show(f['ann'][p])}" for p in f["params"])
        r = "" if f["ann"]["return"] == NOANN else f" -> {show(f['ann']['return'])}"
        extra = "".join([f", mapspec={f['mapspec']!r}" if f["mapspec"] else "",
                         f", renames={f['renames']!r}" if f["renames"] else "",
                         f", default({f['dflt']['how']}) for {f['dflt']['params']}" if f.get("dflt") else ""])
        on = f["outs"][0] if len(f["outs"]) == 1 else tuple(f["outs"])
        lines.append(f"PipeFunc(def {f['name']}({ps}){r}, output_name={on!r}{extra})")
    return {"template": tname, "functions": lines,
            "edges": [f"{e['kind']}: {show(e['source'])} => {show(e['target'])}" for e in ed]}


def edge_views(e):
    """The source annotation(s) the consumer may be checked against (reduction: producer T counts as Array[T])."""
    a = e["source"]
    if not e["kind"].startswith("reduce") or a == NOANN:
        return [a]
    if M.is_array(a):
        return [a, array(a)]      # already an object array: either reading is accepted
    return [array(a)]


def check_pipeline(v, rng, tname):
    fs, ed = gen_pipeline(rng, tname)
    for f in fs:
        for t in f["ann"].values():
            selfcheck(t)
    v.count("pipelines")
    v.count(f"pipelines_{tname}")
    firm, soft, okc = [], 0, 0
    for e in ed:
        views = edge_views(e)
        verdicts = [ref(s, e["target"]) for s in views]
        kind = e["kind"]
        if all(verdicts):
            okc += 1
            v.count(f"edges_{kind}_compatible")
        elif kind.startswith("autogen"):
            soft += 1   # pipefunc documents that edges of auto-generated MapSpecs cannot be checked: no expectation
            v.count(f"edges_{kind}_unspecified")
        elif not any(verdicts) and not M.has_tv(e["source"]) and e["source"] != NOANN and e["target"] != NOANN:
            firm.append(e)
            v.count(f"edges_{kind}_incompatible")
        else:
            soft += 1
            v.count(f"edges_{kind}_unspecified")
    desc = describe(tname, fs, ed)

    def blame(want_impl):
        """Edge on which is_type_compatible itself already gives `want_impl` against the reference -> root cause."""
        for e in (ed if want_impl is False else firm):
            for s in edge_views(e):
                try:
                    if impl(s, e["target"]) == want_impl and ref(s, e["target"]) != want_impl:
                        ra, rb = localise(s, e["target"])
                        return why(ra, rb), f"{e['kind']} edge: {call(s, e['target'])} = {want_impl}"
                except ImplError as ie:
                    return "is_type_compatible-raises", exc_msg(ie.e)
        kinds = "+".join(sorted({e["kind"] for e in (ed if want_impl is False else firm)}))
        return f"{kinds}/pair-level-agrees", "is_type_compatible itself agrees with the reference on every edge"

    out, e = construct(fs, False)
    v.count("constructions")
    if out != "ok":
        v.bad(f"pipe:rejected-with-validation-off/{exc_sig(e, 'exc')}",
              f"Pipeline(..., validate_type_annotations=False) raised {exc_msg(e)}", **desc)
    # the verdict must not depend on the order in which the functions are listed / added
    for order in ("reversed", "add"):
        if len(fs) < 2:
            break
        o2, e2 = construct(fs, True, order)
        v.count("constructions")
        v.count(f"constructions_order_{order}")
        if okc == len(ed) and o2 != "ok":
            v.bad(f"pipe:rejected-compatible/order={order}", f"every edge is compatible but construction in order '{order}' raised {exc_msg(e2, 200)}", **desc)
        elif firm and o2 == "ok":
            v.bad(f"pipe:accepted-incompatible/order={order}",
                  f"an incompatible edge between explicitly annotated functions is accepted when the functions are given in order '{order}'",
                  incompatible=[f"{x['kind']}: {show(x['source'])} => {show(x['target'])}" for x in firm], **desc)
    out, e = construct(fs, True)
    v.count("constructions")
    v.count(f"outcome_{out}")
    if okc == len(ed):
        v.count("pipelines_all_edges_compatible")
        if out == "TypeError":
            w, txt = blame(False)
            v.bad(f"pipe:rejected-compatible/{w}",
                  f"every edge is compatible but Pipeline(...) raised {exc_msg(e, 200)} [{txt}]", **desc)
        elif out == "other":
            v.bad(exc_sig(e, "pipe:exc-on-compatible"), f"every edge is compatible but Pipeline(...) raised {exc_msg(e)}",
                  **desc)
    elif firm:
        v.count("pipelines_with_incompatible_edge")
        if out == "ok":
            w, txt = blame(True)
            v.bad(f"pipe:accepted-incompatible/{w}",
                  f"an edge between explicitly annotated functions is incompatible but Pipeline(...) was accepted [{txt}]",
                  incompatible=[f"{x['kind']}: {show(x['source'])} => {show(x['target'])}" for x in firm], **desc)
        elif out == "other":
            v.bad(exc_sig(e, "pipe:wrong-exception-on-incompatible"),
                  f"incompatible edge must be rejected with TypeError, got {exc_msg(e)}", **desc)
    else:
        v.count("pipelines_unspecified")
    key = short(tname + "|" + "|".join(desc["functions"]), 14)
    return key, desc, out


# ------------------------------------------------------------------ cases
def _calibrate(v):
    """Reference vs the literal triples of tests/test_typing.py (harness error on disagreement), then the
    implementation vs the reference on the same inputs."""
    import pipefunc.typing as pt
    triples = M.test_triples(pt.Array, pt.ArrayElementType, pt.NoAnnotation)
    for a, b, exp in triples:
        ta, tb = M.from_py(a), M.from_py(b)
        r = ref(ta, tb)
        one_sided = M.has_tv(ta)
        if (r and not exp) if one_sided else (r != exp):
            raise AssertionError(f"reference relation disagrees with tests/test_typing.py: ({a!r}, {b!r}) expected "
                                 f"{exp}, reference {r}")
        v.count("calibration_triples_agree")
        try:
            got = bool(pt.is_type_compatible(a, b))
        except Exception as e:  # noqa: BLE001
            v.bad(exc_sig(e, "exc:is_type_compatible"), f"is_type_compatible({a!r}, {b!r}) raised {exc_msg(e)}")
            continue
        v.count("triples_compared")
        if (r and not got) if one_sided else (r != got):
            v.bad(f"triple:{'rejected-valid' if r else 'accepted-invalid'}/{why(ta, tb)}",
                  f"is_type_compatible({a!r}, {b!r}) = {got}, reference (and tests/test_typing.py) say {r}")
    return len(triples)


def plan(tier, seed):
    descs = [{"kind": "calib"}]
    if tier == "quick":
        n_uni, rows, n_pairs, pb, n_pipes, qb = len(M.universe(1)), 8, 40000, 250, 2100, 50
        level = 1
    else:
        n_uni, rows, n_pairs, pb, n_pipes, qb = len(M.universe(2)), 4, 200000, 500, 30000, 100
        level = 2
    for lo in range(0, n_uni, rows):
        descs.append({"kind": "allpairs", "level": level, "lo": lo, "hi": min(n_uni, lo + rows)})
    for b in range(n_pairs // pb):
        descs.append({"kind": "pairs", "seed": seed, "batch": b, "n": pb})
    for b in range(n_pipes // qb):
        descs.append({"kind": "pipes", "seed": seed, "batch": b, "n": qb})
    return descs


_UNI: dict = {}


def _universe(level):
    if level not in _UNI:
        _UNI[level] = M.universe(level)
    return _UNI[level]


def _trivial(a, b):
    return canon(a) == canon(b) or a in (ANY, NOANN) or b in (ANY, NOANN)


def run_case(desc):
    v = V16()
    kind = desc["kind"]
    keys, sample = [], None
    if kind == "calib":
        n = _calibrate(v)
        sample = {"calibration": f"{n} literal triples of tests/test_typing.py: reference agrees with all"}
    elif kind == "allpairs":
        uni = _universe(desc["level"])
        for t in uni[desc["lo"]:desc["hi"]]:
            selfcheck(t)
        for a in uni[desc["lo"]:desc["hi"]]:
            for b in uni:
                got = check_pair(v, a, b)
                v.count("pairs_enumerated")
                if not _trivial(a, b):
                    keys.append(short(show(a) + "=>" + show(b), 14))
                for tag in M.asym_tags(a, b):
                    v.count(f"asym_{tag}")
        if desc["lo"] == 0:
            a, b = uni[desc["hi"] - 1], uni[len(uni) // 2]
            sample = {"enumerated": f"{len(uni)} terms of depth <= {desc['level']}, all ordered pairs",
                      "example": call(a, b), "reference": ref(a, b)}
    elif kind == "pairs":
        rng = random.Random(f"c16-pairs-{desc['seed']}-{desc['batch']}")
        shown = []
        for i in range(desc["n"]):
            a, b = M.rand_pair(rng)
            if rng.random() < 0.03:
                a, b = rng.choice([(a, NOANN), (NOANN, b), (a, ANY), (ANY, b)])
            selfcheck(a)
            selfcheck(b)
            got = check_pair(v, a, b)
            v.count(f"depth_{max(M.depth(a), M.depth(b))}")
            for tag in M.asym_tags(a, b):
                v.count(f"asym_{tag}")
            for t in (a, b):
                v.classes.update({f"has_{M.kind(x)}" for x in _walk(t)})
            if not _trivial(a, b):
                keys.append(short(show(a) + "=>" + show(b), 14))
            if got is not None and NOANN not in (a, b) and i % 10 < 7:
                try:
                    check_laws(v, rng, a, b)
                except ImplError as ie:
                    v.bad(exc_sig(ie.e, "exc:is_type_compatible"), f"{call(ie.a, ie.b)} raised {exc_msg(ie.e)}")
            if i < 3:
                shown.append({"call": call(a, b), "observed": got, "reference": ref(a, b),
                              "one_sided": M.has_tv(a)})
        if desc["batch"] % 40 == 0:
            sample = {"pairs": shown}
    elif kind == "pipes":
        rng = random.Random(f"c16-pipes-{desc['seed']}-{desc['batch']}")
        for i in range(desc["n"]):
            tname = TEMPLATE_NAMES[(desc["batch"] * desc["n"] + i) % len(TEMPLATE_NAMES)]
            key, d, out = check_pipeline(v, rng, tname)
            keys.append(key)
            v.classes.add(f"template_{tname}")
            if i == 0 and desc["batch"] % 10 == 0:
                sample = {"pipeline": d, "validate_on_outcome": out}
    else:
        raise AssertionError(desc)
    return v.result(keys=keys, sample=sample)


def _walk(t):
    yield t
    for c in M.children(t):
        yield from _walk(c)


def finalize(agg, tier, seed):
    floors = []
    c = agg.counters
    q = tier == "quick"

    def need(name, n):
        if c.get(name, 0) < n:
            floors.append(f"{name}={c.get(name, 0)} (< {n})")

    need("calibration_triples_agree", 100)
    need("triples_compared", 100)
    need("pairs", 45000 if q else 350000)
    need("pairs_enumerated", 10000 if q else 150000)
    need("pairs_reference_compatible", 12000 if q else 60000)
    need("pairs_reference_incompatible", 12000 if q else 60000)
    need("pairs_typevar_in_source_one_sided", 3000)
    need("depth_3", 8000 if q else 40000)
    for k in M.ASYM_CONSTRUCTORS:
        need(f"asym_{k}", 1000 if q else 5000)
    for name in ["reflexivity", "any-target", "noannotation", "union-target-needs-one", "union-source-needs-all",
                 "annotated-transparent", "typevar-target", "covariance", "tuple-arity", "tuple-fixed-into-variadic",
                 "tuple-variadic-into-fixed"]:
        need(f"law_{name}", 5000 if q else 25000)
    need("pipelines", 2000 if q else 28000)
    need("pipelines_all_edges_compatible", 300 if q else 4000)
    need("pipelines_with_incompatible_edge", 300 if q else 4000)
    for t in TEMPLATE_NAMES:
        need(f"pipelines_{t}", 100 if q else 1500)
    for k in ["direct", "elementwise", "reduce-whole", "reduce-unlisted", "reduce-colon", "reduce-partial", "direct+tupleout",
              "elementwise+tupleout", "reduce-whole+tupleout", "direct+renamed", "direct+outrenamed", "direct+tupleout+outrenamed", "reduce-unlisted+tupleout"]:
        need(f"edges_{k}_compatible", 25 if q else 300)
        need(f"edges_{k}_incompatible", 12 if q else 150)
    if len(agg.keys) < (30000 if q else 150000):
        floors.append(f"only {len(agg.keys)} distinct non-trivial cases")
    return floors, {}
