"""C19 - xarray datasets label results with the right dimensions and coordinates (DESIGN 4/C19)."""
from __future__ import annotations

import os

import numpy as np

from vlib import mapgen, probes
from vlib.util import V, exc_msg, exc_sig, quiet, tmpdir

PROPERTY = "C19"
LEVEL = "exploration"
DEADLINE = 400
RULE = ("cases = MapSpec pipelines from vlib.mapgen (VERIF_SEED; mapped root inputs of rank 1..3 with distinct values, zipped "
        "pairs, outer products, ':' reductions, internal axes, generator functions, functions without MapSpec) run into a "
        "file_array folder; xarray_dataset_from_results and load_xarray_dataset (load_intermediate on and off) must be "
        "identical(); every MapSpec output is a variable whose dims are its MapSpec axes in order and whose values equal the "
        "denotation; every 1-D root input mapped along axis a on which an output depends through a appears as a coordinate "
        "on exactly (a,) with the input's values (directly, or as a component of the ':'-joined multi-index coordinate of zipped inputs); outputs without MapSpec are dimensionless; "
        ".sel(coord=value) returns the denotation's element for plain coordinates; non-trivial = a MapSpec output with a 1-D "
        "input coordinate; distinct = case signature")
ASSUMPTIONS = ["oracle = vlib.mapgen.oracle + the harness's own (root input, axis) dependency analysis",
               "selecting on a multi-index level is not demanded (depends on the installed xarray); positional correspondence is checked instead"]
BATCH = 8


def plan(tier, seed):
    n = 400 if tier == "quick" else 8000
    return [{"seed": seed, "start": s, "n": BATCH} for s in range(0, n, BATCH)]


def coord_deps(case):
    """output name -> set of (root, axis) pairs: 1-D root inputs on which the output depends through that axis."""
    roots = case["roots"]
    prod = {o: f for f in case["funcs"] for o in f["outs"]}
    memo = {}

    def deps(o):
        if o in memo:
            return memo[o]
        f = prod[o]
        res = set()
        if f["mapspec"] is not None:
            for p, m in f["modes"].items():
                if not isinstance(m, list):
                    continue
                named = {a for a in m if a is not None}
                if p in roots:
                    if len(roots[p]["axes"]) == 1 and m[0] is not None:
                        res.add((p, m[0]))
                else:
                    res |= {(r, a) for r, a in deps(p) if a in named}
        memo[o] = res
        return res

    return {o: deps(o) for o in prod}


def zipped_2d(case):
    """True when two inputs of rank >= 2 with identical named axes feed one output (known finding: MultiIndex of 2-D arrays)."""
    for f in case["funcs"]:
        if f["mapspec"] is None:
            continue
        full = [tuple(m) for p, m in f["modes"].items() if isinstance(m, list) and len(m) >= 2 and None not in m]
        if len(full) != len(set(full)):
            return True
    return False


def _variant(inputs, tag):
    def ren(x):
        if isinstance(x, str):
            return x + tag
        if isinstance(x, list):
            return [ren(y) for y in x]
        a = np.empty(x.shape, dtype=object)
        for idx in np.ndindex(*x.shape):
            a[idx] = ren(x[idx])
        return a
    return {k: ren(x) for k, x in inputs.items()}


def run_one(v, case, scratch, i):
    """Every third case first runs the map with OTHER input values into the same folder and loads that dataset, so
    that the run that is judged re-uses a folder (and a process) that already served another run."""
    from pipefunc.map import load_xarray_dataset

    if i % 3 == 1:
        folder = os.path.join(scratch, f"run{i}")
        try:
            with quiet():
                p_old = mapgen.build_pipeline(case)
                p_old.map(mapgen.variant_inputs(mapgen.make_inputs(case), "~old"), run_folder=folder, internal_shapes=mapgen.internal_shapes_arg(case),
                          parallel=False, storage="file_array")
                load_xarray_dataset(run_folder=folder)
            v.count("folders_reused_after_another_run")
        except Exception:  # noqa: BLE001
            pass
    return _run_one(v, case, scratch, i)


def _run_one(v, case, scratch, i):
    from pipefunc.map import load_xarray_dataset
    from pipefunc.map.xarray import xarray_dataset_from_results

    env, _ = mapgen.oracle(case)
    inputs = mapgen.make_inputs(case)
    folder = os.path.join(scratch, f"run{i}")
    try:
        with quiet():
            p = mapgen.build_pipeline(case)
            res = p.map(inputs, run_folder=folder, internal_shapes=mapgen.internal_shapes_arg(case), parallel=False, storage="file_array")
        if any(probes.render(res[o].output) != probes.render(env[o]) for f in case["funcs"] for o in f["outs"]):
            raise ValueError
    except Exception:  # noqa: BLE001
        v.count("skipped_baseline_refused")
        return None
    w = dict(case=mapgen.describe(case))
    trig = []
    ax = mapgen.array_axes(case)
    # structure triggers for signatures
    named_multi = False
    datasets = {}
    for li in (True, False):
        for how in ("results", "folder"):
            try:
                with quiet():
                    ds = (xarray_dataset_from_results(inputs, res, p, load_intermediate=li) if how == "results"
                          else load_xarray_dataset(run_folder=folder, load_intermediate=li))
                datasets[(how, li)] = ds
            except Exception as e:  # noqa: BLE001
                # mechanism: several arrays of rank >= 2 (inputs or loaded intermediates) share one axes tuple and pipefunc
                # asks pandas for a MultiIndex of them (pandas: "> 1 ndim Categorical are not supported")
                tag = "zipped-2d-inputs" if (isinstance(e, NotImplementedError) and "ndim" in str(e)) else "other"
                v.bad(exc_sig(e, f"dataset-raises/{how}") + f"/{tag}", f"{how} dataset (load_intermediate={li}) raised {exc_msg(e)}", **w)
                return None
    v.count("datasets_built", len(datasets))
    for li in (True, False):
        a, b = datasets[("results", li)], datasets[("folder", li)]
        v.count("identical_comparisons")
        try:
            same = a.identical(b)
        except Exception as e:  # noqa: BLE001
            v.bad(exc_sig(e, "identical-raises"), f"identical() raised {exc_msg(e)}", **w)
            return None
        if not same:
            v.bad(f"not-identical/load_intermediate={li}", "xarray_dataset_from_results and load_xarray_dataset differ",
                  a=str(a)[:400], b=str(b)[:400], **w)
    deps = coord_deps(case)
    nontrivial = False
    for li in (True, False):
        ds = datasets[("folder", li)]
        for f in case["funcs"]:
            for o in f["outs"]:
                if o not in ds.variables:
                    v.bad(f"output-missing/load_intermediate={li}", f"output {o} is not a variable of the dataset", variables=sorted(map(str, ds.variables)), **w)
                    continue
                da = ds[o]
                v.count("outputs_checked")
                if f["mapspec"] is None:
                    if da.dims != ():
                        v.bad("no-mapspec-output-has-dims", f"{o} (no MapSpec) has dims {da.dims}", **w)
                    elif probes.render(da.values) != probes.render(env[o]):
                        v.bad("no-mapspec-output-value", f"{o}: {probes.render(da.values)[:100]} != {probes.render(env[o])[:100]}", **w)
                    continue
                want_dims = tuple(f["out_axes"])
                if tuple(map(str, da.dims)) != want_dims:
                    v.bad("dims-differ", f"{o}: dims {da.dims}, MapSpec axes {want_dims}", **w)
                    continue
                if probes.render(da.values) != probes.render(env[o]):
                    v.bad("values-differ", f"{o}: dataset values differ from the map result", got=probes.render(da.values)[:300],
                          expected=probes.render(env[o])[:300], **w)
                # coordinates from 1-D root inputs
                for r, a in sorted(deps[o]):
                    nontrivial = True
                    v.count("coordinate_expectations")
                    if r not in da.coords:
                        # zipped inputs: one coordinate named by the ':'-joined names (any order) holding the zipped tuples
                        joined = [str(cn) for cn in da.coords if r in str(cn).split(":") and ":" in str(cn)]
                        if not joined:
                            v.bad(f"coordinate-missing/load_intermediate={li}", f"{o} depends on 1-D input {r} along {a} but has no coordinate {r}",
                                  coords=sorted(map(str, da.coords)), **w)
                            continue
                        cn = joined[0]
                        c = da.coords[cn]
                        pos = cn.split(":").index(r)
                        v.count("zipped_coordinates_checked")
                        if tuple(map(str, c.dims)) != (a,):
                            v.bad("coordinate-on-wrong-axis", f"zipped coordinate {cn} of {o} lives on {c.dims}, expected ({a},)", **w)
                            continue
                        try:
                            got = [t[pos] for t in c.values.tolist()]
                        except Exception:  # noqa: BLE001
                            got = None
                        if got is None or probes.render(got) != probes.render(inputs[r]):
                            v.bad("coordinate-values-differ", f"zipped coordinate {cn} of {o}: component {r} = {probes.render(got)[:100] if got is not None else None} != input {probes.render(inputs[r])[:100]}", **w)
                        continue
                    c = da.coords[r]
                    if tuple(map(str, c.dims)) != (a,):
                        v.bad("coordinate-on-wrong-axis", f"coordinate {r} of {o} lives on {c.dims}, expected ({a},)", **w)
                        continue
                    if probes.render(c.values) != probes.render(inputs[r]):
                        v.bad("coordinate-values-differ", f"coordinate {r} of {o}: {probes.render(c.values)[:100]} != input {probes.render(inputs[r])[:100]}", **w)
                        continue
                    # selection by value (plain coordinates only)
                    idx = da.indexes.get(r) if hasattr(da, "indexes") else None
                    is_multi = any(type(ix).__name__ == "MultiIndex" and r in getattr(ix, "names", []) for ix in da.indexes.values())
                    if is_multi:
                        v.count("multiindex_level_coordinates")
                        continue
                    kpos = want_dims.index(a)
                    vals = list(np.asarray(inputs[r], dtype=object))
                    for k, val in enumerate(vals):
                        try:
                            sel = da.sel({r: val})
                        except Exception as e:  # noqa: BLE001
                            if li:  # without an index on that coordinate .sel cannot work; only judged where xarray built one
                                if r in da.indexes:
                                    v.bad(exc_sig(e, "sel-raises"), f"{o}.sel({r}={val}) raised {exc_msg(e)}", **w)
                            break
                        v.count("selections_compared")
                        exp = np.take(env[o], k, axis=kpos)
                        if probes.render(sel.values) != probes.render(exp):
                            v.bad("sel-returns-wrong-element", f"{o}.sel({r}={val}) is not the element computed from that input value",
                                  got=probes.render(sel.values)[:200], expected=probes.render(exp)[:200], **w)
                            break
    return nontrivial


def run_case(desc):
    v = V()
    keys, sample = [], None
    with tmpdir("c19-") as scratch:
        for i in range(desc["start"], desc["start"] + desc["n"]):
            case = mapgen.case_from_seed(desc["seed"], i, allow_int_arrays=(i % 2 == 0))
            v.hit(mapgen.classes(case))
            nt = run_one(v, case, scratch, i)
            if nt:
                keys.append(mapgen.signature(case))
                if sample is None:
                    sample = {"case": mapgen.describe(case), "coordinate_dependencies": {o: sorted(map(list, d)) for o, d in coord_deps(case).items()}}
    return v.result(evaluations=v.counters.get("datasets_built", 0), keys=keys, sample=sample if desc["start"] % 80 == 0 else None)


def finalize(agg, tier, seed):
    c = agg.counters
    floors = []
    if agg.classes.get("zip", 0) < 50:
        floors.append(f"only {agg.classes.get('zip', 0)} cases with a zipped pair (< 50)")
    if agg.classes.get("generator", 0) < 20:
        floors.append(f"only {agg.classes.get('generator', 0)} cases with a generator intermediate (< 20)")
    if c.get("coordinate_expectations", 0) < 300:
        floors.append("fewer than 300 coordinate expectations checked")
    if c.get("selections_compared", 0) < 300:
        floors.append("fewer than 300 selections compared")
    if c.get("folders_reused_after_another_run", 0) < 50:
        floors.append("fewer than 50 runs into a folder that already served another run")
    if c.get("identical_comparisons", 0) < 300:
        floors.append("fewer than 300 identical() comparisons")
    return floors, {}
