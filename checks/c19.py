"""C19 - xarray datasets label results with the right dimensions and coordinates (DESIGN 4/C19)."""
from __future__ import annotations

import os
import random

import numpy as np

from vlib import mapgen, probes
from vlib.util import V, exc_msg, exc_sig, quiet, tmpdir

PROPERTY = "C19"
LEVEL = "exploration"
DEADLINE = 400
RULE = ("cases = MapSpec pipelines from vlib.mapgen (VERIF_SEED; mapped root inputs of rank 1..3 with distinct values, zipped "
        "pairs, outer products, ':' reductions, internal axes, generator functions, functions without MapSpec) run into a "
        "file_array folder; xarray_dataset_from_results and load_xarray_dataset (load_intermediate on and off) must be "
        "identical(); every MapSpec output is a variable whose dims are its MapSpec axes in order and whose values equal the "
        "denotation; every 1-D root input mapped along axis a on which an output depends through a appears as a coordinate "
        "on exactly (a,) with the input's values (directly, or as a component of the ':'-joined multi-index coordinate of zipped inputs); outputs without MapSpec are dimensionless; "
        ".sel(coord=value) returns the denotation's element for plain coordinates; non-trivial = a MapSpec output with a 1-D "
        "input coordinate; distinct = case signature")
ASSUMPTIONS = ["oracle = vlib.mapgen.oracle + the harness's own (root input, axis) dependency analysis",
               "selecting on a multi-index level is not demanded (depends on the installed xarray); positional correspondence is checked instead"]
BATCH = 8


def plan(tier, seed):
    n = 400 if tier == "quick" else 8000
    return [{"seed": seed, "start": s, "n": BATCH} for s in range(0, n, BATCH)]


def coord_deps(case):
    """output name -> set of (root, axis) pairs: 1-D root inputs on which the output depends through that axis."""
    roots = case["roots"]
    prod = {o: f for f in case["funcs"] for o in f["outs"]}
    memo = {}

    def deps(o):
        if o in memo:
            return memo[o]
        f = prod[o]
        res = set()
        if f["mapspec"] is not None:
            for p, m in f["modes"].items():
                if not isinstance(m, list):
                    continue
                named = {a for a in m if a is not None}
                if p in roots:
                    if len(roots[p]["axes"]) == 1 and m[0] is not None:
                        res.add((p, m[0]))
                else:
                    res |= {(r, a) for r, a in deps(p) if a in named}
        memo[o] = res
        return res

    return {o: deps(o) for o in prod}


def zipped_2d(case):
    """True when two inputs of rank >= 2 with identical named axes feed one output (known finding: MultiIndex of 2-D arrays)."""
    for f in case["funcs"]:
        if f["mapspec"] is None:
            continue
        full = [tuple(m) for p, m in f["modes"].items() if isinstance(m, list) and len(m) >= 2 and None not in m]
        if len(full) != len(set(full)):
            return True
    return False


def _kinds(xs):
    """Element kinds of a coordinate / input (a label 1 is not the label '1')."""
    out = []
    for x in np.asarray(xs, dtype=object).ravel().tolist():
        out.append("bool" if isinstance(x, (bool, np.bool_)) else "int" if isinstance(x, (int, np.integer)) else
                   "float" if isinstance(x, (float, np.floating)) else "str" if isinstance(x, str) else type(x).__name__)
    return out


def _variant(inputs, tag):
    def ren(x):
        if isinstance(x, str):
            return x + tag
        if isinstance(x, list):
            return [ren(y) for y in x]
        a = np.empty(x.shape, dtype=object)
        for idx in np.ndindex(*x.shape):
            a[idx] = ren(x[idx])
        return a
    return {k: ren(x) for k, x in inputs.items()}


def run_one(v, case, scratch, i):
    """Every third case first runs the map with OTHER input values into the same folder and loads that dataset, so
    that the run that is judged re-uses a folder (and a process) that already served another run."""
    from pipefunc.map import load_xarray_dataset

    if i % 3 == 1:
        folder = os.path.join(scratch, f"run{i}")
        try:
            with quiet():
                p_old = mapgen.build_pipeline(case)
                p_old.map(mapgen.variant_inputs(mapgen.make_inputs(case), "~old"), run_folder=folder, internal_shapes=mapgen.internal_shapes_arg(case),
                          parallel=False, storage="file_array")
                load_xarray_dataset(run_folder=folder)
            v.count("folders_reused_after_another_run")
        except Exception:  # noqa: BLE001
            pass
    return _run_one(v, case, scratch, i)


def _run_one(v, case, scratch, i):
    from pipefunc.map import load_xarray_dataset
    from pipefunc.map.xarray import xarray_dataset_from_results

    env, _ = mapgen.oracle(case)
    inputs = mapgen.make_inputs(case)
    folder = os.path.join(scratch, f"run{i}")
    # every fourth case: the mapped array roots ALSO have a declared default (same shape, other values); the inputs given to
    # map win - for the results and for the labels
    extra = {}
    if i % 4 == 1:
        for r, spec in case["roots"].items():
            if spec["axes"] and spec["kind"] in ("list", "ndarray"):
                d = np.empty(np.shape(inputs[r]), dtype=object)
                for idx in np.ndindex(*d.shape):
                    d[idx] = f"{r}-declared-default<{','.join(map(str, idx))}>"
                d = d.tolist() if spec["kind"] == "list" else d
                for f in case["funcs"]:
                    if r in f["params"] and r not in (f.get("bound") or {}):
                        extra.setdefault(f["name"], {}).setdefault("defaults", {})[r] = d
        if extra:
            v.count("cases_with_declared_defaults_overridden_by_inputs")
    # every fourth case with a multi-output MapSpec function: that function's arrays live in another (persisted) storage class,
    # chosen through a per-output storage dict keyed by the function's tuple of output names
    storage = "file_array"
    tup = [tuple(f["outs"]) for f in case["funcs"] if len(f["outs"]) > 1 and f["mapspec"]]
    if i % 4 == 3 and tup:
        storage = {"": "file_array", tup[0]: "dict"}
        v.count("cases_with_a_per_output_storage_choice")
    try:
        with quiet():
            p = mapgen.build_pipeline(case, extra=extra)
            res = p.map(inputs, run_folder=folder, internal_shapes=mapgen.internal_shapes_arg(case), parallel=False, storage=storage,
                        persist_memory=True)
        if any(probes.render(res[o].output) != probes.render(env[o]) for f in case["funcs"] for o in f["outs"]):
            raise ValueError
    except Exception:  # noqa: BLE001
        v.count("skipped_baseline_refused")
        return None
    w = dict(case=mapgen.describe(case))
    trig = []
    ax = mapgen.array_axes(case)
    # structure triggers for signatures
    named_multi = False
    datasets = {}
    for li in ((True, False) if i % 2 == 0 else (False, True)):  # both orders: nothing computed for one setting may leak into the other
        for how in ("results", "folder"):
            try:
                with quiet():
                    ds = (xarray_dataset_from_results(inputs, res, p, load_intermediate=li) if how == "results"
                          else load_xarray_dataset(run_folder=folder, load_intermediate=li))
                datasets[(how, li)] = ds
            except Exception as e:  # noqa: BLE001
                # mechanism: several arrays of rank >= 2 (inputs or loaded intermediates) share one axes tuple and pipefunc
                # asks pandas for a MultiIndex of them (pandas: "> 1 ndim Categorical are not supported")
                tag = "zipped-2d-inputs" if (isinstance(e, NotImplementedError) and "ndim" in str(e)) else "other"
                v.bad(exc_sig(e, f"dataset-raises/{how}") + f"/{tag}", f"{how} dataset (load_intermediate={li}) raised {exc_msg(e)}", **w)
                return None
    v.count("datasets_built", len(datasets))
    for li in (True, False):
        a, b = datasets[("results", li)], datasets[("folder", li)]
        v.count("identical_comparisons")
        try:
            same = a.identical(b)
        except Exception as e:  # noqa: BLE001
            v.bad(exc_sig(e, "identical-raises"), f"identical() raised {exc_msg(e)}", **w)
            return None
        if not same:
            v.bad(f"not-identical/load_intermediate={li}", "xarray_dataset_from_results and load_xarray_dataset differ",
                  a=str(a)[:400], b=str(b)[:400], **w)
    # (a) an explicit selection of one MapSpec output must carry the same labelled array as the full dataset does
    ms_outs = [o for f in case["funcs"] if f["mapspec"] is not None for o in f["outs"]]
    if ms_outs:
        o_sel = ms_outs[-1]
        for li in (True, False):
            try:
                with quiet():
                    sel = load_xarray_dataset(o_sel, run_folder=folder, load_intermediate=li)
                v.count("single_output_selections")
                full = datasets[("folder", li)]
                if o_sel not in sel.variables or o_sel not in full.variables:
                    v.bad(f"selection:output-missing/load_intermediate={li}", f"load_xarray_dataset({o_sel!r}) has no variable {o_sel}", **w)
                else:
                    da_s, da_f = sel[o_sel], full[o_sel]
                    if da_s.dims != da_f.dims or probes.render(da_s.values) != probes.render(da_f.values):
                        v.bad(f"selection:differs-from-full-dataset/load_intermediate={li}", f"{o_sel} selected alone has other dims / values than in the full dataset",
                              alone=str(da_s)[:400], full=str(da_f)[:400], **w)
                    # the coordinates the output depends on (the full dataset may show further, unrelated ones that merely share a dim)
                    for r, a in sorted(coord_deps(case)[o_sel]):
                        names = [str(cn) for cn in da_s.coords if r == str(cn) or (":" in str(cn) and r in str(cn).split(":"))]
                        if not names:
                            v.bad(f"selection:coordinate-missing/load_intermediate={li}", f"{o_sel} selected alone lacks the coordinate of input {r} along {a}",
                                  coords=sorted(map(str, da_s.coords)), **w)
                        elif names[0] == r and probes.render(da_s.coords[r].values) != probes.render(inputs[r]):
                            v.bad("selection:coordinate-values-differ", f"coordinate {r} of {o_sel} selected alone differs from the input", **w)
            except Exception as e:  # noqa: BLE001
                v.bad(exc_sig(e, "selection-raises"), f"load_xarray_dataset({o_sel!r}) raised {exc_msg(e)}", **w)
    # (b) the results of THIS run keep describing this run after the folder has served another one
    if i % 2 == 0:
        try:
            with quiet():
                p.map(mapgen.variant_inputs(inputs, "~later"), run_folder=folder, internal_shapes=mapgen.internal_shapes_arg(case), parallel=False,
                      storage="file_array")
                again = xarray_dataset_from_results(inputs, res, p, load_intermediate=True)
            v.count("datasets_rebuilt_after_a_later_run")
            if not again.identical(datasets[("results", True)]):
                v.bad("results-dataset-changed-by-later-run", "xarray_dataset_from_results(inputs, results) changed after the same folder served another run",
                      before=str(datasets[("results", True)])[:400], after=str(again)[:400], **w)
        except Exception as e:  # noqa: BLE001
            v.bad(exc_sig(e, "rebuild-after-later-run"), f"rebuilding the dataset from the earlier results raised {exc_msg(e)}", **w)
    deps = coord_deps(case)
    nontrivial = False
    for li in (True, False):
        ds = datasets[("folder", li)]
        for f in case["funcs"]:
            for o in f["outs"]:
                if o not in ds.variables:
                    v.bad(f"output-missing/load_intermediate={li}", f"output {o} is not a variable of the dataset", variables=sorted(map(str, ds.variables)), **w)
                    continue
                da = ds[o]
                v.count("outputs_checked")
                if f["mapspec"] is None:
                    if f.get("ishape_via") == "plain":
                        # a plain array value: a variable of its own rank with its values (the names of its dims are pipefunc's choice)
                        v.count("plain_array_outputs_checked")
                        if len(da.dims) != len(f["internal_shape"]) or len(set(da.dims)) != len(da.dims):
                            v.bad("plain-array-output-dims", f"{o} (no MapSpec, a rank-{len(f['internal_shape'])} array) has dims {da.dims}", **w)
                        elif set(map(str, da.dims)) & {a for g in case["funcs"] if g["mapspec"] for a in g["out_axes"]}:
                            v.bad("plain-array-output-shares-a-mapspec-axis", f"{o} (no MapSpec) lives on MapSpec axes {da.dims}", **w)
                        elif probes.render(da.values) != probes.render(env[o]):
                            v.bad("no-mapspec-output-value", f"{o}: {probes.render(da.values)[:100]} != {probes.render(env[o])[:100]}", **w)
                        continue
                    if da.dims != ():
                        v.bad("no-mapspec-output-has-dims", f"{o} (no MapSpec) has dims {da.dims}", **w)
                    elif probes.render(da.values) != probes.render(env[o]):
                        v.bad("no-mapspec-output-value", f"{o}: {probes.render(da.values)[:100]} != {probes.render(env[o])[:100]}", **w)
                    continue
                want_dims = tuple(f["out_axes"])
                if tuple(map(str, da.dims)) != want_dims:
                    v.bad("dims-differ", f"{o}: dims {da.dims}, MapSpec axes {want_dims}", **w)
                    continue
                if probes.render(da.values) != probes.render(env[o]):
                    v.bad("values-differ", f"{o}: dataset values differ from the map result", got=probes.render(da.values)[:300],
                          expected=probes.render(env[o])[:300], **w)
                # coordinates from 1-D root inputs
                for r, a in sorted(deps[o]):
                    nontrivial = True
                    v.count("coordinate_expectations")
                    if r not in da.coords:
                        # zipped inputs: one coordinate named by the ':'-joined names (any order) holding the zipped tuples
                        joined = [str(cn) for cn in da.coords if r in str(cn).split(":") and ":" in str(cn)]
                        partners = sorted(r2 for r2, a2 in deps[o] if a2 == a and r2 != r)
                        if not partners and not li:
                            # nothing is zipped with r along this axis for THIS output (and intermediates are not used as
                            # coordinates with load_intermediate=False): r must label the axis on its own
                            v.bad(f"coordinate-missing/load_intermediate={li}" + ("/only-inside-a-zipped-coordinate" if joined else ""),
                                  f"{o} depends on 1-D input {r} alone along {a} but has no plain coordinate {r}",
                                  coords=sorted(map(str, da.coords)), **w)
                            continue
                        if not joined:
                            v.bad(f"coordinate-missing/load_intermediate={li}", f"{o} depends on 1-D input {r} along {a} but has no coordinate {r}",
                                  coords=sorted(map(str, da.coords)), **w)
                            continue
                        cn = joined[0]
                        c = da.coords[cn]
                        pos = cn.split(":").index(r)
                        v.count("zipped_coordinates_checked")
                        if tuple(map(str, c.dims)) != (a,):
                            v.bad("coordinate-on-wrong-axis", f"zipped coordinate {cn} of {o} lives on {c.dims}, expected ({a},)", **w)
                            continue
                        try:
                            got = [t[pos] for t in c.values.tolist()]
                        except Exception:  # noqa: BLE001
                            got = None
                        if got is None or probes.render(got) != probes.render(inputs[r]):
                            v.bad("coordinate-values-differ", f"zipped coordinate {cn} of {o}: component {r} = {probes.render(got)[:100] if got is not None else None} != input {probes.render(inputs[r])[:100]}", **w)
                        elif _kinds(got) != _kinds(inputs[r]):
                            v.bad("coordinate-label-types-differ/zipped", f"zipped coordinate {cn} of {o}: component {r} holds {sorted(set(_kinds(got)))} labels, "
                                  f"the input holds {sorted(set(_kinds(inputs[r])))}", **w)
                        else:
                            v.count("zipped_label_types_compared")
                            if len({tuple(sorted(set(_kinds(inputs[z])))) for z in cn.split(":") if z in inputs}) > 1:
                                v.count("zipped_coordinates_of_mixed_kinds")
                        continue
                    c = da.coords[r]
                    if tuple(map(str, c.dims)) != (a,):
                        v.bad("coordinate-on-wrong-axis", f"coordinate {r} of {o} lives on {c.dims}, expected ({a},)", **w)
                        continue
                    if probes.render(c.values) != probes.render(inputs[r]):
                        v.bad("coordinate-values-differ", f"coordinate {r} of {o}: {probes.render(c.values)[:100]} != input {probes.render(inputs[r])[:100]}", **w)
                        continue
                    if _kinds(c.values) != _kinds(inputs[r]):
                        v.bad("coordinate-label-types-differ", f"coordinate {r} of {o} holds {sorted(set(_kinds(c.values)))} labels, the input {sorted(set(_kinds(inputs[r])))}", **w)
                        continue
                    # selection by value (plain coordinates only)
                    idx = da.indexes.get(r) if hasattr(da, "indexes") else None
                    is_multi = any(type(ix).__name__ == "MultiIndex" and r in getattr(ix, "names", []) for ix in da.indexes.values())
                    if is_multi:
                        v.count("multiindex_level_coordinates")
                        continue
                    kpos = want_dims.index(a)
                    vals = list(np.asarray(inputs[r], dtype=object))
                    for k, val in enumerate(vals):
                        try:
                            sel = da.sel({r: val})
                        except Exception as e:  # noqa: BLE001
                            if li:  # without an index on that coordinate .sel cannot work; only judged where xarray built one
                                if r in da.indexes:
                                    v.bad(exc_sig(e, "sel-raises"), f"{o}.sel({r}={val}) raised {exc_msg(e)}", **w)
                            break
                        v.count("selections_compared")
                        exp = np.take(env[o], k, axis=kpos)
                        if probes.render(sel.values) != probes.render(exp):
                            v.bad("sel-returns-wrong-element", f"{o}.sel({r}={val}) is not the element computed from that input value",
                                  got=probes.render(sel.values)[:200], expected=probes.render(exp)[:200], **w)
                            break
    return nontrivial


def zip_family(seed, i):
    """Directed family: 2-3 one-dimensional inputs of DIFFERENT element kinds (str list, str object array, int64 array)
    zipped along one axis, optionally crossed with another input, optionally followed by an element-wise function."""
    rng = random.Random(f"c19zip:{seed}:{i}")
    sizes = {a: rng.randint(2, 4) for a in mapgen.AX}
    kinds = rng.sample(["list", "ndarray", "ndarray-int"], rng.choice([2, 2, 3]))
    roots = {f"x{k}": {"axes": ["i"], "kind": kd} for k, kd in enumerate(kinds)}
    params, modes, out_axes = list(roots), {r: ["i"] for r in roots}, ["i"]
    if rng.random() < 0.5:
        roots["xk"] = {"axes": ["k"], "kind": rng.choice(["list", "ndarray-int"])}
        params.append("xk")
        modes["xk"] = ["k"]
        out_axes = ["i", "k"] if rng.random() < 0.5 else ["k", "i"]

    def fn(name, params, outs, modes, out_axes):
        ins = ", ".join(f"{p}[{', '.join(m)}]" for p, m in modes.items())
        return {"name": name, "params": params, "outs": outs, "mapspec": f"{ins} -> " + ", ".join(f"{o}[{', '.join(out_axes)}]" for o in outs),
                "modes": modes, "out_axes": list(out_axes), "internal": [], "internal_shape": [], "ret_list": False, "ishape_via": None}
    funcs = [fn("f0", params, ["y0"], modes, out_axes)]
    if rng.random() < 0.5:
        funcs.append(fn("f1", ["y0"], ["y1"], {"y0": list(out_axes)}, out_axes))
    return {"sizes": sizes, "roots": roots, "funcs": funcs}


def reuse_family(seed, i):
    """Directed family: an axis that an upstream output got from one input (w) is reduced away by a function that maps ANOTHER
    one-dimensional input (u) along an axis of the same name: that axis of the result is labelled by u alone."""
    rng = random.Random(f"c19reuse:{seed}:{i}")
    sizes = {a: rng.randint(2, 4) for a in mapgen.AX}
    a, b = rng.sample(mapgen.AX, 2)
    kd = lambda: rng.choice(["list", "ndarray", "ndarray-int"])  # noqa: E731
    roots = {"w": {"axes": [a], "kind": kd()}, "u": {"axes": [a], "kind": kd()}}
    two = rng.random() < 0.7
    if two:
        roots["x"] = {"axes": [b], "kind": kd()}

    def fn(name, outs, modes, out_axes):
        ins = ", ".join(f"{p}[{', '.join(':' if m_ is None else m_ for m_ in m)}]" for p, m in modes.items())
        return {"name": name, "params": list(modes), "outs": outs, "mapspec": f"{ins} -> " + ", ".join(f"{o}[{', '.join(out_axes)}]" for o in outs),
                "modes": modes, "out_axes": list(out_axes), "internal": [], "internal_shape": [], "ret_list": False, "ishape_via": None}
    if two:
        ax0 = [b, a] if rng.random() < 0.5 else [a, b]
        f0 = fn("f0", ["y0"], {"x": [b], "w": [a]}, ax0)
        m_y = [(None if q == a else q) for q in ax0]
        ax1 = [b, a] if rng.random() < 0.5 else [a, b]
    else:
        ax0 = [a]
        f0 = fn("f0", ["y0"], {"w": [a]}, ax0)
        m_y = [None]
        ax1 = [a]
    modes1 = {"y0": m_y, "u": [a]} if rng.random() < 0.5 else {"u": [a], "y0": m_y}
    funcs = [f0, fn("f1", ["y1"], modes1, ax1)]
    if rng.random() < 0.5:
        funcs.append(fn("f2", ["y2"], {"y1": list(ax1)}, ax1))
    return {"sizes": sizes, "roots": roots, "funcs": funcs}


def run_case(desc):
    v = V()
    keys, sample = [], None
    with tmpdir("c19-") as scratch:
        for i in range(desc["start"], desc["start"] + desc["n"]):
            if i % 5 == 4:
                case = zip_family(desc["seed"], i)
                v.count("zip_family_cases")
            elif i % 10 == 3:
                case = reuse_family(desc["seed"], i)
                v.count("cases_reusing_the_name_of_a_reduced_axis")
            else:
                case = mapgen.case_from_seed(desc["seed"], i, allow_int_arrays=(i % 2 == 0))
            if i % 3 == 0:
                # functions without MapSpec that return a plain ndarray of rank 1-3 (nobody indexes it)
                case = mapgen.with_plain_arrays(case, random.Random(f"c19plain:{desc['seed']}:{i}"))
            v.hit(mapgen.classes(case))
            nt = run_one(v, case, scratch, i)
            if nt:
                keys.append(mapgen.signature(case))
                if sample is None:
                    sample = {"case": mapgen.describe(case), "coordinate_dependencies": {o: sorted(map(list, d)) for o, d in coord_deps(case).items()}}
    return v.result(evaluations=v.counters.get("datasets_built", 0), keys=keys, sample=sample if desc["start"] % 80 == 0 else None)


def finalize(agg, tier, seed):
    c = agg.counters
    floors = []
    if agg.classes.get("zip", 0) < 50:
        floors.append(f"only {agg.classes.get('zip', 0)} cases with a zipped pair (< 50)")
    if agg.classes.get("generator", 0) < 20:
        floors.append(f"only {agg.classes.get('generator', 0)} cases with a generator intermediate (< 20)")
    if c.get("zipped_coordinates_of_mixed_kinds", 0) < 50:
        floors.append(f"only {c.get('zipped_coordinates_of_mixed_kinds', 0)} zipped coordinates over inputs of different element kinds (< 50)")
    if c.get("cases_reusing_the_name_of_a_reduced_axis", 0) < 20:
        floors.append(f"only {c.get('cases_reusing_the_name_of_a_reduced_axis', 0)} cases that map an input along the name of a reduced axis (< 20)")
    if c.get("cases_with_declared_defaults_overridden_by_inputs", 0) < 20:
        floors.append(f"only {c.get('cases_with_declared_defaults_overridden_by_inputs', 0)} cases with declared array defaults overridden by inputs (< 20)")
    if c.get("plain_array_outputs_checked", 0) < 20:
        floors.append(f"only {c.get('plain_array_outputs_checked', 0)} plain-array outputs without MapSpec checked (< 20)")
    if c.get("coordinate_expectations", 0) < 300:
        floors.append("fewer than 300 coordinate expectations checked")
    if c.get("selections_compared", 0) < 300:
        floors.append("fewer than 300 selections compared")
    if c.get("folders_reused_after_another_run", 0) < 50:
        floors.append("fewer than 50 runs into a folder that already served another run")
    if c.get("identical_comparisons", 0) < 300:
        floors.append("fewer than 300 identical() comparisons")
    return floors, {}
