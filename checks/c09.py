"""C09 - Caching never changes what a pipeline returns (DESIGN 4/C09).

History + twin: one generated history of operations is applied to a pipeline with caching and to an
uncached twin built from separate probes; every operation that succeeds on the twin must succeed with an
equal value on the cached pipeline.  Map part: cached MapSpec pipelines with repeated input values,
sequentially and with executors sharing the cache, compared with the denotation.
"""
from __future__ import annotations

import multiprocessing
import os
import random
from concurrent.futures import ProcessPoolExecutor, ThreadPoolExecutor

import numpy as np

from vlib import daggen, mapgen, probes
from vlib.util import V, exc_msg, exc_sig, quiet, tmpdir

PROPERTY = "C09"
LEVEL = "exploration"
DEADLINE = 400
CHUNK = 2
RULE = ("cases = call-DAGs from vlib.daggen (VERIF_SEED) x a random subset of functions with cache=True x cache types "
        "{simple, lru, hybrid, disk}; a generated history of <= 12 operations (pipeline(...) with root-only and "
        "intermediate-supplying keyword sets over a 2-3 value alphabet per root so that keys recur - strings, or for every third case "
        "numpy arrays incl. a transposed view and an equal Fortran-ordered copy -, run(full_output=True), "
        "update_defaults, update_bound, replace) is applied to the cached pipeline and to an uncached twin; every immediately "
        "repeated root-complete call must not re-execute cached functions; map part = MapSpec pipelines with cache=True "
        "functions and inputs with repeated values, sequential / thread pool / process pool sharing the cache, compared with "
        "the denotation; non-trivial = history with >= 1 observed cache hit; distinct = (case signature, cache type, cached "
        "subset, history)")
ASSUMPTIONS = ["expected value = uncached twin (cache=False everywhere, cache_type=None) + reference evaluator for classification",
               "disk caches get a private cache_dir per pipeline (the default directory is shared between all pipelines of a machine)",
               "the no-re-execution clause is demanded only for immediately repeated calls that supply every needed root explicitly "
               "(otherwise no cache key exists and nothing is resident)"]
CACHE_TYPES = ["simple", "lru", "hybrid", "disk"]
BATCH = 6


def plan(tier, seed):
    n = 1200 if tier == "quick" else 8000
    descs = [{"kind": "hist", "seed": seed, "start": s, "n": BATCH, "hists": 2 if tier == "quick" else 6} for s in range(0, n, BATCH)]
    m = 60 if tier == "quick" else 600
    descs += [{"kind": "map", "seed": seed, "start": s, "n": 4} for s in range(0, m, 4)]
    return descs


def build(case, log, cached, cache_type, scratch, tag, prefix=""):
    from pipefunc import Pipeline

    kw = {}
    if cache_type is not None:
        kw["cache_type"] = cache_type
        if cache_type in ("lru", "hybrid"):
            kw["cache_kwargs"] = {"shared": False}
        elif cache_type == "disk":
            d = os.path.join(scratch, f"disk-{tag}")
            os.makedirs(d, exist_ok=True)
            kw["cache_kwargs"] = {"cache_dir": d, "lru_shared": False}
    fs = daggen.build_funcs(case, log=log, cache=cached, prefix=prefix)
    return Pipeline(fs, **kw)


def gen_history(case, rng, length, arrays=False):
    outs = daggen.all_outputs(case)
    hist = []
    alpha = {r: [f"{r}u", f"{r}v"] for r in case["roots"]}
    # supplied values may coincide with the default or with a value some function binds under the same name
    for r in case["roots"]:
        alpha[r] += [case["defaults"][r]] if r in case["defaults"] else []
        alpha[r] += sorted({f["bound"][r] for f in case["funcs"] if r in f["bound"]})
    if arrays:
        # array-valued arguments: a square matrix, its transposed VIEW (same buffer, same shape, other content) and an
        # equal Fortran-ordered copy - equal arguments must hit, unequal ones must not
        # symbolic references, resolved to fresh objects by every application of the history (make_objects)
        for r in case["roots"]:
            alpha[r] = [["@", r, k] for k in range(4)]
    for _ in range(length):
        x = rng.random()
        if arrays and hist and alpha and rng.random() < 0.15:
            r = rng.choice(sorted(alpha))
            hist.append({"op": "mutate-argument-in-place", "root": r, "item": f"{r}L{len(hist)}"})
            continue
        earlier_calls = [h for h in hist if h["op"] == "call" and h["kind"] == "root"]
        if earlier_calls and not arrays and rng.random() < 0.25:
            # neighbour of an earlier call: the same request with exactly one root argument dropped (default used),
            # added, or set to another value of its alphabet (incl. the default / a bound value of that name)
            h = rng.choice(earlier_calls)
            roots = sorted(daggen.needed_roots(case, h["out"]))
            if roots:
                r = rng.choice(roots)
                K = dict(h["K"])
                if r in K and r in case["defaults"] and rng.random() < 0.5:
                    del K[r]
                else:
                    K[r] = rng.choice([a for a in alpha[r] if a != K.get(r)] or alpha[r])
                hist.append({"op": "call", "out": h["out"], "K": K, "kind": "root", "full": rng.random() < 0.25, "neighbour": True})
                continue
        if x < 0.70 or not hist:
            out = rng.choice(outs)
            roots = sorted(daggen.needed_roots(case, out))
            K = {r: rng.choice(alpha[r]) for r in roots if not (r in case["defaults"] and rng.random() < 0.3)}
            kind = "root"
            if rng.random() < 0.3:
                inter = daggen.interior_names(case, out)
                if inter:
                    c = rng.choice(inter)
                    K = {r: rng.choice(alpha[r]) for r in daggen.needed_roots(case, out, {c})
                         if not (r in case["defaults"] and rng.random() < 0.3)}
                    K[c] = rng.choice([f"{c}I", f"{c}J"])
                    kind = "inter"
            hist.append({"op": "call", "out": out, "K": K, "kind": kind, "full": rng.random() < 0.25})
        elif x < 0.80:
            ds = [r for r in case["defaults"]]
            if ds:
                r = rng.choice(ds)
                hist.append({"op": "update_defaults", "name": r, "value": f"ND{len(hist)}{r}"})
        elif x < 0.90:
            bs = [(f["name"], p) for f in case["funcs"] for p in f["bound"]]
            if bs:
                fn, p = rng.choice(bs)
                hist.append({"op": "update_bound", "func": fn, "name": p, "value": f"NB{len(hist)}{p}"})
        else:
            f = rng.choice(case["funcs"])
            hist.append({"op": "replace", "func": f["name"], "prefix": f"R{len(hist)}_"})
        if hist[-1]["op"] != "call" and rng.random() < 0.6:
            # right after a mutation, repeat earlier calls verbatim (what a never-invalidated cache would answer stale)
            earlier = [h for h in hist if h["op"] == "call"]
            for h in rng.sample(earlier, min(len(earlier), rng.randint(1, 2))):
                hist.append(dict(h, K=dict(h["K"]), repeat_after_mutation=True))
    return hist


def possible_values(case, out, K, states, cap=600):
    """All values `out` can take when every function on the path may have been evaluated under ANY of the given
    pipeline states (defaults, bound, prefix) - i.e. what a cache that is never invalidated by mutations can serve."""
    import itertools

    K = {k: (x if isinstance(x, str) else probes.render(x)) for k, x in K.items()}  # as the probes render arguments
    memo = {}

    def vals(name):
        if name in K:
            return {K[name]}
        if name in memo:
            return memo[name]
        memo[name] = set()
        f = daggen.producer(case, name)
        res = set()
        if f is None:
            res = {d[name] for d, _, _ in states if name in d}
        else:
            k = f["outs"].index(name)
            for d, b, pfx in states:
                fb = b.get(f["name"], {})
                argsets = []
                for p in f["params"]:
                    if p in fb:
                        argsets.append({fb[p]})
                    elif p in K:
                        argsets.append({K[p]})
                    elif daggen.producer(case, p) is not None:
                        argsets.append(vals(p))
                    elif p in d:
                        argsets.append({d[p]})
                    else:
                        argsets.append(set())
                for combo in itertools.islice(itertools.product(*argsets), cap):
                    t = daggen.call_term(f, dict(zip(f["params"], combo)), pfx)
                    if f.get("ret") and k == 0:
                        res.add(str(probes.FALSY[f["ret"]]))  # values are compared through str()
                    else:
                        res.add(t if len(f["outs"]) == 1 else f"{t}#{k}")
                    if len(res) > cap:
                        break
        memo[name] = res
        return res

    return vals(out)


def make_objects(case):
    """Fresh argument objects for one application of a history: per root a square matrix, its transposed VIEW (same
    buffer and shape, other content), an equal Fortran-ordered copy, and a list that the history mutates in place."""
    objs = {}
    for n, r in enumerate(case["roots"]):
        a = np.arange(4).reshape(2, 2) + 10 * n
        objs[r] = [a, a.T, np.asfortranarray(a), [f"{r}L0"]]
    return objs


def resolve(K, objs):
    return {k: (objs[x[1]][x[2]] if isinstance(x, list) and len(x) == 3 and x[0] == "@" else x) for k, x in K.items()}


def apply_history(v, case, hist, cached, cache_type, scratch, tag, desc_w):
    objs = make_objects(case)
    plog, qlog = probes.new_log(scratch, "p"), probes.new_log(scratch, "q")
    with quiet():
        P = build(case, plog, cached, cache_type, scratch, tag)
        Q = build(case, qlog, set(), None, scratch, tag + "q")
    byn = {f["name"]: f for f in case["funcs"]}
    # model state for classification
    defaults = dict(case["defaults"])
    bound = {f["name"]: dict(f["bound"]) for f in case["funcs"]}
    prefix = {}
    old_states = []  # (defaults, bound, prefix) before each mutation
    seen_inter = False
    last_mut = "no-mutation"
    hits = 0
    for step, op in enumerate(hist):
        w = dict(desc_w, step=step, op=op, history=hist[: step + 1])
        if op["op"] == "mutate-argument-in-place":
            objs[op["root"]][3].append(op["item"])  # later calls pass the SAME list object, now with other content
            v.count("arguments_mutated_in_place")
            continue
        if op["op"] == "call":
            out, K = op["out"], resolve(op["K"], objs)

            def call(p, log):
                probes.log_clear(log)
                try:
                    with quiet():
                        if op["full"]:
                            r = p.run(out, full_output=True, kwargs=dict(K))[out]
                        else:
                            r = p(out, **K)
                    return ("ok", r, [c["f"] for c in probes.log_read(log)])
                except Exception as e:  # noqa: BLE001
                    return ("exc", e, [])
            q = call(Q, qlog)
            p = call(P, plog)
            v.count("calls_compared")
            if op["kind"] == "inter":
                seen_inter = True
            if q[0] != "ok":
                continue
            ctx = ("this-call-intermediate" if op["kind"] == "inter" else ("history-has-intermediate" if seen_inter else "roots-only"))
            if p[0] != "ok":
                v.bad(exc_sig(p[1], f"cached-raises/{cache_type}/{ctx}"), f"cached pipeline raised where the uncached twin returned: {exc_msg(p[1])}", **w)
                return hits
            if p[1] != q[1]:
                # classification: does the cached pipeline serve a value of a pre-mutation state, and WHICH kind of
                # mutation has to be ignored to explain it?  Hybrid states take the components named by `kinds`
                # (defaults / bound values / replaced functions) from an old state and the rest from the current one;
                # the smallest set of kinds that explains the value names the mechanism.
                sig = f"diverge/{last_mut}/{ctx}"
                current = (dict(defaults), {k: dict(x) for k, x in bound.items()}, dict(prefix))
                names = ("update_defaults", "update_bound", "replace")
                import itertools as _it
                done = False
                for size in (1, 2, 3):
                    for kinds in _it.combinations(range(3), size):
                        hyb = [tuple(st0[c] if c in kinds else current[c] for c in range(3)) for st0, _ in old_states]
                        if old_states and str(p[1]) in possible_values(case, out, K, hyb + [current]):
                            sig = "stale-after-mutation:" + "+".join(names[c] for c in kinds)
                            done = True
                            break
                    if done:
                        break
                v.bad(sig, f"cached pipeline returned {p[1]!r:.160}, uncached twin {q[1]!r:.160}", **w)
                return hits
            if len(p[2]) < len(q[2]):
                hits += 1
                v.count("cache_hits_observed")
            # immediate repeat: root-complete calls must not re-execute cached functions
            roots = daggen.needed_roots({**case, "funcs": [{**f, "bound": bound[f["name"]]} for f in case["funcs"]]}, out)
            if op["kind"] == "root" and all(r in K for r in roots):
                probes.log_clear(plog)
                try:
                    with quiet():
                        # (repeated in the form of the call itself: run(full_output=True) walks the whole upstream, a plain
                        # call returns at the first hit)
                        r2 = P.run(out, full_output=True, kwargs=dict(K))[out] if op["full"] else P(out, **K)
                except Exception as e:  # noqa: BLE001
                    v.bad(exc_sig(e, f"cached-raises-on-repeat/{cache_type}"), f"repeat of a successful call raised {exc_msg(e)}", **w)
                    return hits
                again = [c["f"] for c in probes.log_read(plog)]
                v.count("immediate_repeats")
                if op["full"]:
                    v.count("immediate_repeats_with_full_output")
                if r2 != q[1]:
                    v.bad(f"diverge-on-repeat/{last_mut}/{ctx}", f"repeat returned {r2!r:.160}, expected {q[1]!r:.160}", **w)
                    return hits
                redo = [f for f in again if f in cached]
                if redo:
                    v.bad(f"re-executed-resident/{cache_type}", f"cached function(s) {redo} re-executed on an immediately repeated call", **w)
                    return hits
                if cache_type == "disk" and step % 3 == 0:
                    # the disk cache IS its directory: a copy of the pipeline (a second DiskCache object on the same directory)
                    # repeating the call finds every entry resident
                    try:
                        with quiet():
                            P2 = P.copy()
                            probes.log_clear(plog)
                            r3 = P2(out, **K)
                        again3 = [c["f"] for c in probes.log_read(plog)]
                        v.count("repeats_on_a_copy_sharing_the_disk_cache")
                        if r3 != q[1]:
                            v.bad(f"diverge-on-repeat/{last_mut}/{ctx}/copy", f"repeat on a copy returned {r3!r:.160}, expected {q[1]!r:.160}", **w)
                        elif [f for f in again3 if f in cached]:
                            v.bad("re-executed-resident/disk/copy-sharing-the-directory",
                                  f"cached function(s) {[f for f in again3 if f in cached]} re-executed by a copy of the pipeline although the entries are in the shared cache directory", **w)
                    except Exception as e:  # noqa: BLE001
                        v.bad(exc_sig(e, "cached-raises-on-repeat/disk/copy"), f"repeat on a copy raised {exc_msg(e)}", **w)
        else:
            old_states.append(((dict(defaults), {k: dict(x) for k, x in bound.items()}, dict(prefix)), op["op"]))
            last_mut = "after-" + op["op"]
            try:
                with quiet():
                    for pl, lg in ((P, plog), (Q, qlog)):
                        if op["op"] == "update_defaults":
                            pl.update_defaults({op["name"]: op["value"]}, overwrite=True)
                        elif op["op"] == "update_bound":
                            f = byn[op["func"]]
                            pl[f["outs"][0]].update_bound({op["name"]: op["value"]}, overwrite=False)
                        else:
                            f = byn[op["func"]]
                            one = {**case, "funcs": [{**f, "bound": bound[f["name"]],
                                                      "defaults": {p: defaults[p] for p in f["defaults"] if p in defaults}}]}
                            nf = daggen.build_funcs(one, log=lg, cache=(cached if pl is P else set()), prefix=op["prefix"])[0]
                            pl.replace(nf)
            except Exception as e:  # noqa: BLE001
                v.count("mutation_refused")
                v.count(f"mutation_refused:{op['op']}:{type(e).__name__}")
                return hits
            v.count(f"mutations:{op['op']}")
            if op["op"] == "update_defaults":
                # overwrite=True replaces every function's defaults: earlier updates revert to the signature defaults
                defaults.clear()
                defaults.update(case["defaults"])
                defaults[op["name"]] = op["value"]
            elif op["op"] == "update_bound":
                bound[op["func"]][op["name"]] = op["value"]
            else:
                prefix[op["func"]] = op["prefix"]
    return hits


def run_hist(v, desc, scratch, keys):
    for i in range(desc["start"], desc["start"] + desc["n"]):
        case = daggen.case_from_seed(desc["seed"], i, max_funcs=5, p_ign=0.0, p_falsy=0.25 if i % 2 else 0.0)
        rng = random.Random(f"c09:{desc['seed']}:{i}")
        if any(f.get("ret") for f in case["funcs"]):
            v.count("cases_with_none_or_falsy_results")
        names = [f["name"] for f in case["funcs"]]
        for h in range(desc["hists"]):
            cached = {n for n in names if rng.random() < 0.6} or {names[-1]}
            hist = gen_history(case, rng, rng.randint(4, 12), arrays=(i % 3 == 0))
            if i % 3 == 0:
                v.count("histories_with_array_arguments")
            for ct in CACHE_TYPES:
                w = dict(case=daggen.describe(case), cached=sorted(cached), cache_type=ct)
                hits = apply_history(v, case, hist, cached, ct, scratch, f"{i}-{h}-{ct}", w)
                v.count("histories")
                kinds = {o.get("kind") for o in hist if o["op"] == "call"}
                if {"root", "inter"} <= kinds:
                    v.count("histories_mixing_root_and_intermediate")
                if any(o["op"] != "call" for o in hist):
                    v.count("histories_with_mutation")
                if hits:
                    keys.append(f"{daggen.signature(case)}|{ct}|{sorted(cached)}|{h}")


# ------------------------------------------------------------------------------------------ map part
def whole_upstream_case(rng):
    """Directed family: a mapped function receives an ENTIRE array produced by an earlier mapped function as an ordinary
    (unlisted) argument while it maps over another input - its cache key must follow the content of that array."""
    def fn(name, params, outs, mapspec, modes, out_axes):
        return {"name": name, "params": params, "outs": outs, "mapspec": mapspec, "modes": modes, "out_axes": list(out_axes),
                "internal": [], "internal_shape": [], "ret_list": False, "ishape_via": None}
    two_d = rng.random() < 0.3
    roots = {"x0": {"axes": ["i", "k"] if two_d else ["i"], "kind": "ndarray" if two_d else rng.choice(["list", "ndarray"])},
             "x1": {"axes": ["j"], "kind": rng.choice(["list", "ndarray"])}}
    ax0 = ["i", "k"] if two_d else ["i"]
    funcs = [fn("f0", ["x0"], ["y0"], f"x0[{', '.join(ax0)}] -> y0[{', '.join(ax0)}]", {"x0": list(ax0)}, ax0),
             fn("f1", ["y0", "x1"], ["y1"], "x1[j] -> y1[j]", {"y0": "whole", "x1": ["j"]}, ["j"])]
    if rng.random() < 0.5:
        funcs.append(fn("f2", ["y1", "y0"], ["y2"], None, {"y1": "whole", "y0": "whole"}, []))
    return {"sizes": {a: rng.randint(2, 3) for a in mapgen.AX}, "roots": roots, "funcs": funcs}


def _res_f(x, res):
    return f"f({x};cpus={res.cpus})"


def _res_cpus(kwargs):
    from pipefunc.resources import Resources

    return Resources(cpus=len(kwargs["x"]))


def resources_scenario(v, scratch, tag):
    """A mapped, cached function whose result also depends on resources evaluated from the WHOLE input arrays
    (callable `resources`, resources_scope="map", resources_variable): two maps on one pipeline that repeat element
    values while the arrays differ must each equal what an uncached pipeline returns."""
    from pipefunc import PipeFunc, Pipeline

    for ct in ("simple", "lru", "hybrid", "disk"):
        kw = {"cache_type": ct}
        if ct in ("lru", "hybrid"):
            kw["cache_kwargs"] = {"shared": False}
        elif ct == "disk":
            d = os.path.join(scratch, f"rdisk-{tag}")
            os.makedirs(d, exist_ok=True)
            kw["cache_kwargs"] = {"cache_dir": d, "lru_shared": False}
        try:
            with quiet():
                mk = lambda cache: PipeFunc(_res_f, "y", mapspec="x[i] -> y[i]", resources=_res_cpus, resources_variable="res",  # noqa: E731
                                            resources_scope="map", cache=cache)
                P, Q = Pipeline([mk(True)], **kw), Pipeline([mk(False)])
                for n, xs in enumerate((["a", "b"], ["a", "b", "c"], ["a", "b"])):
                    got = list(P.map({"x": xs}, run_folder=os.path.join(scratch, f"rp-{tag}-{ct}-{n}"), parallel=False, storage="dict")["y"].output)
                    want = list(Q.map({"x": xs}, run_folder=os.path.join(scratch, f"rq-{tag}-{ct}-{n}"), parallel=False, storage="dict")["y"].output)
                    v.count("resource_dependent_cached_maps")
                    if got != want:
                        v.bad(f"cached-map-value/resources-from-whole-arrays/{ct}", f"map #{n + 1} over x={xs}: cached {got}, uncached {want}",
                              cache_type=ct, inputs=xs)
                        break
        except Exception as e:  # noqa: BLE001
            v.bad(exc_sig(e, f"cached-map-raises/resources/{ct}"), f"map with callable resources raised {exc_msg(e)}", cache_type=ct)


def run_maps(v, desc, scratch, keys):
    ctx = multiprocessing.get_context("fork")
    resources_scenario(v, scratch, desc["start"])
    for i in range(desc["start"], desc["start"] + desc["n"]):
        case = mapgen.case_from_seed(desc["seed"], i, max_funcs=3, allow_bound=(i % 4 == 1))
        rng = random.Random(f"c09m:{desc['seed']}:{i}")
        if i % 4 == 3:
            case = whole_upstream_case(rng)
            v.count("map_cases_with_whole_upstream_array_argument")
        inputs = mapgen.make_inputs(case)
        if i % 3 == 1:
            # values whose hash() collides although they are unequal: hash(-1) == hash(-2), hash(2**61 - 1) == hash(0),
            # hash(2**61) == hash(1) - a key that keeps only hashes would confuse them
            pool = [-1, -2, 0, 2 ** 61 - 1, 1, 2 ** 61]
            cnt = [rng.randrange(len(pool))]

            def swap(x):
                if isinstance(x, list):
                    return [swap(y) for y in x]
                if isinstance(x, np.ndarray):
                    out = np.empty(x.shape, dtype=object)
                    for ix in np.ndindex(x.shape):
                        out[ix] = swap(x[ix])
                    return out
                cnt[0] += 1
                return pool[cnt[0] % len(pool)]
            inputs = {k: (swap(val) if isinstance(val, (list, np.ndarray)) else val) for k, val in inputs.items()}
            v.count("map_cases_with_hash_colliding_inputs")
        # repeated input values so that equal kwargs recur
        for k, val in list(inputs.items()):
            if isinstance(val, list) and len(val) >= 2:
                val = list(val)
                val[-1] = val[0]
                inputs[k] = val
            elif isinstance(val, np.ndarray) and val.shape[0] >= 2:
                val = val.copy()
                val[-1] = val[0]
                inputs[k] = val
        env, exp_calls = mapgen.oracle(case, inputs)
        names = [f["name"] for f in case["funcs"]]
        cached = {n for n in names if rng.random() < 0.7} or {names[0]}
        for mode in ("seq", "thread", "process"):
            for ct in (["lru", "simple", "hybrid", "disk"] if mode == "seq" else ["lru", "hybrid"] if mode == "process" else ["lru", "disk"]):
                log = probes.new_log(scratch)
                kw = {"cache_type": ct}
                if ct in ("lru", "hybrid"):
                    kw["cache_kwargs"] = {"shared": mode == "process"}
                elif ct == "disk":
                    d = os.path.join(scratch, f"mdisk-{i}-{mode}")
                    os.makedirs(d, exist_ok=True)
                    kw["cache_kwargs"] = {"cache_dir": d, "lru_shared": False, "with_lru_cache": mode == "seq"}
                w = dict(case=mapgen.describe(case), cached=sorted(cached), cache_type=ct, mode=mode)
                ex = None
                try:
                    with quiet():
                        p = mapgen.build_pipeline(case, log=log, cache=cached, pipeline_kwargs=kw)
                        mk = dict(run_folder=os.path.join(scratch, f"m-{i}-{mode}-{ct}"), internal_shapes=mapgen.internal_shapes_arg(case), storage="dict")
                        if mode == "seq":
                            res = p.map(inputs, parallel=False, **mk)
                        else:
                            ex = ThreadPoolExecutor(3) if mode == "thread" else ProcessPoolExecutor(2, mp_context=ctx)
                            res = p.map(inputs, executor=ex, **mk)
                except Exception as e:  # noqa: BLE001
                    v.bad(exc_sig(e, f"cached-map-raises/{mode}/{ct}"), f"cached map raised: {exc_msg(e)}", **w)
                    continue
                finally:
                    if ex is not None:
                        ex.shutdown(wait=True)
                v.count("cached_maps")
                v.count(f"cached_maps:{mode}:{ct}")
                for f in case["funcs"]:
                    for o in f["outs"]:
                        v.count("map_outputs_compared")
                        if probes.render(res[o].output) != probes.render(env[o]):
                            v.bad(f"cached-map-value/{mode}/{ct}", f"{o} differs from the denotation with caching on",
                                  got=probes.render(res[o].output)[:300], expected=probes.render(env[o])[:300], **w)
                calls = probes.log_read(log)
                total = sum(len(c) for c in exp_calls.values())
                # calls may be fewer than expected (hits), never different from an expected term
                expset = {(n, t) for n, cs in exp_calls.items() for _, t in cs}
                for c in calls:
                    if (c["f"], c["k"]) not in expset:
                        v.bad(f"cached-map-unexpected-call/{mode}/{ct}", f"unexpected call {c['f']} {c['k'][:100]}", **w)
                        break
                if len(calls) < total:
                    v.count("map_cache_hits_observed", total - len(calls))
                    keys.append(f"{mapgen.signature(case)}|{mode}|{ct}|{sorted(cached)}")
                # the SAME pipeline object maps the same inputs again (into another folder): every invocation of a cached
                # function now has a resident entry, so none of them may be executed again, and the values are unchanged
                if mode == "seq" or ct in ("lru", "hybrid"):
                    probes.log_clear(log)
                    ex = None
                    try:
                        with quiet():
                            mk2 = dict(mk, run_folder=os.path.join(scratch, f"m2-{i}-{mode}-{ct}"))
                            if mode == "seq" and ct == "disk":
                                # (through a sub-pipeline: map(output_names=...) copies the pipeline - another DiskCache object
                                # on the same directory)
                                res2 = p.map(inputs, parallel=False, output_names={o_ for f_ in case["funcs"] for o_ in f_["outs"]}, **mk2)
                            elif mode == "seq":
                                res2 = p.map(inputs, parallel=False, **mk2)
                            else:
                                ex = ThreadPoolExecutor(3) if mode == "thread" else ProcessPoolExecutor(2, mp_context=ctx)
                                res2 = p.map(inputs, executor=ex, **mk2)
                    except Exception as e:  # noqa: BLE001
                        v.bad(exc_sig(e, f"cached-map-raises-on-repeat/{mode}/{ct}"), f"repeated cached map raised: {exc_msg(e)}", **w)
                        continue
                    finally:
                        if ex is not None:
                            ex.shutdown(wait=True)
                    v.count("repeated_cached_maps")
                    again = [c for c in probes.log_read(log) if c["f"] in cached]
                    if again:
                        v.bad(f"cached-map-re-executed/{mode}/{ct}", f"{len(again)} invocation(s) of cached functions re-executed by a repeated map with "
                              f"equal inputs, e.g. {again[0]['f']} {again[0]['k'][:100]}", **w)
                    for f in case["funcs"]:
                        for o in f["outs"]:
                            if probes.render(res2[o].output) != probes.render(env[o]):
                                v.bad(f"cached-map-value-on-repeat/{mode}/{ct}", f"{o} differs from the denotation on the repeated cached map", **w)
                                break
                # a bound value of the SAME pipeline object is changed (public update_bound) and it maps the same inputs again
                # into a fresh folder: what the now-warm cache serves must be the denotation of the pipeline as it is now
                bfs = [(f_, q) for f_ in case["funcs"] for q in sorted(f_.get("bound") or {})]
                if bfs:
                    f_b, q_b = bfs[i % len(bfs)]
                    case3 = {**case, "funcs": [({**f_, "bound": {**f_["bound"], q_b: f"NB{q_b}"}} if f_ is f_b else f_) for f_ in case["funcs"]]}
                    env3, _ = mapgen.oracle(case3, inputs)
                    ex = None
                    try:
                        with quiet():
                            p[f_b["outs"][0]].update_bound({q_b: f"NB{q_b}"})
                            mk3 = dict(mk, run_folder=os.path.join(scratch, f"m3-{i}-{mode}-{ct}"))
                            if mode == "seq":
                                res3 = p.map(inputs, parallel=False, **mk3)
                            else:
                                ex = ThreadPoolExecutor(3) if mode == "thread" else ProcessPoolExecutor(2, mp_context=ctx)
                                res3 = p.map(inputs, executor=ex, **mk3)
                    except Exception as e:  # noqa: BLE001
                        v.bad(exc_sig(e, f"cached-map-raises-after-update_bound/{mode}/{ct}"), f"cached map after update_bound raised: {exc_msg(e)}", **w)
                        continue
                    finally:
                        if ex is not None:
                            ex.shutdown(wait=True)
                    v.count("cached_maps_after_update_bound")
                    for f in case["funcs"]:
                        for o in f["outs"]:
                            if probes.render(res3[o].output) != probes.render(env3[o]):
                                v.bad(f"cached-map-value-after-update_bound/{mode}/{ct}", f"{o}: a cached map after update_bound({q_b}) of {f_b['name']} "
                                      "differs from the denotation of the pipeline as it is now", got=probes.render(res3[o].output)[:300],
                                      expected=probes.render(env3[o])[:300], **w)
                                break
                os.unlink(log)


def run_case(desc):
    v = V()
    keys = []
    with tmpdir("c09-") as scratch:
        if desc["kind"] == "hist":
            run_hist(v, desc, scratch, keys)
        else:
            run_maps(v, desc, scratch, keys)
    return v.result(evaluations=v.counters.get("calls_compared", 0), keys=keys, sample={"desc": desc, "hits": v.counters.get("cache_hits_observed", 0) + v.counters.get("map_cache_hits_observed", 0)}
                    if desc["start"] % 60 == 0 else None)


def finalize(agg, tier, seed):
    c = agg.counters
    floors = []
    if c.get("cache_hits_observed", 0) < 1000:
        floors.append(f"only {c.get('cache_hits_observed', 0)} cache hits observed (< 1000)")
    if c.get("histories_mixing_root_and_intermediate", 0) < 200:
        floors.append("fewer than 200 histories mixing root-only and intermediate-supplying calls")
    if c.get("histories_with_mutation", 0) < 200:
        floors.append("fewer than 200 histories with a mutation")
    if c.get("arguments_mutated_in_place", 0) < 100:
        floors.append("fewer than 100 in-place mutations of an argument object between calls")
    if c.get("cases_with_none_or_falsy_results", 0) < 30:
        floors.append("fewer than 30 cases with functions returning None / falsy values")
    if c.get("histories_with_array_arguments", 0) < 100:
        floors.append("fewer than 100 histories with array-valued arguments")
    if c.get("immediate_repeats", 0) < 500 or c.get("immediate_repeats_with_full_output", 0) < 100:
        floors.append("fewer than 500 immediate repeats / 100 of them with full_output")
    if c.get("cached_maps_after_update_bound", 0) < 30:
        floors.append(f"only {c.get('cached_maps_after_update_bound', 0)} cached maps after a bound value was changed (< 30)")
    if c.get("map_cache_hits_observed", 0) < 100:
        floors.append("fewer than 100 cache hits observed in map runs")
    return floors, {}
