"""C07 - Every storage backend behaves as a masked n-d object array (DESIGN 4/C07).

One operation history is applied to the reference model (vlib.models_c07.RefArray: numpy object
array of the full shape + written flags) and to every class in pipefunc.map.storage_registry,
constructed as pipefunc itself does: cls(folder, shape, internal_shape, shape_mask).
"""
from __future__ import annotations

import gc
import hashlib
import itertools
import os
import random

import numpy as np

from vlib import models_c07 as M
from vlib.util import V, exc_msg, exc_sig, tmpdir

PROPERTY = "C07"
LEVEL = "exploration"
DEADLINE = 300
RULE = ("history = sequence of dump(external key, unique value) / persist-then-reopen, with reads "
        "(__getitem__ full-rank key, to_array(), to_array(splat_internal=False), mask, mask_linear(), has_index, "
        "get_from_index on written elements) interleaved and a read battery at the end; applied to the model and to "
        "every registered backend. Exhaustive part: all external shapes of rank 0..2 x internal shapes of rank 0..1 "
        "(sizes 1..2) x every interleaving (41 geometries); 'full' histories over ALL dump key tuples (per axis: ints "
        "-s-1..s, slices [:], [0:1], [1:], [::-1], [s:]; plus wrong-rank keys) and reopen, length <= 1/2 (quick) or "
        "<= 2/3 (thorough) for external rank 2 / <= 1; 'core' histories over in-range int keys, the all-slice key, a "
        "negative key and reopen, length <= 3, with ALL read key tuples after every such history of length <= 1 "
        "and every 5th of length 2 (thorough: <= 2 and every 5th of length 3), a rotating window of 10 read keys after "
        "the others. Random part: full rank 0..3, sizes 1..3 (unequal preferred), any of the 2^rank masks, histories of "
        "<= 12 operations with int / negative / slice / out-of-range / wrong-rank keys. non-trivial = at least one "
        "successful dump; distinct = distinct (geometry, backend set, operation sequence).")
ASSUMPTIONS = [
    "oracle = vlib.models_c07.RefArray (numpy basic indexing on an object array of the full shape + written flags); "
    "never imports pipefunc",
    "dump with a slice key writes the given value (whole) into every selected external element - the semantics "
    "pinned by tests/map/storage/test_all_storage.py (test_high_dim_with_slicing, test_with_internal_shape_list)",
    "values are unique strings - some writes store None / 0 / False instead - (object arrays of the internal shape holding unique strings when there is an "
    "internal shape); axis sizes >= 1",
    "not checked because the statement does not determine them: has_index / get_from_index outside 0..size-1 or on "
    "unwritten elements, reopening a dict-family array without persist(), non-tuple keys, "
    "to_array(splat_internal=True) without an internal shape",
    "zarr storages are not registered in this image (zarr shim), see DESIGN section 2; shared_memory_dict is "
    "sampled (each instance starts a manager process)",
]

READ_KINDS = ["get", "to_array", "to_array_nosplat", "mask", "mask_linear", "has_index", "get_from_index"]
ALL_KINDS = ["dump", "reopen"] + READ_KINDS


# ======================================================================== geometries
def _masks(e, n):
    out = []
    for pos in itertools.combinations(range(e + n), n):
        out.append(tuple(i not in pos for i in range(e + n)))
    return out


def exhaustive_geometries():
    geoms = []
    for e in range(3):
        for S in itertools.product([1, 2], repeat=e):
            for n in range(2):
                for I in itertools.product([1, 2], repeat=n):
                    for mask in _masks(e, n):
                        geoms.append((tuple(S), tuple(I), mask))
    return geoms


GEOMS = exhaustive_geometries()


# ======================================================================== key alphabets (exhaustive part)
def axis_alphabet(s):
    comps = list(range(-s - 1, s + 1))
    for sl in ([None, None, None], [0, 1, None], [1, None, None], [None, None, -1], [s, None, None]):
        if sl not in comps:
            comps.append(sl)
    return comps


def all_keys(sizes, other_rank):
    """Every key tuple over the per-axis alphabets + wrong-rank keys (JSON form)."""
    keys = [list(k) for k in itertools.product(*[axis_alphabet(s) for s in sizes])]
    r = len(sizes)
    wrong = [[0] * (r + 1), [[None, None, None]] * (r + 1)]
    if r >= 1:
        wrong.append([0] * (r - 1))
    if other_rank != r:
        wrong.append([0] * other_rank)
    for w in wrong:
        if w not in keys and len(w) != r:
            keys.append(w)
    return keys


def core_dump_keys(S):
    keys = [list(k) for k in itertools.product(*[range(s) for s in S])]
    if S:
        keys.append([[None, None, None]] * len(S))
        keys.append([-1] * len(S))
    return keys


def valid_int_keys(F):
    return [list(k) for k in itertools.product(*[range(s) for s in F])]


# ======================================================================== history construction
def small_battery(model, light=False, arrays=3):
    """Reads determined by the current model state (JSON ops).  `arrays`: bit 1 = to_array(), bit 2 =
    to_array(splat_internal=False) (FileArray.to_array starts a thread pool per call: ~3 ms)."""
    ops = [["mask_linear"], ["get", [[None, None, None]] * len(model.F)]]
    ops += [["has_index", i] for i in range(len(model.ext_indices))]
    if light:
        return ops
    ops += [["mask"]]
    if arrays & 1:
        ops.append(["to_array"])
    if model.I and arrays & 2:
        ops.append(["to_array_nosplat"])
    ops += [["get_from_index", i] for i, e in enumerate(model.ext_indices) if model.ext_written(e)]
    ops += [["get", k] for k in valid_int_keys(model.F)]
    return ops


def apply_to_model(model, op, tag):
    """Returns the expectation for one op: ("raise", why) | ("none",) | ("value", rendering, touches_unwritten)."""
    kind = op[0]
    if kind == "dump":
        key = M.decode_key(op[1])
        try:
            model.dump(key, make_value(model.I, tag))
        except IndexError as e:
            return ("raise", str(e))
        return ("none",)
    if kind == "reopen":
        return ("none",)
    if kind == "get":
        key = M.decode_key(op[1])
        try:
            vals, wr = model.getitem(key)
        except IndexError as e:
            return ("raise", str(e))
        return ("value", M.render_expected(vals, wr), not bool(np.all(wr)))
    some_unwritten = model.n_written() < len(model.ext_indices)
    if kind == "to_array":
        return ("value", M.render_expected(model.vals, model.written), some_unwritten)
    if kind == "to_array_nosplat":
        return ("value", ["arr", list(model.S), [M.render(model.ext_value(e)) if model.ext_written(e) else M.MASKED
                                                 for e in model.ext_indices]], some_unwritten)
    if kind == "mask":
        return ("value", ["missing", list(model.S), [not w for w in model.written_linear()]], some_unwritten)
    if kind == "mask_linear":
        return ("value", ["list", [not w for w in model.written_linear()]], some_unwritten)
    if kind == "has_index":
        return ("value", model.ext_written(model.ext_indices[op[1]]), False)
    if kind == "get_from_index":
        e = model.ext_indices[op[1]]
        if not model.ext_written(e):
            return ("skip",)
        return ("value", M.render(model.ext_value(e)), False)
    raise AssertionError(kind)


def make_value(I, tag):
    """Unique strings, except that some writes store None / 0 / False (falsy values must read back as written,
    not as 'missing')."""
    special = {3: None, 5: 0, 9: False}.get(tag % 11, "")
    if not I:
        return f"v{tag}" if special == "" else special
    a = np.empty(I, dtype=object)
    for n, idx in enumerate(np.ndindex(*I)):
        a[idx] = f"v{tag}." + ".".join(map(str, idx))
        if special != "" and n == 0:
            a[idx] = special
    return a


class HistoryBuilder:
    """Builds the op list of one history while stepping a private model (so that state-dependent reads,
    e.g. get_from_index on written elements, can be chosen); the runner replays it on a fresh model."""

    def __init__(self, geom):
        self.geom = geom
        self.model = M.RefArray(*geom)
        self.ops = []

    def add(self, op):
        apply_to_model(self.model, op, len(self.ops))
        self.ops.append(op)

    def extend(self, ops):
        for op in ops:
            self.add(op)


# ---- exhaustive sets
def exh_alphabet(geom, which):
    S, I, mask = geom
    if which == "full":
        keys = all_keys(S, len(S) + len(I))
    else:
        keys = core_dump_keys(S)
    return [["dump", k] for k in keys] + [["reopen"]]


def exh_maxlen(geom, which, tier):
    if which == "core":
        return 3
    small = len(geom[0]) <= 1
    if tier == "quick":
        return 2 if small else 1
    return 3 if small else 2


def exh_count(geom, which, tier):
    a = len(exh_alphabet(geom, which))
    return sum(a ** L for L in range(exh_maxlen(geom, which, tier) + 1))


def exh_histories(geom, which, tier):
    alpha = exh_alphabet(geom, which)
    for L in range(exh_maxlen(geom, which, tier) + 1):
        yield from itertools.product(alpha, repeat=L)


def build_exh_history(geom, which, tier, idx, seq, read_keys):
    hb = HistoryBuilder(geom)
    allkeys_len = 1 if tier == "quick" else 2  # always up to this length, every 5th history one step longer
    for j, op in enumerate(seq):
        hb.add(list(op))
        if which == "core" and j < len(seq) - 1:
            hb.extend(small_battery(hb.model, light=True))
    hb.extend(small_battery(hb.model, arrays=3 if (len(seq) <= 1 or idx % 3 == 0) else 0))
    if which == "core" and (len(seq) <= allkeys_len or (len(seq) == allkeys_len + 1 and idx % 5 == 0)):
        hb.extend(["get", k] for k in read_keys)
    else:
        w = 10
        hb.extend(["get", read_keys[(idx * w + j) % len(read_keys)]] for j in range(min(w, len(read_keys))))
    return hb.ops


# ---- random histories
def random_geometry(rng):
    r = rng.choices([0, 1, 2, 3], weights=[4, 16, 35, 45])[0]
    mask = tuple(rng.random() < 0.5 for _ in range(r))
    if r >= 2 and rng.random() < 0.75:
        sizes = rng.sample([1, 2, 3], r)
    else:
        sizes = [rng.randint(1, 3) for _ in range(r)]
    S = tuple(s for s, m in zip(sizes, mask) if m)
    I = tuple(s for s, m in zip(sizes, mask) if not m)
    return (S, I, mask)


def random_slice(rng, s):
    def bound():
        return None if rng.random() < 0.4 else rng.randint(-s - 1, s + 1)
    step = rng.choices([None, 1, -1, 2, -2], weights=[55, 10, 15, 12, 8])[0]
    return [bound(), bound(), step]


def random_key(rng, sizes, p_slice=0.27):
    if rng.random() < 0.03:  # wrong rank
        r = len(sizes)
        nr = rng.choice([x for x in (r - 1, r + 1, r + 2) if x >= 0])
        return [rng.choice([0, 0, -1, [None, None, None]]) for _ in range(nr)]
    key = []
    for s in sizes:
        u = rng.random()
        if u < 0.03:
            key.append(rng.choice([s, s + 1, -s - 1, -s - 2]))
        elif u < 0.03 + p_slice:
            key.append(random_slice(rng, s))
        elif u < 0.03 + p_slice + 0.2:
            key.append(rng.randint(-s, -1))
        else:
            key.append(rng.randint(0, s - 1))
    if rng.random() < 0.2:  # numpy integer scalars instead of python ints (valid indices that are not `int` instances)
        t = rng.choice(["int64", "int32", "intp", "uint8"])
        key = [({"np": t, "v": c} if isinstance(c, int) and (c >= 0 or t != "uint8") and rng.random() < 0.7 else c) for c in key]
    return key


def build_random_history(rng, geom):
    hb = HistoryBuilder(geom)
    m = hb.model
    n = rng.randint(1, 12)
    for _ in range(n):
        u = rng.random()
        if u < 0.42:
            hb.add(["dump", random_key(rng, m.S, p_slice=0.2)])
        elif u < 0.70:
            hb.add(["get", random_key(rng, m.F)])
        elif u < 0.75:
            hb.add(["to_array"])
        elif u < 0.78:
            hb.add(["to_array_nosplat"] if m.I else ["to_array"])
        elif u < 0.82:
            hb.add(["mask"])
        elif u < 0.86:
            hb.add(["mask_linear"])
        elif u < 0.90:
            hb.add(["has_index", rng.randrange(len(m.ext_indices))])
        elif u < 0.94:
            w = [i for i, e in enumerate(m.ext_indices) if m.ext_written(e)]
            hb.add(["get_from_index", rng.choice(w)] if w else ["has_index", rng.randrange(len(m.ext_indices))])
        else:
            hb.add(["reopen"])
    hb.extend(small_battery(m, arrays=rng.choice([1, 3])))
    return hb.ops


# ======================================================================== running a history
_REG = None


def registry():
    global _REG
    if _REG is None:
        from pipefunc.map import storage_registry
        _REG = dict(storage_registry)
    return _REG


SLOW = {"shared_memory_dict"}


def repro(name, cls, geom, ops, upto):
    S, I, mask = geom
    lines = ["import numpy as np; from pipefunc.map import storage_registry",
             f"cls = storage_registry[{name!r}]  # {cls.__name__}",
             f"a = cls(FOLDER, {S!r}, {I!r}, {mask!r})  # FOLDER: a path that does not exist yet"]
    for j, op in enumerate(ops[: upto + 1]):
        k = op[0]
        if k == "dump":
            val = repr(make_value(I, j)) if not I else f"np.array({make_value(I, j).tolist()!r}, dtype=object)"
            lines.append(f"a.dump({M.show_key(M.decode_key(op[1]))}, {val})")
        elif k == "reopen":
            lines.append(f"a.persist(); a = cls(FOLDER, {S!r}, {I!r}, {mask!r})")
        elif j == upto:
            if k == "get":
                lines.append(f"a[{M.show_key(M.decode_key(op[1]))}]")
            elif k == "to_array_nosplat":
                lines.append("a.to_array(splat_internal=False)")
            elif k == "mask":
                lines.append("a.mask")
            elif k in ("has_index", "get_from_index"):
                lines.append(f"a.{k}({op[1]})")
            else:
                lines.append(f"a.{k}()")
    return "\n".join(lines)


def sut_read(arr, op):
    kind = op[0]
    if kind == "get":
        return M.render(arr[M.decode_key(op[1])])
    if kind == "to_array":
        return M.render(arr.to_array(), strict=True)
    if kind == "to_array_nosplat":
        return M.render(arr.to_array(splat_internal=False), strict=True)
    if kind == "mask":
        return M.render_missing(arr.mask)
    if kind == "mask_linear":
        return ["list", [bool(x) for x in arr.mask_linear()]]
    if kind == "has_index":
        return bool(arr.has_index(op[1]))
    if kind == "get_from_index":
        return M.render(arr.get_from_index(op[1]))
    raise AssertionError(kind)


def short(x, n=400):
    s = repr(x)
    return s if len(s) <= n else s[:n] + "..."


def run_history(v, geom, ops, backends, scratch, hid, drop_old=True, plain_ctor=False):
    """Apply `ops` to a fresh model (expectations) and to each backend; compare."""
    S, I, mask = geom
    gcls = M.geom_class(S, I, mask)
    pat = M.pattern(mask)
    model = M.RefArray(S, I, mask)
    exps = []
    written_after, values_after = {}, {}
    for j, op in enumerate(ops):
        exps.append(apply_to_model(model, op, j))
        if op[0] == "dump" and exps[-1][0] == "none":
            written_after[j] = model.written_linear()
            values_after[j] = ([M.render(model.ext_value(e)) if model.ext_written(e) else None for e in model.ext_indices],
                               M.render_expected(model.vals, model.written))
        v.count(f"op_{op[0]}")
        v.count(f"pair:{pat}:{op[0]}")
        if exps[-1][0] == "raise":
            v.count(f"expected_IndexError_{op[0]}")
            v.count(f"expected_IndexError_{op[0]}_{exps[-1][1]}")
    reg = registry()
    observed = [0] * len(ops)
    for name in backends:
        cls = reg[name]
        folder = os.path.join(scratch, f"h{hid}-{name}")
        keep = []  # old instances kept alive when drop_old is False

        def ctor():
            if plain_ctor and not I:
                return cls(folder, S)
            return cls(folder, S, I, mask)

        def tail():
            return f"/{name}/{gcls}"

        def wit(j, **kw):
            d = {"backend": name, "shape": list(S), "internal_shape": list(I), "shape_mask": list(mask),
                 "op_index": j, "op": ops[j], "repro": repro(name, cls, geom, ops, j)}
            d.update(kw)
            return d

        try:
            arr = ctor()
        except Exception as e:  # noqa: BLE001
            v.bad(exc_sig(e, "construct") + f"/{name}/{gcls}", f"constructor raised: {exc_msg(e)}",
                  backend=name, shape=list(S), internal_shape=list(I), shape_mask=list(mask))
            continue
        nbad = 0
        for j, (op, exp) in enumerate(zip(ops, exps)):
            kind = op[0]
            if exp[0] == "skip":
                continue
            if nbad >= 3:
                break
            kc = M.key_class(M.decode_key(op[1])) if kind in ("dump", "get") else ""
            # ---------------- state-changing ops
            if kind == "reopen":
                try:
                    before = [bool(x) for x in arr.mask_linear()]
                except Exception:  # noqa: BLE001  (reported by the mask_linear op itself)
                    before = None
                try:
                    arr.persist()
                    if drop_old:
                        arr = None  # the old instance is gone before the folder is reopened
                        if name in SLOW:
                            gc.collect()  # ... really gone, together with its manager process
                    else:
                        keep.append(arr)
                    arr = ctor()
                except Exception as e:  # noqa: BLE001
                    if name in SLOW:  # exception type depends on how far the old manager's shutdown got
                        sig = f"reopen:unusable-after-reopen/{name}" + ("/old-instance-dropped" if drop_old else "/old-instance-kept")
                    else:
                        sig = exc_sig(e, "reopen") + tail()
                    v.bad(sig, f"persist()+constructor on the same folder raised: {exc_msg(e)} [{exc_sig(e, 'at')}]", **wit(j))
                    break
                v.count(f"cmp_reopen_{name}")
                observed[j] += 1
                try:
                    after = [bool(x) for x in arr.mask_linear()]
                except Exception as e:  # noqa: BLE001
                    after = None
                    if before is not None:
                        # one signature for "the reopened instance cannot be used at all" (no exception type in
                        # the signature: for a dead manager it depends on timing)
                        how = (("/old-instance-dropped" if drop_old else "/old-instance-kept") if name in SLOW else "")
                        v.bad(f"reopen:unusable-after-reopen/{name}{how}",
                              f"mask_linear() worked before persist() but raises on the instance constructed on the "
                              f"same folder afterwards: {exc_msg(e)} [{exc_sig(e, 'at')}]", **wit(j))
                        break
                if before is not None and after is not None and before != after:
                    v.bad(f"reopen:written-set-changed/{name}/{gcls}",
                          f"mask_linear() before persist {before} != after reopening {after}", **wit(j))
                    nbad += 1
                continue
            if kind == "dump":
                key = M.decode_key(op[1])
                try:
                    arr.dump(key, make_value(I, j))
                    err = None
                except Exception as e:  # noqa: BLE001
                    err = e
                v.count(f"cmp_dump_{name}")
                observed[j] += 1
                if exp[0] == "raise":
                    if err is None:
                        v.bad(f"dump:no-IndexError/{exp[1]}{tail()}",
                              f"dump {M.show_key(key)} accepted; the key is {exp[1]} for external shape {S}", **wit(j))
                        break
                    if not isinstance(err, IndexError):
                        v.bad(exc_sig(err, f"dump:{exp[1]}-not-IndexError") + tail(),
                              f"dump {M.show_key(key)} ({exp[1]}) raised {exc_msg(err)} instead of IndexError", **wit(j))
                        nbad += 1
                    continue
                if err is not None:
                    v.bad(exc_sig(err, "dump") + tail() + f"/{kc}",
                          f"dump {M.show_key(key)} of a valid key (external shape {S}) raised {exc_msg(err)}", **wit(j))
                    break
                # localise a dump that wrote the wrong elements: the written set right after the dump
                want = written_after[j]
                try:
                    ml = [not bool(x) for x in arr.mask_linear()]
                    hi = [bool(arr.has_index(i)) for i in range(len(want))]
                except Exception:  # noqa: BLE001  (reported by the read ops themselves)
                    ml = hi = None
                if ml is not None and ml != want and hi != want:
                    v.bad(f"dump:written-set-mismatch/{name}/{gcls}/{kc}",
                          f"after dump {M.show_key(key)} the written elements (linear, per has_index) are {hi}, "
                          f"model expects {want}", **wit(j, got=hi, expected=want))
                    break
                # ... or wrote the right set of elements but the wrong values (only visible on overwrites)
                if hi == want:
                    wantv, want_all = values_after[j]
                    try:
                        gotv = [M.render(arr.get_from_index(i)) if w else None for i, w in enumerate(want)]
                        got_all = M.render(arr[(slice(None),) * len(model.F)])
                    except Exception:  # noqa: BLE001
                        gotv = got_all = None
                    if gotv is not None and gotv != wantv and got_all != want_all:
                        v.bad(f"dump:stored-values-mismatch/{name}/{gcls}/{kc}",
                              f"after dump {M.show_key(key)} the stored elements (get_from_index per linear index) are "
                              f"{short(gotv)}, model expects {short(wantv)}", **wit(j, got=short(gotv, 800), expected=short(wantv, 800)))
                        break
                continue
            # ---------------- reads
            try:
                got = sut_read(arr, op)
                err = None
            except Exception as e:  # noqa: BLE001
                err = e
            v.count(f"cmp_{kind}_{name}")
            observed[j] += 1
            if exp[0] == "raise":
                key = M.decode_key(op[1])
                if err is None:
                    v.bad(f"{kind}:no-IndexError/{exp[1]}{tail()}",
                          f"a[{M.show_key(key)}] returned {short(got)}; the key is {exp[1]} for full shape {model.F}",
                          **wit(j, got=short(got)))
                    nbad += 1
                elif not isinstance(err, IndexError):
                    v.bad(exc_sig(err, f"{kind}:{exp[1]}-not-IndexError") + tail(),
                          f"a[{M.show_key(key)}] ({exp[1]}) raised {exc_msg(err)} instead of IndexError", **wit(j))
                    nbad += 1
                continue
            unw = "touches-unwritten" if exp[2] else "all-written"
            if err is not None:
                v.bad(exc_sig(err, kind) + tail() + (f"/{kc}" if kc else "") + f"/{unw}",
                      f"{kind} {op[1:]} raised {exc_msg(err)}; model expects {short(exp[1])}", **wit(j))
                nbad += 1
                continue
            if got != exp[1]:
                g2 = "internal" if I else "no-internal"
                v.bad(f"{kind}:mismatch/{name}/{g2}" + (f"/{'slice-key' if kc == 'slice-key' else 'int-key'}" if kc else "")
                      + f"/{unw}",
                      f"{kind} {op[1:]} returned {short(got)}; model expects {short(exp[1])}",
                      **wit(j, got=short(got, 800), expected=short(exp[1], 800)))
                nbad += 1
        arr = None
        keep.clear()
    for n_obs in observed:
        if n_obs >= 2:
            v.count("xbackend_comparisons", n_obs * (n_obs - 1) // 2)
    ndump_ok = sum(1 for op, e in zip(ops, exps) if op[0] == "dump" and e[0] == "none")
    return ndump_ok


def hist_key(geom, backends, ops):
    s = repr((geom, backends, ops))
    return hashlib.md5(s.encode()).hexdigest()[:14]


def backends_for(idx, every):
    b = ["file_array", "dict"]
    if idx % every == 0:
        b.append("shared_memory_dict")
    return [x for x in b if x in registry()] + [x for x in registry() if x not in ("file_array", "dict", "shared_memory_dict")]


# ======================================================================== plan / run_case
EXH_CHUNK = 120
RAND_BATCH = 75


def failed_dump(v, rng, geom, backends, scratch, hid):
    """A dump whose value cannot be stored (the backend's serialisation raises) must leave NOTHING observable behind: every
    read gives what it gave before. (Backends that keep values in memory accept any object; nothing is demanded of them.)"""
    import threading

    S, I, mask = geom
    reg = registry()
    m = M.RefArray(S, I, mask)
    pre = [["dump", random_key(rng, m.S, p_slice=0.0)] for _ in range(rng.randint(0, 2))]
    victim = random_key(rng, m.S, p_slice=0.0)
    reads = [["to_array"], ["mask"], ["mask_linear"]] + [["has_index", k] for k in range(len(m.ext_indices))] + \
        [["get", M.encode_key(tuple(e) + (slice(None),) * len(I))] for e in m.ext_indices][:6]
    for name in backends:
        if name in SLOW:
            continue
        folder = os.path.join(scratch, f"fd{hid}-{name}")
        try:
            arr = reg[name](folder, S, I, mask)
            for j, op in enumerate(pre):
                arr.dump(M.decode_key(op[1]), make_value(I, j))
        except Exception:  # noqa: BLE001  (judged by the histories)
            continue

        def observe():
            out = []
            for op in reads:
                try:
                    out.append(short(sut_read(arr, op), 300))
                except Exception as e:  # noqa: BLE001
                    out.append(f"EXC {type(e).__name__}")
            return out
        # a linear index beyond the last element denotes NO element (row-major order of the external shape): has_index must not
        # say True and get_from_index must not hand out a stored value for it
        size = len(m.ext_indices)
        for idx in (size, size + 1, 2 * size):
            for what in ("has_index", "get_from_index"):
                try:
                    got = getattr(arr, what)(idx)
                except Exception:  # noqa: BLE001  (refusing is fine)
                    v.count("linear_indices_beyond_the_end_refused")
                    continue
                v.count("linear_indices_beyond_the_end_answered")
                if what == "has_index" and bool(got):
                    v.bad(f"has_index:true-beyond-the-end/{name}", f"has_index({idx}) is True for an array of {size} element(s)", backend=name,
                          shape=list(S), internal_shape=list(I), shape_mask=list(mask), earlier_dumps=pre)
                elif what == "get_from_index" and M.render(got) != M.MASKED and pre:
                    v.bad(f"get_from_index:value-beyond-the-end/{name}", f"get_from_index({idx}) returned {short(M.render(got), 120)} for an array of "
                          f"{size} element(s)", backend=name, shape=list(S), internal_shape=list(I), shape_mask=list(mask), earlier_dumps=pre)
        before = observe()
        bad_value = threading.Lock()
        if I:
            a = np.empty(I, dtype=object)
            for idx in np.ndindex(*I):
                a[idx] = "x"
            a[(0,) * len(I)] = bad_value
            bad_value = a
        try:
            arr.dump(M.decode_key(victim), bad_value)
        except Exception:  # noqa: BLE001
            v.count("dumps_that_raised")
            v.count(f"dumps_that_raised:{name}")
            after = observe()
            if after != before:
                k = next(k for k in range(len(reads)) if after[k] != before[k])
                v.bad(f"failed-dump-left-a-trace/{name}:{reads[k][0]}", f"after dump({M.show_key(M.decode_key(victim))}, <unpicklable>) raised, "
                      f"{reads[k]} changed from {before[k]} to {after[k]}", backend=name, shape=list(S), internal_shape=list(I),
                      shape_mask=list(mask), earlier_dumps=pre)
        else:
            v.count("unstorable_value_accepted_in_memory")


def plan(tier, seed):
    descs = []
    for gi, geom in enumerate(GEOMS):
        for which in ("core", "full"):
            n = exh_count(geom, which, tier)
            parts = max(1, -(-n // EXH_CHUNK))
            for p in range(parts):
                descs.append({"kind": "exh", "g": gi, "set": which, "part": p, "of": parts, "tier": tier})
    nb = 120 if tier == "quick" else 1600
    for b in range(nb):
        descs.append({"kind": "rand", "seed": seed, "batch": b, "n": RAND_BATCH})
    # heavy first is not needed; interleave so that progress is even
    return descs


def classes_of(v, geom):
    S, I, mask = geom
    v.classes.add("geom:" + M.geom_class(S, I, mask))
    sizes = list(M.interleave(mask, S, I))
    if len(sizes) >= 2 and len(set(sizes)) == len(sizes):
        v.classes.add("all-axis-sizes-unequal")
    v.classes.add(f"full-rank{len(mask)}")
    v.classes.add(f"internal-rank{len(I)}")


_FROZEN = False


def run_case(desc):
    global _FROZEN
    if not _FROZEN:
        # move the (large) import-time heap out of the collector's way: the explicit gc.collect() that makes a
        # dropped shared-memory instance really go away then costs ~1 ms instead of ~60 ms
        gc.collect()
        gc.freeze()
        _FROZEN = True
    v = V()
    keys = []
    sample = None
    with tmpdir("c07-") as scratch:
        if desc["kind"] == "literal":
            geom = (tuple(desc["shape"]), tuple(desc["internal_shape"]), tuple(bool(x) for x in desc["shape_mask"]))
            run_history(v, geom, desc["ops"], desc.get("backends") or list(registry()), scratch, 0,
                        drop_old=desc.get("drop_old", True))
            return v.result(key=None, sample=None)
        if desc["kind"] == "exh":
            geom = GEOMS[desc["g"]]
            which, tier = desc["set"], desc["tier"]
            classes_of(v, geom)
            S, I, mask = geom
            F = M.interleave(mask, S, I)
            read_keys = all_keys(F, len(S))
            every = 23 if which == "core" else 41
            for idx, seq in enumerate(exh_histories(geom, which, tier)):
                if idx % desc["of"] != desc["part"]:
                    continue
                ops = build_exh_history(geom, which, tier, idx, seq, read_keys)
                backends = backends_for(idx, every)
                nd = run_history(v, geom, ops, backends, scratch, idx, drop_old=(idx // every) % 2 == 0,
                                 plain_ctor=idx % 2 == 1)
                v.count("histories")
                v.count(f"histories_exh_{which}")
                if nd:
                    keys.append(hist_key(geom, backends, ops))
                if sample is None and idx % 977 == 5:
                    sample = {"shape": S, "internal_shape": I, "shape_mask": mask, "backends": backends,
                              "state_changing_ops": [list(o) for o in seq], "n_ops": len(ops),
                              "first_ops": ops[:12]}
            return v.result(keys=keys, sample=sample if desc["part"] == 0 else None)
        # random batch
        rng = random.Random(f"c07-{desc['seed']}-{desc['batch']}")
        for i in range(desc["n"]):
            geom = random_geometry(rng)
            classes_of(v, geom)
            ops = build_random_history(rng, geom)
            backends = backends_for(i, 16)
            nd = run_history(v, geom, ops, backends, scratch, i, drop_old=(i // 16) % 2 == 0, plain_ctor=i % 2 == 1)
            v.count("histories")
            v.count("histories_random")
            if nd:
                keys.append(hist_key(geom, backends, ops))
            if i % 4 == 0:
                failed_dump(v, rng, geom, list(registry()), scratch, i)
            if sample is None and i == 7 and desc["batch"] % 80 == 0:
                sample = {"shape": geom[0], "internal_shape": geom[1], "shape_mask": geom[2], "backends": backends,
                          "ops": ops[:20], "n_ops": len(ops)}
    return v.result(keys=keys, sample=sample)


# ======================================================================== floors
def all_patterns():
    out = []
    for r in range(4):
        for mask in itertools.product([True, False], repeat=r):
            out.append(mask)
    return out


def finalize(agg, tier, seed):
    floors = []
    c = agg.counters
    q = tier == "quick"
    for mask in all_patterns():
        pat = M.pattern(mask)
        for kind in ALL_KINDS:
            if kind == "to_array_nosplat" and all(mask):
                continue
            need = 5 if q else 50
            if c.get(f"pair:{pat}:{kind}", 0) < need:
                floors.append(f"(mask pattern {pat} x op {kind}) observed {c.get(f'pair:{pat}:{kind}', 0)} times (< {need})")
    if c.get("dumps_that_raised:file_array", 0) < (100 if q else 1000):
        floors.append(f"only {c.get('dumps_that_raised:file_array', 0)} dumps of an unstorable value observed on file_array")
    need = 10 ** 4 if q else 10 ** 5
    if c.get("xbackend_comparisons", 0) < need:
        floors.append(f"only {c.get('xbackend_comparisons', 0)} cross-backend comparisons (< {need})")
    for name, need in (("file_array", 20000), ("dict", 20000), ("shared_memory_dict", 1000)):
        tot = sum(n for k, n in c.items() if k.startswith("cmp_") and k.endswith("_" + name))
        if tot < need * (1 if q else 10):
            floors.append(f"only {tot} comparisons on backend {name} (< {need * (1 if q else 10)})")
        for kind in ALL_KINDS:
            if c.get(f"cmp_{kind}_{name}", 0) < (20 if q else 200):
                floors.append(f"op {kind} compared only {c.get(f'cmp_{kind}_{name}', 0)} times on {name}")
    for k in ("expected_IndexError_dump_wrong-rank", "expected_IndexError_dump_out-of-range",
              "expected_IndexError_get_wrong-rank", "expected_IndexError_get_out-of-range"):
        if c.get(k, 0) < (100 if q else 1000):
            floors.append(f"{k}={c.get(k, 0)} (< {100 if q else 1000})")
    need = 5000 if q else 50000
    if len(agg.keys) < need:
        floors.append(f"only {len(agg.keys)} distinct non-trivial histories (< {need})")
    for cl in ("geom:internal-not-last", "geom:ext-rank0+internal-last", "geom:ext-rank0+no-internal",
               "all-axis-sizes-unequal", "full-rank3", "internal-rank2"):
        if agg.classes.get(cl, 0) < 10:
            floors.append(f"class {cl} hit by only {agg.classes.get(cl, 0)} descriptors (< 10)")
    extra = {"registered_backends": sorted(registry()), "exhaustive_geometries": len(GEOMS)}
    return floors, extra
