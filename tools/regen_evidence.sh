#!/bin/bash
# Runs every check's quick tier (VERIF_SEED=0) against /repo and rewrites /verif/evidence/<ID>.json; prints one line per check.
cd "$(dirname "$0")/.."
for c in C01 C02 C03 C04 C05 C06 C07 C08 C09 C10 C11 C12 C13 C14 C15 C16 C17 C18 C19 C20; do
  t0=$(date +%s)
  VERIF_SEED=0 timeout 3600 ./check $c --tier quick > /root/scratch/logs/regen-$c.txt 2>&1
  echo "$c exit=$? wall=$(( $(date +%s) - t0 ))s $(grep -E '^(VIOLATION|INCONCLUSIVE|HELD)' /root/scratch/logs/regen-$c.txt | head -1 | cut -c1-120)"
done
