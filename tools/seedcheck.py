#!/venv/bin/python
"""Confirm a seeded change and run checks against it.

usage: tools/seedcheck.py SEED_DIR ID PROPERTY CHECK[,CHECK...] [--tier quick] [--no-suite]
SEED_DIR holds patch.diff, demo.py (and notes.md).  In a scratch worktree of /repo's HEAD (removed
afterwards): (1) the patch applies, (2) the repository's baseline suite still passes with it,
(3) demo.py fails with the change and passes without, (4) the named checks are run against the
changed tree.  The outcome is written to /verif/seeded/ID/{patch.diff,demo.py,notes.md,meta.json}."""
import json
import os
import shutil
import subprocess
import sys

HOME = os.path.dirname(os.path.dirname(os.path.abspath(__file__)))


def sh(cmd, **kw):
    return subprocess.run(cmd, capture_output=True, text=True, **kw)


def main():
    a = sys.argv[1:]
    tier = "quick"
    suite = True
    if "--tier" in a:
        i = a.index("--tier"); tier = a[i + 1]; del a[i:i + 2]
    if "--no-suite" in a:
        a.remove("--no-suite"); suite = False
    sdir, sid, prop, checks = a[:4]
    wt = f"/root/scratch/sv/{sid}"
    sh(["git", "-C", "/repo", "worktree", "remove", "--force", wt]); shutil.rmtree(wt, ignore_errors=True)
    sh(["git", "-C", "/repo", "worktree", "prune"])
    os.makedirs("/root/scratch/sv", exist_ok=True)
    r = sh(["git", "-C", "/repo", "worktree", "add", "--detach", wt, "HEAD"])
    assert r.returncode == 0, r.stderr
    meta = {"id": sid, "property": prop, "repo_head": sh(["git", "-C", "/repo", "rev-parse", "--short", "HEAD"]).stdout.strip()}
    try:
        patch = os.path.join(sdir, "patch.diff")
        r = sh(["git", "-C", wt, "apply", "--3way", patch])
        if r.returncode != 0:
            r = sh(["git", "-C", wt, "apply", patch])
        meta["patch_applies"] = r.returncode == 0
        if r.returncode != 0:
            print(f"{sid}: PATCH DOES NOT APPLY: {r.stderr[:300]}")
            return 2
        # refresh patch against the current HEAD
        newpatch = sh(["git", "-C", wt, "diff", "HEAD"]).stdout
        env = {k: v for k, v in os.environ.items() if k not in ("PYTHONPATH", "PIPEFUNC_VERIF", "PYTEST_DISABLE_PLUGIN_AUTOLOAD")}
        denv = dict(env, PYTHONPATH=f"{HOME}/shim:{wt}")
        d1 = subprocess.run(["/venv/bin/python", os.path.join(sdir, "demo.py")], cwd=wt, env=denv, capture_output=True, text=True, timeout=900)
        meta["demo_with_change_exit"] = d1.returncode
        if suite:
            b = subprocess.run([os.path.join(HOME, "tools/baseline.sh"), f"/root/scratch/sv/{sid}-logs"], env=dict(env, VERIF_REPO=wt),
                               capture_output=True, text=True, timeout=1800)
            meta["suite_with_change"] = b.stdout.strip().splitlines()[0] if b.stdout.strip() else b.stderr[-200:]
            meta["suite_ok"] = b.returncode == 0
            shutil.rmtree(f"/root/scratch/sv/{sid}-logs", ignore_errors=True)
        results = {}
        for c in checks.split(","):
            cenv = dict(os.environ, VERIF_REPO=wt, VERIF_EVIDENCE_DIR=f"/root/scratch/sv/{sid}-ev", VERIF_REPLAY_DIR=f"/root/scratch/sv/{sid}-rp")
            r = subprocess.run([os.path.join(HOME, "check"), c, "--tier", tier], env=cenv, capture_output=True, text=True, timeout=7200)
            has_v = any(l.startswith("VIOLATION property=") for l in r.stdout.splitlines())
            sigs = sorted({l.strip().split(" (")[0] for l in r.stdout.splitlines() if l.strip().startswith("sig=")})
            verdict = "CAUGHT" if (r.returncode == 1 and has_v) else ("MISSED" if r.returncode == 0 else f"EXIT{r.returncode}")
            results[c] = {"verdict": verdict, "tier": tier, "signatures": sigs[:8]}
            print(f"{sid}: {c} [{tier}] -> {verdict} {sigs[:3]}")
            if verdict.startswith("EXIT"):
                print(r.stdout[-800:], r.stderr[-800:])
        meta["checks"] = results
        shutil.rmtree(f"/root/scratch/sv/{sid}-ev", ignore_errors=True)
        shutil.rmtree(f"/root/scratch/sv/{sid}-rp", ignore_errors=True)
        sh(["git", "-C", wt, "reset", "--hard", "HEAD"])
        d0 = subprocess.run(["/venv/bin/python", os.path.join(sdir, "demo.py")], cwd=wt, env=denv, capture_output=True, text=True, timeout=900)
        meta["demo_without_change_exit"] = d0.returncode
        ok = meta["demo_with_change_exit"] != 0 and d0.returncode == 0 and meta.get("suite_ok", True)
        meta["confirmed"] = ok
        print(f"{sid}: demo with={meta['demo_with_change_exit']} without={d0.returncode} suite={meta.get('suite_with_change')} confirmed={ok}")
        out = os.path.join(HOME, "seeded", sid)
        os.makedirs(out, exist_ok=True)
        prev = {}
        if os.path.exists(os.path.join(out, "meta.json")):
            prev = json.load(open(os.path.join(out, "meta.json")))
        if prev.get("checks"):
            merged = dict(prev["checks"]); merged.update(results); meta["checks"] = merged
        if not suite and "suite_ok" in prev:
            meta["suite_ok"], meta["suite_with_change"] = prev["suite_ok"], prev.get("suite_with_change")
            meta["confirmed"] = meta["demo_with_change_exit"] != 0 and d0.returncode == 0 and prev["suite_ok"]
        open(os.path.join(out, "patch.diff"), "w").write(newpatch)
        same = os.path.abspath(sdir) == os.path.abspath(out)
        if not same:
            shutil.copy(os.path.join(sdir, "demo.py"), out)
        notes = os.path.join(sdir, "notes.md")
        if os.path.exists(notes):
            if not same:
                shutil.copy(notes, out)
            meta["needs"] = open(notes).read()[:1500]
        meta["ran"] = f"tools/seedcheck.py {sdir} {sid} {prop} {checks} --tier {tier}"
        json.dump(meta, open(os.path.join(out, "meta.json"), "w"), indent=1)
        return 0
    finally:
        sh(["git", "-C", "/repo", "worktree", "remove", "--force", wt]); shutil.rmtree(wt, ignore_errors=True)
        sh(["git", "-C", "/repo", "worktree", "prune"])


if __name__ == "__main__":
    sys.exit(main())
