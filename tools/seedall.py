#!/venv/bin/python
"""Re-runs every seeded change in /verif/seeded against the current checks (quick tier, suite not re-run), 4 at a time.
Prints one line per (seed, check); exit 1 if any seed is not caught by at least one check of its own property."""
import concurrent.futures as cf
import glob
import json
import os
import subprocess
import sys

HOME = os.path.dirname(os.path.dirname(os.path.abspath(__file__)))


def one(d):
    meta = json.load(open(os.path.join(d, "meta.json")))
    sid, prop = meta["id"], meta["property"]
    checks = ",".join(sorted(meta.get("checks", {prop: 0})))
    r = subprocess.run([os.path.join(HOME, "tools/seedcheck.py"), d, sid, prop, checks, "--no-suite"], capture_output=True, text=True, timeout=7200)
    lines = [l for l in r.stdout.splitlines() if "->" in l and not l.startswith("  ")]
    return sid, prop, lines


def main():
    dirs = sorted(glob.glob(os.path.join(HOME, "seeded", "*")))
    only = sys.argv[1:]
    if only:
        dirs = [d for d in dirs if os.path.basename(d) in only]
    bad = 0
    with cf.ThreadPoolExecutor(4) as ex:
        for sid, prop, lines in ex.map(one, dirs):
            own = [l for l in lines if f" {prop} [" in l]
            ok = any("CAUGHT" in l for l in own)
            for l in lines:
                print(l[:220], flush=True)
            if not ok:
                bad += 1
                print(f"{sid}: NOT CAUGHT by its own property's check {prop}", flush=True)
    print(f"{len(dirs)} seeds, {bad} not caught by their own property's check")
    return 1 if bad else 0


if __name__ == "__main__":
    sys.exit(main())
