#!/bin/bash
# Offline setup: contracts library beside the repository's interpreter (git-ignored .deps).
HERE="$(cd "$(dirname "${BASH_SOURCE[0]}")/.." && pwd)"
set -e
if [ ! -d "$HERE/.deps/icontract" ]; then
  PIP_NO_INDEX=1 /venv/bin/pip install -q --no-index --find-links /opt/veriftools/wheels \
     --target "$HERE/.deps" icontract
fi
mkdir -p "$HERE/evidence"
echo setup-ok
