#!/venv/bin/python
"""Systematic mutation sweep (self-test of the checks; complements the hand-made seeded changes).

usage: tools/mutsweep.py REL_FILE CHECK[,CHECK...] [--max N] [--seed S] [--jobs J] [--nproc P] [--lines A-B]

Enumerates small syntactic mutants of /repo/REL_FILE (comparison / boolean operator swaps, dropped `not`,
negated simple conditions, 0/1 and True/False constants, +/- swaps, statements replaced by `pass`), samples N of
them and runs the named checks (quick tier) against each in scratch git worktrees of /repo's HEAD
(/root/scratch/ms/w<k>, removed afterwards).  One JSON line per mutant is appended to
/root/scratch/ms/<file>.jsonl: verdict killed (which check, signatures) / survived / inconclusive / broken-import.
Survivors are for a human to classify (equivalent, outside every property, or a gap of the checks)."""
import ast
import json
import os
import random
import shutil
import subprocess
import sys
import threading

HOME = os.path.dirname(os.path.dirname(os.path.abspath(__file__)))
BASE = "/root/scratch/ms"
CMP = {ast.Eq: "!=", ast.NotEq: "==", ast.Lt: "<=", ast.LtE: "<", ast.Gt: ">=", ast.GtE: ">",
       ast.Is: "is not", ast.IsNot: "is", ast.In: "not in", ast.NotIn: "in"}
CMPTXT = {ast.Eq: "==", ast.NotEq: "!=", ast.Lt: "<", ast.LtE: "<=", ast.Gt: ">", ast.GtE: ">=",
          ast.Is: "is", ast.IsNot: "is not", ast.In: "in", ast.NotIn: "not in"}


def sites(src):
    """Yield (lineno, col_start, col_end, replacement, kind) single-line textual edits."""
    tree = ast.parse(src)
    lines = src.splitlines()
    skip = set()
    for n in ast.walk(tree):  # annotations, decorators and docstrings are not mutated
        for attr in ("annotation", "returns"):
            a = getattr(n, attr, None)
            if a is not None:
                for m in ast.walk(a):
                    skip.add(id(m))
        if isinstance(n, ast.If):
            t = ast.unparse(n.test)
            if "TYPE_CHECKING" in t:
                for m in ast.walk(n):
                    skip.add(id(m))
        if isinstance(n, (ast.FunctionDef, ast.AsyncFunctionDef, ast.ClassDef, ast.Module)):
            b = n.body
            if b and isinstance(b[0], ast.Expr) and isinstance(getattr(b[0], "value", None), ast.Constant) and isinstance(b[0].value.value, str):
                skip.add(id(b[0]))
                skip.add(id(b[0].value))
            for d in getattr(n, "decorator_list", []):
                for m in ast.walk(d):
                    skip.add(id(m))
        if isinstance(n, ast.Raise):  # messages
            for m in ast.walk(n):
                skip.add(id(m))
    out = []

    def between(a, b, want):
        """Locate operator text `want` between end of node a and start of node b (same line)."""
        if a.end_lineno != b.lineno:
            return None
        seg = lines[a.end_lineno - 1][a.end_col_offset:b.col_offset]
        k = seg.find(want)
        if k < 0:
            return None
        return a.end_lineno, a.end_col_offset + k, a.end_col_offset + k + len(want)

    for n in ast.walk(tree):
        if id(n) in skip:
            continue
        if isinstance(n, ast.Compare) and len(n.ops) == 1 and type(n.ops[0]) in CMP:
            loc = between(n.left, n.comparators[0], CMPTXT[type(n.ops[0])])
            if loc:
                out.append((*loc, CMP[type(n.ops[0])], "cmp"))
        elif isinstance(n, ast.BoolOp):
            w = "and" if isinstance(n.op, ast.And) else "or"
            loc = between(n.values[0], n.values[1], f" {w} ")
            if loc:
                out.append((*loc, " or " if w == "and" else " and ", "bool"))
        elif isinstance(n, ast.UnaryOp) and isinstance(n.op, ast.Not) and n.lineno == n.operand.lineno:
            out.append((n.lineno, n.col_offset, n.operand.col_offset, "", "drop-not"))
        elif isinstance(n, (ast.If, ast.While, ast.IfExp)) and isinstance(n.test, (ast.Name, ast.Call, ast.Attribute, ast.Subscript)) \
                and n.test.lineno == n.test.end_lineno:
            t = n.test
            out.append((t.lineno, t.col_offset, t.end_col_offset, f"(not {lines[t.lineno - 1][t.col_offset:t.end_col_offset]})", "negate-test"))
        elif isinstance(n, ast.Constant) and n.lineno == n.end_lineno:
            if n.value is True or n.value is False:
                out.append((n.lineno, n.col_offset, n.end_col_offset, str(not n.value), "bool-const"))
            elif isinstance(n.value, int) and not isinstance(n.value, bool) and 0 <= n.value <= 3:
                out.append((n.lineno, n.col_offset, n.end_col_offset, str(n.value + 1), "int-const"))
                if n.value > 0:
                    out.append((n.lineno, n.col_offset, n.end_col_offset, str(n.value - 1), "int-const"))
        elif isinstance(n, ast.BinOp) and isinstance(n.op, (ast.Add, ast.Sub)):
            w = "+" if isinstance(n.op, ast.Add) else "-"
            loc = between(n.left, n.right, w)
            if loc:
                out.append((*loc, "-" if w == "+" else "+", "arith"))
        elif isinstance(n, (ast.Expr, ast.Assign, ast.AugAssign, ast.Continue, ast.Break)) and n.lineno == n.end_lineno:
            if isinstance(n, ast.Expr) and not isinstance(n.value, (ast.Call, ast.Await)):
                continue
            if isinstance(n, ast.Assign) and isinstance(n.value, ast.Constant) and n.value.value is None:
                continue
            line = lines[n.lineno - 1]
            if line[:n.col_offset].strip() or line[n.end_col_offset:].strip().rstrip(";").split("#")[0].strip():
                continue  # shares the line with something else
            kind = {ast.Expr: "del-call", ast.Assign: "del-assign", ast.AugAssign: "del-augassign",
                    ast.Continue: "del-continue", ast.Break: "del-break"}[type(n)]
            out.append((n.lineno, n.col_offset, n.end_col_offset, "pass", kind))
    return sorted(set(out))


def apply(src, site):
    ln, a, b, rep, _ = site
    lines = src.split("\n")
    lines[ln - 1] = lines[ln - 1][:a] + rep + lines[ln - 1][b:]
    return "\n".join(lines)


def sh(cmd, **kw):
    return subprocess.run(cmd, capture_output=True, text=True, **kw)


def worker(k, rel, orig, jobs, checks, nproc, outpath, lock):
    wt = f"{BASE}/w{k}"
    sh(["git", "-C", "/repo", "worktree", "remove", "--force", wt]); shutil.rmtree(wt, ignore_errors=True)
    sh(["git", "-C", "/repo", "worktree", "prune"])
    r = sh(["git", "-C", "/repo", "worktree", "add", "--detach", wt, "HEAD"])
    assert r.returncode == 0, r.stderr
    target = os.path.join(wt, rel)
    env0 = {kk: v for kk, v in os.environ.items() if kk not in ("PYTHONPATH",)}
    try:
        while True:
            with lock:
                if not jobs:
                    return
                site = jobs.pop()
            mutated = apply(orig, site)
            rec = {"file": rel, "line": site[0], "kind": site[4], "orig": orig.split("\n")[site[0] - 1].strip(),
                   "mutant": mutated.split("\n")[site[0] - 1].strip(), "site": list(site[:4])}
            try:
                compile(mutated, rel, "exec")
            except SyntaxError:
                rec["verdict"] = "syntax-error"
                _emit(outpath, lock, rec)
                continue
            open(target, "w").write(mutated)
            try:
                imp = sh(["/venv/bin/python", "-c", "import pipefunc, pipefunc.map, pipefunc.sweep, pipefunc.lazy, pipefunc.cache, pipefunc.resources, pipefunc.typing, pipefunc.map.adaptive, pipefunc.map.xarray"],
                         env=dict(env0, PYTHONPATH=f"{HOME}/shim:{wt}"), timeout=120)
                if imp.returncode != 0:
                    rec["verdict"] = "broken-import"
                    _emit(outpath, lock, rec)
                    continue
                rec["verdict"] = "survived"
                rec["runs"] = {}
                for c in checks:
                    cenv = dict(os.environ, VERIF_REPO=wt, VERIF_NPROC=str(nproc), VERIF_EVIDENCE_DIR=f"{BASE}/ev{k}", VERIF_REPLAY_DIR=f"{BASE}/rp{k}")
                    try:
                        r = sh([os.path.join(HOME, "check"), c, "--tier", "quick"], env=cenv, timeout=1500)
                        rc, stdout = r.returncode, r.stdout
                    except subprocess.TimeoutExpired:
                        rc, stdout = 124, ""
                    has_v = any(l.startswith("VIOLATION property=") for l in stdout.splitlines())
                    sigs = sorted({l.strip().split(" (")[0] for l in stdout.splitlines() if l.strip().startswith("sig=")})[:4]
                    if rc == 1 and has_v:
                        rec["verdict"] = "killed"; rec["by"] = c; rec["sigs"] = sigs
                        break
                    rec["runs"][c] = rc
                    if rc != 0:
                        rec["verdict"] = "inconclusive"
                        rec["reason"] = [l[:200] for l in stdout.splitlines() if l.startswith("INCONCLUSIVE")][:2]
                shutil.rmtree(f"{BASE}/ev{k}", ignore_errors=True); shutil.rmtree(f"{BASE}/rp{k}", ignore_errors=True)
                _emit(outpath, lock, rec)
            finally:
                open(target, "w").write(orig)
    finally:
        sh(["git", "-C", "/repo", "worktree", "remove", "--force", wt]); shutil.rmtree(wt, ignore_errors=True)
        sh(["git", "-C", "/repo", "worktree", "prune"])


def _emit(outpath, lock, rec):
    with lock:
        with open(outpath, "a") as f:
            f.write(json.dumps(rec) + "\n")
        print(f"{rec['verdict']:14s} {rec['file']}:{rec['line']} [{rec['kind']}] {rec['mutant'][:90]}  {rec.get('by', '')} {rec.get('sigs', '')}", flush=True)


def main():
    a = sys.argv[1:]
    opt = {"--max": 40, "--seed": 0, "--jobs": 3, "--nproc": 6, "--lines": None}
    for k in list(opt):
        if k in a:
            i = a.index(k); v = a[i + 1]; del a[i:i + 2]
            opt[k] = v if k == "--lines" else int(v)
    rel, checks = a[0], a[1].split(",")
    orig = open(os.path.join("/repo", rel)).read()
    ss = sites(orig)
    if opt["--lines"]:
        lo, hi = map(int, opt["--lines"].split("-"))
        ss = [s for s in ss if lo <= s[0] <= hi]
    rng = random.Random(f"mutsweep:{rel}:{opt['--seed']}")
    rng.shuffle(ss)
    jobs = ss[:opt["--max"]]
    os.makedirs(BASE, exist_ok=True)
    outpath = f"{BASE}/{rel.replace('/', '_')}.jsonl"
    print(f"{rel}: {len(ss)} sites, running {len(jobs)} mutants against {checks}; results -> {outpath}", flush=True)
    lock = threading.Lock()
    ts = [threading.Thread(target=worker, args=(k, rel, orig, jobs, checks, opt["--nproc"], outpath, lock)) for k in range(opt["--jobs"])]
    for t in ts:
        t.start()
    for t in ts:
        t.join()


if __name__ == "__main__":
    main()
