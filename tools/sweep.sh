#!/bin/bash
# tools/sweep.sh TIER "SEEDS" [CHECKS...]  - runs the checks for every seed, evidence to a scratch dir; prints one line per run.
TIER=$1; SEEDS=$2; shift 2
CHECKS=${@:-C01 C02 C03 C04 C05 C06 C07 C08 C09 C10 C11 C12 C13 C14 C15 C16 C17 C18 C19 C20}
cd "$(dirname "$0")/.."
mkdir -p /root/scratch/sweep
for s in $SEEDS; do for c in $CHECKS; do
  t0=$(date +%s)
  VERIF_SEED=$s VERIF_EVIDENCE_DIR=/root/scratch/sweep/ev-$TIER-$s VERIF_REPLAY_DIR=/root/scratch/sweep/rp-$TIER-$s timeout 7200 ./check $c --tier $TIER > /root/scratch/sweep/$c-$TIER-$s.txt 2>&1
  rc=$?
  echo "$c tier=$TIER seed=$s exit=$rc wall=$(( $(date +%s) - t0 ))s $(grep -E '^(VIOLATION|INCONCLUSIVE)' /root/scratch/sweep/$c-$TIER-$s.txt | head -2 | cut -c1-160 | tr '\n' ' ')"
done; done
