#!/venv/bin/python
"""Regenerates the seeded-changes table in DESIGN.md from /verif/seeded/*/meta.json."""
import glob
import json
import os
import re

HOME = os.path.dirname(os.path.dirname(os.path.abspath(__file__)))
rows = []
for m in sorted(glob.glob(os.path.join(HOME, "seeded", "*", "meta.json"))):
    d = json.load(open(m))
    needs = (d.get("needs") or "").strip().splitlines()
    first = next((l.strip("# ").strip() for l in needs if l.strip()), "")
    checks = "; ".join(f"{c}: {r['verdict']}" + (f" ({', '.join(s.replace('sig=', '') for s in r['signatures'][:2])})" if r["signatures"] else "")
                       for c, r in sorted(d.get("checks", {}).items()))
    rows.append(f"| `{d['id']}` | {d['property']} | {first[:150]} | {'yes' if d.get('confirmed') else 'NO'} | {checks} |")
table = ("<!-- SEEDED_TABLE_BEGIN -->\n| Seed | Property | What it is (first line of the author's notes) | Confirmed | Checks run against it |\n"
         "|---|---|---|---|---|\n" + "\n".join(rows) + "\n<!-- SEEDED_TABLE_END -->")
p = os.path.join(HOME, "DESIGN.md")
s = open(p).read()
if "SEEDED_TABLE_PLACEHOLDER" in s:
    s = s.replace("SEEDED_TABLE_PLACEHOLDER", table)
else:
    s = re.sub(r"<!-- SEEDED_TABLE_BEGIN -->.*?<!-- SEEDED_TABLE_END -->", lambda m: table, s, flags=re.S)
open(p, "w").write(s)
print(len(rows), "seeded changes listed")
