#!/venv/bin/python
"""Self-test helper: run checks against a scratch copy of /repo with one mutation applied.

usage: tools/mutate.py NAME FILE 'OLD' 'NEW' CHECK[,CHECK...] [--tier quick]
   or: tools/mutate.py --patch PATCHFILE NAME CHECK[,CHECK...]
The scratch copy lives under /root/scratch/mut/NAME and is removed afterwards; evidence and replay
files of the mutant runs go to a scratch directory, never to /verif/evidence."""
import os
import shutil
import subprocess
import sys

HOME = os.path.dirname(os.path.dirname(os.path.abspath(__file__)))


def main():
    a = sys.argv[1:]
    tier = "quick"
    if "--tier" in a:
        i = a.index("--tier")
        tier = a[i + 1]
        del a[i:i + 2]
    base = "/root/scratch/mut"
    if a[0] == "--patch":
        patch, name, checks = a[1], a[2], a[3]
        mode = "patch"
    else:
        name, rel, old, new, checks = a[:5]
        mode = "subst"
    d = os.path.join(base, name)
    shutil.rmtree(d, ignore_errors=True)
    os.makedirs(d)
    shutil.copytree("/repo/pipefunc", os.path.join(d, "pipefunc"), ignore=shutil.ignore_patterns("__pycache__"))
    try:
        if mode == "subst":
            p = os.path.join(d, rel)
            s = open(p).read()
            if s.count(old) != 1:
                print(f"MUTATE-ERROR: pattern occurs {s.count(old)} times in {rel}")
                return 3
            open(p, "w").write(s.replace(old, new))
        else:
            r = subprocess.run(["patch", "-p1", "-d", d, "-i", os.path.abspath(patch)], capture_output=True, text=True)
            if r.returncode:
                print("MUTATE-ERROR: patch failed", r.stdout, r.stderr)
                return 3
        rc = 0
        for c in checks.split(","):
            env = dict(os.environ, VERIF_REPO=d, VERIF_EVIDENCE_DIR=os.path.join(d, "evidence"),
                       VERIF_REPLAY_DIR=os.path.join(d, "replays"))
            r = subprocess.run([os.path.join(HOME, "check"), c, "--tier", tier], env=env, capture_output=True, text=True,
                               timeout=3600)
            lines = [l for l in r.stdout.splitlines() if l.startswith(("VIOLATION", "  sig=", "INCONCLUSIVE", "HELD", "KNOWN"))]
            sigs = sorted({l.strip().split(" (")[0] for l in r.stdout.splitlines() if l.strip().startswith("sig=")})
            verdict = "CAUGHT" if r.returncode == 1 else ("MISSED" if r.returncode == 0 else f"EXIT{r.returncode}")
            print(f"{name}: {c} -> {verdict} {sigs[:4]}")
            if r.returncode not in (0, 1):
                print(r.stdout[-1500:], r.stderr[-1500:])
            rc = max(rc, 0 if r.returncode == 1 else 1)
        return rc
    finally:
        shutil.rmtree(d, ignore_errors=True)


if __name__ == "__main__":
    sys.exit(main())
