#!/venv/bin/python
"""Self-test helper: run checks against a scratch copy of /repo with one mutation applied.

usage: tools/mutate.py NAME FILE 'OLD' 'NEW' CHECK[,CHECK...] [--tier quick]
   or: tools/mutate.py --patch PATCHFILE NAME CHECK[,CHECK...]
The scratch copy lives under /root/scratch/mut/NAME and is removed afterwards; evidence and replay
files of the mutant runs go to a scratch directory, never to /verif/evidence."""
import os
import shutil
import subprocess
import sys

HOME = os.path.dirname(os.path.dirname(os.path.abspath(__file__)))


def _remove(d):
    subprocess.run(["git", "-C", "/repo", "worktree", "remove", "--force", d], capture_output=True)
    shutil.rmtree(d, ignore_errors=True)
    subprocess.run(["git", "-C", "/repo", "worktree", "prune"], capture_output=True)


def main():
    a = sys.argv[1:]
    tier = "quick"
    if "--tier" in a:
        i = a.index("--tier")
        tier = a[i + 1]
        del a[i:i + 2]
    base = "/root/scratch/mut"
    if a[0] == "--patch":
        patch, name, checks = a[1], a[2], a[3]
        mode = "patch"
    elif a[0] == "--subs":  # JSON file: [[relative file, old, new], ...]
        import json
        subs, name, checks = json.load(open(a[1])), a[2], a[3]
        mode = "subs"
    else:
        name, rel, old, new, checks = a[:5]
        mode = "subst"
    d = os.path.join(base, name)
    _remove(d)
    os.makedirs(base, exist_ok=True)
    # a detached git worktree of /repo's HEAD (pipefunc/_version.py asks versioningit for VCS metadata)
    subprocess.run(["git", "-C", "/repo", "worktree", "add", "--detach", d, "HEAD"], check=True, capture_output=True)
    try:
        if mode == "subst":
            subs, mode = [[rel, old, new]], "subs"
        if mode == "subs":
            for rel, old, new in subs:
                p = os.path.join(d, rel)
                s = open(p).read()
                if s.count(old) != 1:
                    print(f"MUTATE-ERROR: pattern occurs {s.count(old)} times in {rel}")
                    return 3
                open(p, "w").write(s.replace(old, new))
        else:
            r = subprocess.run(["git", "-C", d, "apply", os.path.abspath(patch)], capture_output=True, text=True)
            if r.returncode:
                print("MUTATE-ERROR: patch failed", r.stdout, r.stderr)
                return 3
        rc = 0
        for c in checks.split(","):
            env = dict(os.environ, VERIF_REPO=d, VERIF_EVIDENCE_DIR=os.path.join(d, "evidence"),
                       VERIF_REPLAY_DIR=os.path.join(d, "replays"))
            r = subprocess.run([os.path.join(HOME, "check"), c, "--tier", tier], env=env, capture_output=True, text=True,
                               timeout=3600)
            lines = [l for l in r.stdout.splitlines() if l.startswith(("VIOLATION", "  sig=", "INCONCLUSIVE", "HELD", "KNOWN"))]
            sigs = sorted({l.strip().split(" (")[0] for l in r.stdout.splitlines() if l.strip().startswith("sig=")})
            has_v = any(l.startswith("VIOLATION property=") for l in r.stdout.splitlines())
            verdict = "CAUGHT" if (r.returncode == 1 and has_v) else ("MISSED" if r.returncode == 0 else f"EXIT{r.returncode}")
            print(f"{name}: {c} -> {verdict} {sigs[:4]}")
            if verdict.startswith("EXIT"):
                print(r.stdout[-1500:], r.stderr[-1500:])
            rc = max(rc, 0 if verdict == "CAUGHT" else 1)
        return rc
    finally:
        _remove(d)


if __name__ == "__main__":
    sys.exit(main())
