#!/venv/bin/python
"""Regenerates /verif/MANIFEST.json from the table below (checks present in /verif/checks)."""
import json
import os

HOME = os.path.dirname(os.path.dirname(os.path.abspath(__file__)))
FIX_COMMITS = []

T = {
    "C01": ("exploration", "differential against own MapSpec denotation over generated pipelines (symbolic probes + call log)",
            "Held on the generated executions: every output of every generated MapSpec pipeline, under each registered storage, compared element-by-element (as call-tree terms) with an independent denotational evaluator, plus exactly-once call accounting from the probe log.",
            "Bounded by the generator (<=4 functions, rank<=3, sizes 1..3); sequential execution only (parallel schedules are C03); oracle = vlib.mapgen.oracle.", "4/C01"),
    "C02": ("exploration", "differential against a reference DAG evaluator over generated call-DAGs (symbolic probes, call log, all call forms, listing orders, arg_combinations cuts)",
            "Held on the generated executions: value, call multiset, call order and full_output memo of pipeline(...)/run/func for every output and several keyword sets compared with an independent evaluator of the DAG description; listed argument combinations exercised; surplus/missing keywords must be rejected.",
            "Bounded by the generator (<=6 functions, <=3 roots); 'surplus keyword' is demanded to be rejected only when it names no parameter of any executed function (a keyword shadowed by a bound value carries no expectation).", "4/C02"),
}

NOT_BUILT_REASON = "check not built yet in this round (design in DESIGN.md section 4); not claimed until its monitor exists and is silent on the unchanged tree"


def main():
    props = [json.loads(l)["id"] for l in open(os.path.join(HOME, "properties.jsonl"))]
    checks, na = [], []
    for p in props:
        if p in T and os.path.exists(os.path.join(HOME, "checks", p.lower() + ".py")):
            level, tech, text, note, ref = T[p]
            checks.append({
                "property_id": p,
                "quick_cmd": f"./check {p} --tier quick",
                "thorough_cmd": f"./check {p} --tier thorough",
                "evidence_file": f"/verif/evidence/{p}.json",
                "replay_cmd_template": f"./check {p} --replay {{path}}",
                "engine": "vlib",
                "level_claimed": {"category": level, "text": text, "design_ref": f"DESIGN.md section {ref}"},
                "level_note": note,
                "technique": "runtime monitoring: " + tech,
            })
        else:
            na.append({"property_id": p, "reason": NOT_BUILT_REASON})
    m = {
        "version": 1,
        "setup_cmd": "./tools/setup.sh",
        "hooks": {
            "guard": "PIPEFUNC_VERIF",
            "enable": "no source hooks: every observation point is reached from outside (probe user functions, public executor/storage arguments, audit hooks, sys.monitoring); ./check exports PIPEFUNC_VERIF=1 for uniformity only",
            "baseline_off_cmd": "./tools/baseline.sh",
            "source_commits": [],
            "add_only": True,
        },
        "engines": [{"name": "vlib", "path": "/verif/vlib", "serves_properties": [c["property_id"] for c in checks],
                     "kind_free_text": "fork-based shard runner, symbolic probes with append-only call log, case generators with independent reference oracles, fs-event crash injector, controlled executor, known-finding classifier"}],
        "checks": checks,
        "not_applicable": na,
        "notes": "Runtime-monitoring family. Exit 0 = held on everything explored (KNOWN-FINDING lines allowed), 1 = VIOLATION, 2 = INCONCLUSIVE (fail-closed floor missed / watchdog). All commands honour VERIF_SEED and VERIF_TIER and import pipefunc from /repo's working tree at run time (VERIF_REPO overrides for self-tests).",
    }
    with open(os.path.join(HOME, "MANIFEST.json"), "w") as f:
        json.dump(m, f, indent=1)
    print("claimed:", [c["property_id"] for c in checks], "not claimed:", [n["property_id"] for n in na])


if __name__ == "__main__":
    main()
