#!/venv/bin/python
"""Regenerates /verif/MANIFEST.json from the table below (checks present in /verif/checks)."""
import json
import os

HOME = os.path.dirname(os.path.dirname(os.path.abspath(__file__)))
FIX_COMMITS = []

T = {
    "C01": ("exploration", "differential against own MapSpec denotation over generated pipelines (symbolic probes + call log)",
            "Held on the generated executions: every output of every generated MapSpec pipeline, under each registered storage, compared element-by-element (as call-tree terms) with an independent denotational evaluator, plus exactly-once call accounting from the probe log.",
            "Bounded by the generator (<=4 functions, rank<=3, sizes 1..3); sequential execution plus the default process pool for two storage configurations (other parallel schedules are C03); oracle = vlib.mapgen.oracle.", "4/C01"),
    "C02": ("exploration", "differential against a reference DAG evaluator over generated call-DAGs (symbolic probes, call log, all call forms, listing orders, arg_combinations cuts)",
            "Held on the generated executions: value, call multiset, call order and full_output memo of pipeline(...)/run/func for every output and several keyword sets compared with an independent evaluator of the DAG description; listed argument combinations exercised; surplus/missing keywords must be rejected.",
            "Bounded by the generator (<=6 functions, <=3 roots); 'surplus keyword' is demanded to be rejected only when it names no parameter of any executed function (a keyword shadowed by a bound value carries no expectation).", "4/C02"),
    "C03": ("exploration", "schedule exploration: controlled executor permuting start/completion order of each generation + real thread/process pools with injected delays; cross-process call log (exactly-once, happens-before) and denotation oracle",
            "Held on the schedules produced: all permutations of small generations, sampled ones beyond, real pools with seeded delays, sync and async entry points, storage x executor matrix; each run checked against the denotation, exactly-once call accounting and happens-before of consumed values.",
            "Schedules are explored by permutation of submission batches, delays and real pools, not all interleavings; timestamps from CLOCK_MONOTONIC across processes.", "4/C03"),
    "C05": ("fault_enumeration", "crash injection at every recorded file-system event (incl. torn writes) and every user-call index, then resume and compare with the denotation; recompute monitor from the crashed process's fs trace",
            "Exhaustive over the recorded crash points of each listed workload x storage (x mode in thorough): process death before every logical fs event, torn writes at 4 offsets per data event, a raise at every probe call, double crashes and crashes during the clean-up of an older run in thorough.",
            "Process death = loss of userspace buffers (os._exit in a python-level interposer); no power-loss / write-reordering model; workloads are a fixed structural list, not generated.", "4/C05"),
    "C12": ("fault_enumeration", "single-fault mutation operators on valid generated cases; monitors: exception raised, empty probe call log, byte snapshot of a cleanup=False run folder unchanged",
            "Every operator of the property's list applied at every applicable position of each generated valid case; a fault that is accepted, lets user code run first, or alters the run folder is a violation.",
            "'rejected' = any exception; run folder written by the file_array storage; operators listed in the evidence rule.", "4/C12"),
    "C13": ("fault_enumeration", "failure injection at every (function, invocation) x exception type x execution mode; monitors on exception identity/notes, call log (no later generation), ErrorSnapshot API, loadability, bounded-progress watchdog",
            "Every expected invocation (sampled to 12 per case) of generated pipelines made the single failing call under 6 map modes and 3 call forms; checks type/args/notes at the caller, no later-generation call, snapshot reproduce (also via file), completed results loadable, return within a watchdog.",
            "'does not hang' restated as bounded progress (60 s, confirmed with 5x budget); snapshot clauses for in-process modes only; loadability on file_array.", "4/C13"),
    "C18": ("exploration", "differential lazy vs eager twin vs reference evaluator; call log before/after evaluate(); recorded task graph compared with dependencies read off the deferred objects and with the reference DAG",
            "Held on generated DAGs (diamonds, tuple-output interior nodes, bound values, intermediates supplied): zero calls before evaluate(), value equality, exactly-once after three evaluate() calls, task graph acyclic with exactly the producer/consumer edges.",
            "Bounded by the generator (<=6 functions); deferred objects inspected through .func/.args/.kwargs/.evaluate().", "4/C18"),
    "C04": ("exploration", "reload differential: run folder written by a forked child, reloaded in the running process and in a fresh interpreter (no fork) after all manager processes are gone; compared with the denotation and with what the run was given",
            "Held on generated pipelines x every persisting storage configuration (file_array, dict, shared_memory_dict, two per-output mixes), sequential and process-pool runs: outputs, inputs (value and type), defaults, shapes, masks, MapSpecs, storage choice, repeated load, xarray dataset same-process vs fresh-process.",
            "Fresh process = subprocess with another PYTHONHASHSEED sharing only the folder; xarray helper failures themselves belong to C19.", "4/C04"),
    "C06": ("exploration", "partitioned execution monitor: fixed_indices parts and adaptive learners run in shuffled orders; per-part stored-mask and call-log accounting against the denotation, final full run must compute nothing",
            "Held on generated pipelines with an unreduced root axis: partitions into ints / negative ints / slices / negative-step slices (one and two axes), learners with and without split_independent_axes and with fixed_indices; invalid requests must be rejected before any call.",
            "Independent axes computed by the harness's own analysis; masks observed through load_outputs; file_array storage.", "4/C06"),
    "C08": ("exploration", "model-based differential on MapSpec (own AST algebra): round trip, shape, output_key/input_keys bijection, malformation operators, rename/add_axes, consistency helpers",
            "Exhaustive over all small specs (<=2 inputs, rank<=2, 3 index names) x all shapes with sizes 1..4 x all linear indices, plus sampled larger specs, mutated texts and spec sets.",
            "Text mutations: word text may never be dropped silently; stray punctuation is judged only when a clear non-identifier name results (see evidence rule).", "4/C08"),
    "C07": ("exploration", "history differential: one operation history applied to a reference masked object array and to every registered storage backend; cross-backend agreement",
            "Exhaustive over tiny geometries (external rank 0..2, internal rank 0..1, all 2^rank interleavings, all key tuples, histories <= 3) plus random histories up to rank 3; dump/getitem/to_array/mask/mask_linear/has_index/get_from_index/persist-reopen compared through one canonical rendering.",
            "Slice-dump semantics taken from the repository's storage tests; behaviours the statement does not determine are not judged; shared_memory_dict is sampled.", "4/C07"),
    "C09": ("exploration", "history + twin differential: one generated operation history on a cached pipeline and on an uncached twin built from separate probes; immediate-repeat monitor on the call log; cached maps vs the denotation",
            "Histories of <= 12 operations (root-only and intermediate-supplying calls over recurring values, full_output, update_defaults / update_bound / replace) x 4 cache types x random cached subsets; cached MapSpec pipelines with repeated inputs under sequential / thread / process execution sharing the cache.",
            "No-re-execution clause demanded only for immediately repeated root-complete calls; staleness after pipeline mutations is a recorded known finding (classified by replaying the reference evaluator on the pre-mutation state).", "4/C09"),
    "C10": ("exploration", "differential of rewritten pipelines against the reference evaluator on the ORIGINAL description modulo the name map; non-interference re-evaluation; add_mapspec_axis slice-wise comparison",
            "12 rewrites and compositions of up to 3 on generated DAGs (tuple-output interior and leaf nodes, bound values, defaults), called with dotted keys and nested dicts; copy/pickle/rename/scope also under map; add_mapspec_axis lifted over 3 values.",
            "Inputs of an output inside a nested function are read from the rewritten pipeline's root_args (choice of inputs only); nest subsets are convex with a single leaf; two recorded known findings (scoped names in NestedPipeFunc, duplicate merge in simplified_pipeline).", "4/C10"),
    "C11": ("exploration", "differential of restricted runs (subpipeline, map(output_names), auto_subpipeline) against the harness's own needed-set / computability analysis and the reference evaluator; call log = exactly the needed functions",
            "All non-empty output sets (<=4 outputs; sampled beyond) x exact cuts (root-only, interior-only, mixed) on call-DAGs with nullary / default-only functions and on MapSpec pipelines; uncomputable requests must raise naming a missing name.",
            "Functions taking a defaulted root declare the default themselves; no defaults on parameters naming an upstream output; surplus inputs are C12's business.", "4/C11"),
    "C14": ("exploration", "explicit-state exploration of the replacement-policy models with the real cache carried along every transition; multi-process stress with sys.monitoring yield injection and barrier checks; icontract invariant as diagnostic",
            "Every transition of the model trees (3-4 keys, max_size 1..3, depth 5-7) checked on the real LRU/Hybrid/Simple/Disk caches incl. re-put, clear, reopen; shared instances through managers and 3-4 process stress runs with quiescent barriers.",
            "Hybrid details the docstring leaves open are accepted either way; disk eviction judged by observed st_ctime_ns minima; stress explores schedules by yield injection, not exhaustively.", "4/C14"),
    "C15": ("exploration", "differential of to_hashable against a structural value-equality oracle over generated value pairs (equal copies, look-alike mutants), cross-interpreter key comparison under different hash seeds, stale-hit monitor on memoize",
            "Recursive generator over the supported types to depth 3, ~80 look-alike mutation kinds, every cache class behind memoize, fresh interpreters with other PYTHONHASHSEEDs.",
            "Numbers equal across scalar types (1/True/1.0) and pandas dtypes carry no expectation; NaN and forged marker tuples excluded; pickle-fallback keys are a recorded known finding.", "4/C15"),
    "C16": ("exploration", "differential of is_type_compatible against a reference subtype relation over all ordered annotation pairs + algebraic laws + generated annotated pipelines (direct / element-wise / reduction edges)",
            "All ordered pairs of depth<=1 (quick) / depth<=2 (thorough) annotations plus seeded depth-3 pairs; laws named individually; pipelines built with validation on and off.",
            "Reference relation calibrated against the literal triples of tests/test_typing.py; TypeVar in source position one-sided; string metadata in Annotated outside the grammar.", "4/C16"),
    "C17": ("exploration", "model-based differential on the sweep API (list-semantics reference): single sweeps, product, +/MultiSweep, filtered_sweep, count_sweep",
            "Exhaustive over item dicts with <=3 keys (thorough: 4), lengths 0..3, all partitions into zipped groups, every option cell (constants/derivers/exclude), all structure pairs for product/+ and sampled triples.",
            "Row-major order demanded only when dims is omitted or in item order; derivers are order-independent by construction; product with a zipped right operand under a dims=None left operand is a recorded known finding.", "4/C17"),
    "C19": ("exploration", "differential of the two dataset constructors (identical()) and of dims / values / coordinates / sel against the denotation and the harness's own (input, axis) dependency analysis",
            "Generated MapSpec pipelines run into a file_array folder; both constructors with load_intermediate on and off; every output's dims and values, every 1-D input coordinate (plain or ':'-joined multi-index component) and selection by coordinate value.",
            "Selection on multi-index components is not demanded (xarray-version dependent); zipped inputs of rank >= 2 are a recorded known finding.", "4/C19"),
    "C20": ("exploration", "model-based differential on the Resources API (own arithmetic model) with icontract snapshot/ensure contracts on the real methods for the no-side-effect clause",
            "Exhaustive grid of single specifications, all ordered pairs of a value core, sampled operand lists, update calls, invalid-combination grid and mutated memory/time strings, NestedPipeFunc maxima; contracts count their evaluations (zero = inconclusive).",
            "Memory compared under decimal and binary unit conventions; only strings outside a permissive grammar must be rejected; see evidence assumptions.", "4/C20"),
}

NOT_BUILT_REASON = "check not built yet in this round (design in DESIGN.md section 4); not claimed until its monitor exists and is silent on the unchanged tree"


def main():
    props = [json.loads(l)["id"] for l in open(os.path.join(HOME, "properties.jsonl"))]
    checks, na = [], []
    for p in props:
        if p in T and os.path.exists(os.path.join(HOME, "checks", p.lower() + ".py")):
            level, tech, text, note, ref = T[p]
            checks.append({
                "property_id": p,
                "quick_cmd": f"./check {p} --tier quick",
                "thorough_cmd": f"./check {p} --tier thorough",
                "evidence_file": f"/verif/evidence/{p}.json",
                "replay_cmd_template": f"./check {p} --replay {{path}}",
                "engine": "vlib",
                "level_claimed": {"category": level, "text": text, "design_ref": f"DESIGN.md section {ref}"},
                "level_note": note,
                "technique": "runtime monitoring: " + tech,
            })
        else:
            na.append({"property_id": p, "reason": NOT_BUILT_REASON})
    m = {
        "version": 1,
        "setup_cmd": "./tools/setup.sh",
        "hooks": {
            "guard": "PIPEFUNC_VERIF",
            "enable": "no source hooks: every observation point is reached from outside (probe user functions, public executor/storage arguments, audit hooks, sys.monitoring); ./check exports PIPEFUNC_VERIF=1 for uniformity only",
            "baseline_off_cmd": "./tools/baseline.sh",
            "source_commits": [],
            "add_only": True,
        },
        "engines": [{"name": "vlib", "path": "/verif/vlib", "serves_properties": [c["property_id"] for c in checks],
                     "kind_free_text": "fork-based shard runner, symbolic probes with append-only call log, case generators with independent reference oracles, fs-event crash injector, controlled executor, known-finding classifier"}],
        "checks": checks,
        "not_applicable": na,
        "notes": "Runtime-monitoring family. Exit 0 = held on everything explored (KNOWN-FINDING lines allowed), 1 = VIOLATION, 2 = INCONCLUSIVE (fail-closed floor missed / watchdog). All commands honour VERIF_SEED and VERIF_TIER and import pipefunc from /repo's working tree at run time (VERIF_REPO overrides for self-tests).",
    }
    with open(os.path.join(HOME, "MANIFEST.json"), "w") as f:
        json.dump(m, f, indent=1)
    print("claimed:", [c["property_id"] for c in checks], "not claimed:", [n["property_id"] for n in na])


if __name__ == "__main__":
    main()
