#!/bin/bash
# Runs the repository's pinned baseline command with the verification guard OFF and compares the
# set of passing tests with /root/.vp/BASELINE.json (stable_pass).  Exit 0 iff every stable test passes.
unset PIPEFUNC_VERIF PYTHONPATH PYTEST_DISABLE_PLUGIN_AUTOLOAD
OUT="${1:-$(mktemp -d)}"
mkdir -p "$OUT"
cd "${VERIF_REPO:-/repo}" || exit 2
/venv/bin/python -m pytest -ra -q -p no:cacheprovider --timeout=900 --continue-on-collection-errors \
   --junitxml="$OUT/baseline.junit.xml" > "$OUT/baseline.log" 2>&1
/venv/bin/python - "$OUT/baseline.junit.xml" <<'PY'
import json, sys, xml.etree.ElementTree as ET
base = json.load(open("/root/.vp/BASELINE.json"))
stable = set(base["stable_pass"])
passed = set()
for tc in ET.parse(sys.argv[1]).getroot().iter("testcase"):
    if not any(ch.tag in ("failure", "error", "skipped") for ch in tc):
        passed.add(f"{tc.get('classname')}::{tc.get('name')}")
missing = sorted(stable - passed)
print(f"baseline: {len(passed)} passed, {len(stable)} stable expected, {len(missing)} stable tests not passing")
for m in missing[:40]:
    print("  NOT PASSING:", m)
sys.exit(1 if missing else 0)
PY
