#!/bin/bash
# Re-runs every seeded change in /verif/seeded against the current checks (quick tier, no suite re-run), 4 at a time.
cd "$(dirname "$0")/.."
ls seeded | xargs -P 4 -I{} sh -c '
  prop=$(/venv/bin/python -c "import json;print(json.load(open(\"seeded/{}/meta.json\"))[\"property\"])")
  checks=$(/venv/bin/python -c "import json;print(\",\".join(sorted(json.load(open(\"seeded/{}/meta.json\"))[\"checks\"])))")
  timeout 3000 tools/seedcheck.py seeded/{} {} $prop $checks --no-suite 2>&1 | grep -v "^  " | grep -- "->"'
