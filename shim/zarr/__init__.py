# Shim used by the verification harness only (first on PYTHONPATH of every harness process).
# The installed zarr 3.x lacks zarr.storage.KVStore, which makes `import pipefunc` fail with an
# AttributeError that pipefunc does not suppress.  Raising ImportError here selects the
# configuration pipefunc documents as "zarr not installed".  See DESIGN.md section 2.
raise ImportError("zarr disabled by /verif/shim (see DESIGN.md section 2)")
